// C10 — lite-server API bindings speak exactly the wire format of lite_api.tl (reference model R5).
package c10

import (
	"bytes"
	"encoding/binary"
	"encoding/hex"
	"fmt"
	"io"
	"os"
	"reflect"
	"sort"
	"strings"
	"sync"
	"testing"
	"testing/iotest"

	"github.com/tonkeeper/tongo/liteclient"
	"github.com/tonkeeper/tongo/tl"

	"verifharness/internal/core"
	"verifharness/internal/tlbind"
	"verifharness/internal/tlref"
)

func TestMain(m *testing.M) { core.Main(m, "C10") }

func repoDir() string {
	if v := os.Getenv("VERIF_REPO"); v != "" {
		return v
	}
	return "/repo"
}

// ---------------------------------------------------------------------------------------------
// schema, Go types, targets

type targetKind int

const (
	tBare    targetKind = iota // single-constructor type: Go struct <Constructor>C, MarshalTL without id
	tUnion                     // multi-constructor type: Go union struct, MarshalTL with id
	tBoxed1                    // hand-written boxed form of a single-constructor type (LiteServerSignatureSet)
	tRequest                   // function: Go struct <Function>Request, MarshalTL = arguments without id
)

type target struct {
	kind     targetKind
	name     string            // TL name shown in notes and classes
	con      *tlref.Combinator // tBare, tBoxed1, tRequest
	typeName string            // tUnion, tBoxed1
	goType   reflect.Type
	hasBytes bool // has a bytes/string field directly in the (first) constructor
	usedBits int  // number of flag bits conditional fields depend on (top level)
}

type setup struct {
	schema   *tlref.Schema
	targets  []*target
	unmapped []string
	methods  map[string]*methodInfo // by function name
	err      error
}

var (
	setupOnce sync.Once
	st        setup
)

func camel(s string) string {
	var sb strings.Builder
	up := true
	for i := 0; i < len(s); i++ {
		ch := s[i]
		switch {
		case ch >= 'a' && ch <= 'z':
			if up {
				ch -= 'a' - 'A'
			}
			sb.WriteByte(ch)
			up = false
		case ch >= 'A' && ch <= 'Z':
			sb.WriteByte(ch)
			up = false
		case ch >= '0' && ch <= '9':
			sb.WriteByte(ch)
			up = true
		default:
			up = true
		}
	}
	return sb.String()
}

const lcPkg = "github.com/tonkeeper/tongo/liteclient"

func collect(rt reflect.Type, into map[string]reflect.Type) {
	switch rt.Kind() {
	case reflect.Pointer, reflect.Slice, reflect.Array:
		collect(rt.Elem(), into)
	case reflect.Struct:
		if rt.Name() != "" {
			if rt.PkgPath() != lcPkg || into[rt.Name()] != nil {
				return
			}
			into[rt.Name()] = rt
		}
		for i := 0; i < rt.NumField(); i++ {
			collect(rt.Field(i).Type, into)
		}
	}
}

// Binding types that no function of the schema reaches; everything else is discovered by reflection
// from the methods of *liteclient.Client and from LiteapiRequestDecoder.
var unreachable = []any{
	liteclient.AdnlMessage{}, liteclient.LiteServerErrorC{}, liteclient.TonNodeShardPublicOverlayIdC{},
	liteclient.LiteServerDebugVerbosityC{}, liteclient.LiteServerSignatureSetC{}, liteclient.LiteServerValidatorStatsC{},
}

func getSetup() *setup {
	setupOnce.Do(func() {
		text, err := os.ReadFile(repoDir() + "/liteclient/lite_api.tl")
		if err != nil {
			st.err = err
			return
		}
		s, err := tlref.ParseSchema(string(text))
		if err != nil {
			st.err = fmt.Errorf("reference parser rejects lite_api.tl: %v", err)
			return
		}
		st.schema = s
		goTypes := map[string]reflect.Type{}
		client := reflect.TypeOf((*liteclient.Client)(nil))
		clientMethods := map[string]reflect.Method{}
		for i := 0; i < client.NumMethod(); i++ {
			m := client.Method(i)
			clientMethods[m.Name] = m
			for j := 1; j < m.Type.NumIn(); j++ {
				collect(m.Type.In(j), goTypes)
			}
			for j := 0; j < m.Type.NumOut(); j++ {
				collect(m.Type.Out(j), goTypes)
			}
		}
		for _, f := range s.Funcs { // request structs of functions without arguments appear in no signature
			var id [4]byte
			binary.LittleEndian.PutUint32(id[:], f.ID)
			_, name, val, err := liteclient.LiteapiRequestDecoder(id[:])
			if err == nil && val != nil {
				collect(reflect.TypeOf(val), goTypes)
			} else if len(f.Fields) == 0 {
				// a function without arguments: its request is exactly its 32-bit id
				st.unmapped = append(st.unmapped, fmt.Sprintf("%s: LiteapiRequestDecoder does not recognise the complete request %x (name %v, value %v, error %v)", f.Name, id, name, val, err))
			}
		}
		for _, v := range unreachable {
			collect(reflect.TypeOf(v), goTypes)
		}
		add := func(t *target, goName string) {
			rt := goTypes[goName]
			if rt == nil {
				st.unmapped = append(st.unmapped, fmt.Sprintf("%s: no Go type %s found", t.name, goName))
				return
			}
			var err error
			switch t.kind {
			case tUnion, tBoxed1:
				err = tlbind.CheckBoxedShape(s, t.typeName, rt)
			default:
				err = tlbind.CheckObjectShape(s, t.con, rt)
			}
			if err != nil {
				st.unmapped = append(st.unmapped, fmt.Sprintf("%s: Go type %s does not have the shape of the declaration: %v", t.name, goName, err))
				return
			}
			t.goType = rt
			c := t.con
			if c == nil {
				c = s.ConstructorsOf(t.typeName)[0]
			}
			for i, f := range c.Fields {
				if f.Type.Kind == tlref.KBytes || f.Type.Kind == tlref.KString {
					t.hasBytes = true
				}
				if f.Type.Kind == tlref.KNat && f.Cond == "" {
					for m := c.UsedBits(i); m != 0; m &= m - 1 {
						t.usedBits++
					}
				}
			}
			st.targets = append(st.targets, t)
		}
		for _, tn := range s.TypeNames() {
			cs := s.ConstructorsOf(tn)
			if len(cs) == 1 {
				add(&target{kind: tBare, name: cs[0].Name, con: cs[0]}, camel(cs[0].Name)+"C")
				if goTypes[camel(tn)] != nil && camel(tn) != camel(cs[0].Name)+"C" {
					add(&target{kind: tBoxed1, name: tn + " (boxed)", con: cs[0], typeName: tn}, camel(tn))
				}
			} else {
				add(&target{kind: tUnion, name: tn, typeName: tn}, camel(tn))
			}
		}
		for _, f := range s.Funcs {
			add(&target{kind: tRequest, name: f.Name, con: f}, camel(f.Name)+"Request")
		}
		sort.SliceStable(st.targets, func(i, j int) bool { return st.targets[i].name < st.targets[j].name })
		st.methods, err = scanMethods(s, clientMethods)
		if err != nil {
			st.err = err
		}
	})
	return &st
}

func (t *target) typeExpr() tlref.TypeExpr {
	if t.kind == tUnion || t.kind == tBoxed1 {
		return tlref.TypeExpr{Kind: tlref.KBoxed, Name: t.typeName}
	}
	return tlref.TypeExpr{Kind: tlref.KBare, Name: t.con.Name}
}

// ---------------------------------------------------------------------------------------------
// the oracle for one value of one target

func diffAt(a, b []byte) string {
	n := len(a)
	if len(b) < n {
		n = len(b)
	}
	i := 0
	for i < n && a[i] == b[i] {
		i++
	}
	cut := func(x []byte) string {
		lo, hi := i-8, i+16
		if lo < 0 {
			lo = 0
		}
		if hi > len(x) {
			hi = len(x)
		}
		if lo > hi {
			lo = hi
		}
		return hex.EncodeToString(x[lo:hi])
	}
	return fmt.Sprintf("lengths %d / %d, first difference at offset %d: …%s… / …%s…", len(a), len(b), i, cut(a), cut(b))
}

func marshalOf(x any) ([]byte, error) {
	m, ok := x.(tl.MarshalerTL)
	if !ok {
		return nil, fmt.Errorf("%T has no MarshalTL", x)
	}
	return m.MarshalTL()
}

// checkValue runs every oracle of the property on abstract value v of target t.
func checkValue(c *core.Ctx, su *setup, t *target, v *tlref.Value, stale func(f tlref.Field) *tlref.Value, form int, formRnd tlref.Rand) error {
	s := su.schema
	var want []byte
	var err error
	switch t.kind {
	case tUnion, tBoxed1:
		want, err = s.EncodeBoxed(nil, v)
	default:
		want, err = s.EncodeBare(nil, v)
	}
	if err != nil {
		return fmt.Errorf("harness error: reference encoder: %v", err)
	}
	gv := reflect.New(t.goType).Elem()
	if err := tlbind.ToGo(s, t.typeExpr(), v, gv, &tlbind.Options{Absent: stale}); err != nil {
		return fmt.Errorf("harness error: populating %v: %v", t.goType, err)
	}
	// the two Go representations of an empty byte string / vector (nil, non-nil of length 0) are the same
	// TL value and have the same layout
	nils, _ := setSliceForm(gv, form, formRnd)
	goForm := ""
	if nils > 0 {
		goForm = fmt.Sprintf("\nGo value: %d of its empty byte strings / vectors are nil slices (%s)", nils, sliceFormNames[form])
		c.Note("nil_slices", nils)
	}
	hasMarshal := !(t.kind == tRequest && len(t.con.Fields) == 0)

	// (1a) MarshalTL == reference bytes, through the method and through tl.Marshal
	if hasMarshal {
		got, err := marshalOf(gv.Interface())
		if err != nil {
			return fmt.Errorf("%s: MarshalTL of %s: %v%s", t.name, v, err, goForm)
		}
		if !bytes.Equal(got, want) {
			return fmt.Errorf("%s: MarshalTL differs from the layout the schema defines (library / reference): %s\nvalue %s%s", t.name, diffAt(got, want), v, goForm)
		}
		got2, err := tl.Marshal(gv.Addr().Interface())
		if err != nil || !bytes.Equal(got2, want) {
			return fmt.Errorf("%s: tl.Marshal(pointer) differs from MarshalTL: err=%v %s%s", t.name, err, diffAt(got2, want), goForm)
		}
	} else if len(want) != 0 {
		return fmt.Errorf("harness error: function without fields encodes to %d bytes", len(want))
	}

	// (1b) UnmarshalTL(reference bytes) == value, consuming exactly the value's bytes
	decodeInto := func(data []byte, what string) error {
		p := reflect.New(t.goType)
		rd := bytes.NewReader(data)
		if err := tl.Unmarshal(rd, p.Interface()); err != nil {
			return fmt.Errorf("%s: tl.Unmarshal of the %s: %v\nvalue %s\nbytes %s", t.name, what, err, v, clip(data))
		}
		if rd.Len() != len(data)-len(want) {
			return fmt.Errorf("%s: tl.Unmarshal of the %s consumed %d of the value's %d bytes\nvalue %s", t.name, what, len(data)-rd.Len(), len(want), v)
		}
		back, err := tlbind.FromGo(s, t.typeExpr(), p.Elem())
		if err != nil {
			return fmt.Errorf("%s: result of tl.Unmarshal of the %s: %v\nvalue %s", t.name, what, err, v)
		}
		if !tlref.Equal(back, v) {
			return fmt.Errorf("%s: tl.Unmarshal of the %s gives\n  %s\nwant\n  %s", t.name, what, back, v)
		}
		return nil
	}
	if err := decodeInto(want, "reference bytes"); err != nil {
		return err
	}
	// the same bytes delivered in small chunks, the way a network reader hands them over
	{
		p := reflect.New(t.goType)
		chunked := io.Reader(iotest.OneByteReader(bytes.NewReader(want)))
		if len(want)%2 == 1 {
			chunked = iotest.HalfReader(bytes.NewReader(want))
		}
		if err := tl.Unmarshal(chunked, p.Interface()); err != nil {
			return fmt.Errorf("%s: tl.Unmarshal of the reference bytes from a reader that returns short reads: %v\nvalue %s", t.name, err, v)
		}
		back, err := tlbind.FromGo(s, t.typeExpr(), p.Elem())
		if err != nil || !tlref.Equal(back, v) {
			return fmt.Errorf("%s: tl.Unmarshal from a reader that returns short reads gives another value (%v)\n  %v\nwant\n  %s", t.name, err, back, v)
		}
	}
	// a value consumes exactly its own bytes also from a reader that offers nothing but Read (a network
	// connection, a LimitedReader): what follows in the stream is the next value's
	{
		tail := []byte{0xde, 0xad, 0xbe, 0xef, 1, 2, 3, 4}
		under := bytes.NewReader(append(append([]byte{}, want...), tail...))
		p := reflect.New(t.goType)
		if err := tl.Unmarshal(struct{ io.Reader }{under}, p.Interface()); err != nil {
			return fmt.Errorf("%s: tl.Unmarshal of the reference bytes followed by other data, from a plain io.Reader: %v\nvalue %s", t.name, err, v)
		}
		if under.Len() != len(tail) {
			return fmt.Errorf("%s: tl.Unmarshal from a plain io.Reader consumed %d bytes, the value has %d (the %d bytes behind it belong to the next value)\nvalue %s", t.name, len(want)+len(tail)-under.Len(), len(want), len(tail), v)
		}
		back, err := tlbind.FromGo(s, t.typeExpr(), p.Elem())
		if err != nil || !tlref.Equal(back, v) {
			return fmt.Errorf("%s: tl.Unmarshal from a plain io.Reader gives another value (%v)\n  %v\nwant\n  %s", t.name, err, back, v)
		}
	}
	// the decoded value owns its bytes: a caller that decodes from a reusable buffer (bytes.Buffer, a scratch
	// slice behind a reader) and then refills that buffer for the next object still holds the first object
	for _, kind := range []string{"bytes.Buffer", "bytes.Reader over a scratch slice"} {
		p := reflect.New(t.goType)
		scratch := append(make([]byte, 0, len(want)+64), want...)
		var rd io.Reader
		var refill func()
		if kind == "bytes.Buffer" {
			b := bytes.NewBuffer(scratch)
			rd, refill = b, func() { b.Reset(); b.Write(bytes.Repeat([]byte{0xa5}, len(want)+32)) }
		} else {
			rd, refill = bytes.NewReader(scratch), func() {
				for i := range scratch {
					scratch[i] = 0x5a
				}
			}
		}
		if err := tl.Unmarshal(rd, p.Interface()); err != nil {
			return fmt.Errorf("%s: tl.Unmarshal of the reference bytes from a %s: %v\nvalue %s", t.name, kind, err, v)
		}
		refill()
		back, err := tlbind.FromGo(s, t.typeExpr(), p.Elem())
		if err != nil || !tlref.Equal(back, v) {
			return fmt.Errorf("%s: the value decoded from a %s changed when the buffer was refilled for the next object (%v)\n  %v\nwant\n  %s", t.name, kind, err, back, v)
		}
	}
	// every proper prefix of the layout is an incomplete value: decoding reads the same fields in the same order
	// and must run out of bytes (all cuts for short layouts, otherwise the last 16 and a spread of others)
	if len(want) > 0 {
		cuts := map[int]bool{}
		for k := 0; k < len(want) && k < 96; k++ {
			cuts[k] = true
		}
		for k := len(want) - 16; k < len(want); k++ {
			if k >= 0 {
				cuts[k] = true
			}
		}
		for k := 96; k < len(want); k += 1 + len(want)/24 {
			cuts[k] = true
		}
		var ks []int
		for k := range cuts {
			ks = append(ks, k)
		}
		sort.Ints(ks)
		for _, k := range ks {
			p := reflect.New(t.goType)
			var derr error
			if perr := core.Protect(func() error { derr = tl.Unmarshal(bytes.NewReader(want[:k]), p.Interface()); return nil }); perr != nil {
				return fmt.Errorf("%s: tl.Unmarshal panicked on the first %d of the %d bytes of a value: %v\nvalue %s", t.name, k, len(want), perr, v)
			}
			if derr == nil {
				return fmt.Errorf("%s: tl.Unmarshal accepts the first %d of the %d bytes of a value as a complete value\nvalue %s\nbytes %s", t.name, k, len(want), v, clip(want[:k]))
			}
		}
	}
	// the same bytes followed by the next value of a stream: nothing beyond the value may be consumed
	if err := decodeInto(append(append([]byte{}, want...), 0xb5, 0x75, 0x72, 0x99, 1, 2, 3), "reference bytes followed by other data"); err != nil {
		return err
	}

	switch t.kind {
	case tRequest:
		// (2)+(3) request = function id + arguments
		f := t.con
		req := binary.LittleEndian.AppendUint32(nil, f.ID)
		req = append(req, want...)
		mi := su.methods[f.Name]
		if mi == nil {
			return fmt.Errorf("%s: no method of *liteclient.Client sends this function", f.Name)
		}
		payload, err := mi.buildPayload(gv)
		if err != nil {
			return fmt.Errorf("%s: building the payload the way method %s does: %v", f.Name, mi.name, err)
		}
		if !bytes.Equal(payload, req) {
			return fmt.Errorf("%s: payload built by method %s differs from function id + arguments (library / reference): %s\nvalue %s%s", f.Name, mi.name, diffAt(payload, req), v, goForm)
		}
		tag, name, val, err := liteclient.LiteapiRequestDecoder(req)
		if err != nil {
			return fmt.Errorf("%s: LiteapiRequestDecoder: %v", f.Name, err)
		}
		if tag != f.ID || name == nil || *name != f.Name {
			n := "<nil>"
			if name != nil {
				n = *name
			}
			return fmt.Errorf("%s: LiteapiRequestDecoder names %q (tag %08x), want %q (tag %08x)\nrequest %s", f.Name, n, tag, f.Name, f.ID, clip(req))
		}
		if val == nil || reflect.TypeOf(val) != t.goType {
			return fmt.Errorf("%s: LiteapiRequestDecoder returns a %T, want %v", f.Name, val, t.goType)
		}
		back, err := tlbind.FromGo(s, t.typeExpr(), reflect.ValueOf(val))
		if err != nil || !tlref.Equal(back, v) {
			return fmt.Errorf("%s: LiteapiRequestDecoder yields %s (%v), want %s", f.Name, back, err, v)
		}
	}
	return nil
}

func clip(b []byte) string {
	if len(b) > 96 {
		return fmt.Sprintf("%x…(%d bytes)", b[:96], len(b))
	}
	return hex.EncodeToString(b)
}

func classify(c *core.Ctx, su *setup, t *target, v *tlref.Value, want []byte) {
	f := su.schema.Inspect(v)
	switch t.kind {
	case tBare:
		c.Class("kind: constructor")
	case tUnion:
		c.Class("kind: union " + v.Con.Name)
	case tBoxed1:
		c.Class("kind: boxed single-constructor type")
	case tRequest:
		c.Class("kind: function")
	}
	if f.ModeBits > 0 {
		c.Class("conditional field present")
	}
	if f.AbsentConds > 0 {
		c.Class("conditional field absent")
	}
	if f.UnusedBits {
		c.Class("unused flag bits set")
	}
	if f.LongBytes > 0 {
		c.Class("byte string >= 254")
	}
	if f.Vectors > 0 {
		c.Class("non-empty vector")
	}
	if f.EmptyVecs > 0 {
		c.Class("empty vector")
	}
	if f.Boxed > 0 {
		c.Class("nested boxed value")
	}
	if f.ModeBits > 0 || f.LongBytes > 0 || f.Vectors > 0 {
		c.NonTrivial(t.name, want)
	}
}

func refBytes(su *setup, t *target, v *tlref.Value) []byte {
	var b []byte
	if t.kind == tUnion || t.kind == tBoxed1 {
		b, _ = su.schema.EncodeBoxed(nil, v)
	} else {
		b, _ = su.schema.EncodeBare(nil, v)
	}
	return b
}

func drawAndCheck(c *core.Ctx, su *setup, t *target, r tlref.Rand, o *tlref.GenOpts) error {
	return drawAndCheckForm(c, su, t, r, o, -1)
}

// drawAndCheckForm: form < 0 draws the Go representation of the empty slices (one case in four non-nil
// everywhere, two in four nil everywhere, one in four drawn per slice).
func drawAndCheckForm(c *core.Ctx, su *setup, t *target, r tlref.Rand, o *tlref.GenOpts, form int) error {
	var v *tlref.Value
	if t.kind == tUnion {
		v = su.schema.Draw(r, t.typeExpr(), o)
	} else {
		v = su.schema.DrawObject(r, t.con, o)
	}
	var stale func(f tlref.Field) *tlref.Value
	if r.Intn("stale", 4) == 0 {
		stale = func(f tlref.Field) *tlref.Value {
			return su.schema.Draw(r, f.Type, &tlref.GenOpts{MaxBytes: 20, MaxVec: 2})
		}
		c.Class("absent conditional fields hold stale Go values")
	}
	if form < 0 {
		form = [4]int{slicesMade, slicesNil, slicesNil, slicesMixed}[r.Intn("slice.form", 4)]
	}
	c.Note("declaration", t.name)
	c.Note("value", v.String())
	c.Note("empty_go_slices", sliceFormNames[form])
	classify(c, su, t, v, refBytes(su, t, v))
	if emptyPresentCond(v) > 0 {
		c.Class("present conditional bytes/vector field is empty, Go slices " + sliceFormNames[form])
	}
	return checkValue(c, su, t, v, stale, form, r)
}

// c10/value: rapid-drawn declaration and value.
var valueCheck = &core.Check{Name: "c10/value", Quick: 5000, Thorough: 250000, Fn: func(c *core.Ctx) error {
	su := getSetup()
	if su.err != nil {
		return su.err
	}
	t := su.targets[c.Choose("declaration", len(su.targets))]
	return drawAndCheck(c, su, t, c, &tlref.GenOpts{})
}}

// c10/each: tape = declaration index, seed; the value is a pure function of the seed.
var eachCheck = &core.Check{Name: "c10/each", Fn: func(c *core.Ctx) error {
	su := getSetup()
	if su.err != nil {
		return su.err
	}
	t := su.targets[c.Intn("declaration", len(su.targets))]
	seed := c.U64("seed")
	return drawAndCheck(c, su, t, tlref.NewSeedRand(seed), &tlref.GenOpts{})
}}

// c10/modes: tape = declaration index, subset of the used flag bits, seed.
var modesCheck = &core.Check{Name: "c10/modes", Fn: func(c *core.Ctx) error {
	su := getSetup()
	if su.err != nil {
		return su.err
	}
	t := su.targets[c.Intn("declaration", len(su.targets))]
	if t.usedBits == 0 {
		return nil
	}
	subset := uint32(c.Intn("subset", 1<<uint(t.usedBits)))
	seed := c.U64("seed")
	c.Note("subset", subset)
	return drawAndCheck(c, su, t, tlref.NewSeedRand(seed), &tlref.GenOpts{ModeSubset: &subset})
}}

// ---------------------------------------------------------------------------------------------
// byte-string lengths

type rawCarrier struct {
	name string
	kind tlref.Kind
}

var rawCarriers = []rawCarrier{{"[]byte through tl.Marshal", tlref.KBytes}, {"string through tl.Marshal", tlref.KString}}

func lenCarriers(su *setup) []*target {
	var out []*target
	for _, t := range su.targets {
		if t.hasBytes {
			out = append(out, t)
		}
	}
	return out
}

const maxLen = tlref.MaxBytesLen

func fill(n int, seed uint64) []byte {
	b := make([]byte, n)
	core.NewSplitMix(seed).Fill(b)
	return b
}

// c10/bytelen: tape = length, carrier. Carrier 0/1: a bare []byte / string through the reflection codec;
// otherwise a declaration with byte-string fields, all of which get exactly that length.
var lenCheck = &core.Check{Name: "c10/bytelen", Quick: 1500, Thorough: 40000, Fn: func(c *core.Ctx) error {
	su := getSetup()
	if su.err != nil {
		return su.err
	}
	carriers := lenCarriers(su)
	var n int
	switch c.Weighted("len.kind", 6, 2, 1) {
	case 0:
		n = c.Intn("len", 1101)
	case 1:
		n = c.Intn("len", 70000)
	default:
		n = c.Intn("len", maxLen+1)
	}
	k := c.Intn("carrier", len(rawCarriers)+len(carriers))
	c.Note("length", n)
	switch {
	case n < 254:
		c.Class("length < 254")
	case n <= 1100:
		c.Class("length 254..1100")
	case n < 65536:
		c.Class("length 1101..65535")
	default:
		c.Class("length >= 65536")
	}
	if n >= 254 {
		c.NonTrivial(k, n)
	}
	if k < len(rawCarriers) {
		rc := rawCarriers[k]
		c.Note("carrier", rc.name)
		data := fill(n, uint64(n)+1)
		want, err := tlref.AppendBytes(nil, data)
		if err != nil {
			return err
		}
		var got []byte
		if rc.kind == tlref.KBytes {
			got, err = tl.Marshal(data)
		} else {
			got, err = tl.Marshal(string(data))
		}
		if err != nil {
			return fmt.Errorf("tl.Marshal of a %d-byte %s: %v", n, rc.kind, err)
		}
		if !bytes.Equal(got, want) {
			return fmt.Errorf("tl.Marshal of a %d-byte %s (library / reference): %s", n, rc.kind, diffAt(got, want))
		}
		stream := append(append([]byte{}, want...), 9, 9, 9, 9)
		rd := bytes.NewReader(stream)
		var back []byte
		if rc.kind == tlref.KBytes {
			err = tl.Unmarshal(rd, &back)
		} else {
			var sv string
			err = tl.Unmarshal(rd, &sv)
			back = []byte(sv)
		}
		if err != nil {
			return fmt.Errorf("tl.Unmarshal of a %d-byte %s: %v", n, rc.kind, err)
		}
		if !bytes.Equal(back, data) {
			return fmt.Errorf("tl.Unmarshal of a %d-byte %s returns other content: %s", n, rc.kind, diffAt(back, data))
		}
		if rd.Len() != 4 {
			return fmt.Errorf("tl.Unmarshal of a %d-byte %s consumed %d bytes, layout has %d", n, rc.kind, len(stream)-rd.Len(), len(want))
		}
		return nil
	}
	t := carriers[k-len(rawCarriers)]
	o := &tlref.GenOpts{ForceLen: true, BytesLen: n, ContentSeed: uint64(n)*131 + 7, AllBits: true, MaxVec: 1}
	if n > 70000 {
		o.ForceMax = 1 // one very long string per value is enough
	}
	return drawAndCheck(c, su, t, tlref.NewSeedRand(uint64(n)), o)
}}

// ---------------------------------------------------------------------------------------------

// c10/mapping: every declaration and function of lite_api.tl has a binding type of the right shape (and the
// request decoder recognises every function id). One case; a failure is a violation like any other.
var mappingCheck = &core.Check{Name: "c10/mapping", Fn: func(c *core.Ctx) error {
	c.Intn("unused", 1)
	su := getSetup()
	if su.err != nil {
		return su.err
	}
	c.NonTrivial("mapping")
	if len(su.unmapped) > 0 {
		return fmt.Errorf("declarations of lite_api.tl without a matching binding type:\n%s", strings.Join(su.unmapped, "\n"))
	}
	return nil
}}

func TestMapping(t *testing.T) {
	core.RunEnum(t, mappingCheck, "", func(yield func(...uint64) bool) { yield(0) })
	su := getSetup()
	if su.err != nil {
		return
	}
	s := su.schema
	agree, explicit, dis := s.CRCAgreement()
	core.Extra(valueCheck.Name, "schema", fmt.Sprintf("%d constructors of %d types, %d functions", len(s.Types), len(s.TypeNames()), len(s.Funcs)))
	core.Extra(valueCheck.Name, "crc32_anchor", fmt.Sprintf("informational: %d of %d explicit ids equal CRC32 of the line text; others: %v", agree, explicit, dis))
	core.Extra(valueCheck.Name, "targets", len(su.targets))
	core.Extra(valueCheck.Name, "unmapped", su.unmapped)
	t.Logf("%d targets; crc32 anchor %d/%d (differing: %v)", len(su.targets), agree, explicit, dis)
}

func TestProp(t *testing.T) {
	t.Run("value", func(t *testing.T) { core.Run(t, valueCheck) })
	t.Run("bytelen", func(t *testing.T) { core.Run(t, lenCheck) })
	t.Run("handwritten", func(t *testing.T) { core.Run(t, handCheck) })
}

func TestEnum(t *testing.T) {
	su := getSetup()
	if su.err != nil {
		t.Fatal(su.err)
	}
	seeds := core.Scale(30, 600)
	core.RunEnum(t, eachCheck, fmt.Sprintf("every declaration and function of lite_api.tl (%d binding types) x %d seeded values", len(su.targets), seeds), func(yield func(...uint64) bool) {
		for i := range su.targets {
			for sd := 1; sd <= seeds; sd++ {
				if !yield(uint64(i), uint64(sd)*0x9e3779b9+uint64(i)) {
					return
				}
			}
		}
	})
	mseeds := core.Scale(6, 100)
	core.RunEnum(t, modesCheck, fmt.Sprintf("every subset of the flag bits each declaration uses x %d seeded values", mseeds), func(yield func(...uint64) bool) {
		for i, tg := range su.targets {
			if tg.usedBits == 0 {
				continue
			}
			for sub := 0; sub < 1<<uint(tg.usedBits); sub++ {
				for sd := 1; sd <= mseeds; sd++ {
					if !yield(uint64(i), uint64(sub), uint64(sd)*7919+uint64(sub)) {
						return
					}
				}
			}
		}
	})
	carriers := lenCarriers(su)
	perLen := core.Scale(3, len(carriers))
	core.RunEnum(t, lenCheck, fmt.Sprintf("byte strings of every length 0..1100 as []byte, as string and inside %d of the %d declarations with byte-string fields", perLen, len(carriers)), func(yield func(...uint64) bool) {
		for n := 0; n <= 1100; n++ {
			for k := 0; k < len(rawCarriers); k++ {
				if !yield(0, uint64(n), uint64(k)) {
					return
				}
			}
			for j := 0; j < perLen; j++ {
				k := len(rawCarriers) + (n*perLen+j)%len(carriers)
				if !yield(0, uint64(n), uint64(k)) {
					return
				}
			}
		}
	})
	// boundaries of the length encoding: 2^16 and the largest length the 3-byte field can hold
	big := []int{65534, 65535, 65536, 65537}
	if core.Thorough() {
		big = append(big, 1<<16+255, 1<<20, maxLen-4, maxLen-3, maxLen-2, maxLen-1, maxLen)
	} else {
		big = append(big, maxLen)
	}
	core.RunEnum(t, lenCheck, "", func(yield func(...uint64) bool) {
		for i, n := range big {
			for k := 0; k < len(rawCarriers); k++ {
				if !yield(8, uint64(n), uint64(k)) {
					return
				}
			}
			if core.Thorough() || n < 1<<20 {
				if !yield(8, uint64(n), uint64(len(rawCarriers)+i%len(carriers))) {
					return
				}
			}
		}
	})
	core.RunEnum(t, methodCheck, "every function of lite_api.tl against the ids compiled into its client method", func(yield func(...uint64) bool) {
		for i := range su.schema.Funcs {
			if !yield(uint64(i)) {
				return
			}
		}
	})
	core.RunEnum(t, oversizeProbe, "", func(yield func(...uint64) bool) { yield(0) })
}

func TestReplay(t *testing.T) {
	core.Replay(t, valueCheck, eachCheck, modesCheck, lenCheck, handCheck, methodCheck, genCheck, oversizeProbe, vecCheck, emptyCheck, nilPtrCheck, foreignCheck, concurrentCheck, mappingCheck, wireCheck, wirePairCheck, answerCheck, answerLenCheck)
}
