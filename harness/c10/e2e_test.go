//go:build adnle2e

// Optional end-to-end part of C10 (enabled with `-tags "verif adnle2e"`): every (*Client).LiteServer*
// method is called by reflection against the in-process ADNL lite-server of internal/adnlsrv; the server
// checks that the query is liteServer.query around exactly the reference request bytes and answers with
// reference-encoded values. Kept behind a tag so that C10 does not depend on adnlsrv's API.
package c10

import (
	"bytes"
	"context"
	"crypto/ed25519"
	"encoding/binary"
	"fmt"
	"reflect"
	"sync"
	"testing"
	"time"

	"github.com/tonkeeper/tongo/liteclient"

	"verifharness/internal/adnlsrv"
	"verifharness/internal/core"
	"verifharness/internal/tlbind"
	"verifharness/internal/tlref"
)

type e2eEnv struct {
	srv    *adnlsrv.Server
	client *liteclient.Client
	mu     sync.Mutex
	got    [][]byte // query bodies received
	answer []byte
	err    error
}

var (
	e2eOnce sync.Once
	e2e     e2eEnv
)

func e2eSetup() *e2eEnv {
	e2eOnce.Do(func() {
		seed := make([]byte, ed25519.SeedSize)
		core.NewSplitMix(core.Seed() + 77).Fill(seed)
		priv := ed25519.NewKeyFromSeed(seed)
		srv, err := adnlsrv.Listen(priv, adnlsrv.Hooks{Serve: func(c *adnlsrv.Conn) {
			c.Loop(func(f adnlsrv.Frame) bool {
				id, body, ok := adnlsrv.ParseQuery(f.Payload)
				if !ok {
					return true
				}
				e2e.mu.Lock()
				e2e.got = append(e2e.got, append([]byte{}, body...))
				ans := e2e.answer
				e2e.mu.Unlock()
				return c.WriteFrame(adnlsrv.Answer(id, ans)) == nil
			})
		}})
		if err != nil {
			e2e.err = err
			return
		}
		e2e.srv = srv
		ctx, cancel := context.WithTimeout(context.Background(), 30*time.Second)
		defer cancel()
		conn, err := liteclient.NewConnection(ctx, srv.PublicKey(), srv.Addr())
		if err != nil {
			e2e.err = fmt.Errorf("NewConnection to the in-process server: %v", err)
			return
		}
		e2e.client = liteclient.NewClient(conn, liteclient.OptionTimeout(60*time.Second))
	})
	return &e2e
}

const liteServerQueryID = 0x798c06df // liteServer.query data:bytes = Object

// c10/e2e: tape = function index, then the request value and the kind of answer.
var e2eCheck = &core.Check{Name: "c10/e2e", Quick: 300, Thorough: 20000, Fn: func(c *core.Ctx) error {
	su := getSetup()
	if su.err != nil {
		return su.err
	}
	env := e2eSetup()
	if env.err != nil {
		return fmt.Errorf("harness error: %v", env.err)
	}
	s := su.schema
	f := s.Funcs[c.Choose("function", len(s.Funcs))]
	mi := su.methods[f.Name]
	if mi == nil || !mi.hasMethod {
		return fmt.Errorf("%s: no client method", f.Name)
	}
	var reqT, resT *target
	for _, t := range su.targets {
		if t.kind == tRequest && t.con == f {
			reqT = t
		}
		if (t.kind == tBare && t.con.Result == f.Result) || (t.kind == tUnion && t.typeName == f.Result) {
			resT = t
		}
	}
	if reqT == nil || resT == nil {
		return fmt.Errorf("harness error: no binding types for %s", f.Name)
	}
	v := s.DrawObject(c, f, &tlref.GenOpts{})
	args, err := s.EncodeBare(nil, v)
	if err != nil {
		return err
	}
	wantReq := append(binary.LittleEndian.AppendUint32(nil, f.ID), args...)
	gv := reflect.New(reqT.goType).Elem()
	if err := tlbind.ToGo(s, reqT.typeExpr(), v, gv, nil); err != nil {
		return err
	}
	setSliceForm(gv, c.Intn("slice.form", 3), c) // empty byte strings / vectors of the request: nil, non-nil, mixed
	c.Note("function", f.Name)
	c.Note("request", v.String())
	kind := c.Weighted("answer", 6, 2, 1)
	var ansVal *tlref.Value
	var answer []byte
	switch kind {
	case 0:
		if resT.kind == tUnion {
			ansVal = s.Draw(c, resT.typeExpr(), &tlref.GenOpts{})
		} else {
			ansVal = s.DrawObject(c, resT.con, &tlref.GenOpts{})
		}
		answer, _ = s.EncodeBoxed(nil, ansVal)
		c.Class("answered with a value")
	case 1:
		ansVal = s.DrawObject(c, s.Constructor("liteServer.error"), &tlref.GenOpts{MaxBytes: 300})
		answer, _ = s.EncodeBoxed(nil, ansVal)
		c.Class("answered with liteServer.error")
	default:
		answer = []byte{0xde, 0xc0, 0xad, 0x0b, 0, 0, 0, 0}
		c.Class("answered with an unknown constructor id")
	}
	ft := s.Inspect(v)
	fa := s.Inspect(ansVal)
	if ft.ModeBits+fa.ModeBits > 0 || ft.LongBytes+fa.LongBytes > 0 || ft.Vectors+fa.Vectors > 0 {
		c.NonTrivial(f.Name, wantReq, answer)
	}
	env.mu.Lock()
	env.got, env.answer = nil, answer
	env.mu.Unlock()
	in := []reflect.Value{reflect.ValueOf(env.client), reflect.ValueOf(context.Background())}
	if len(f.Fields) > 0 {
		in = append(in, gv)
	}
	out := mi.method.Func.Call(in)
	env.mu.Lock()
	got := env.got
	env.mu.Unlock()
	callErr, _ := out[1].Interface().(error)
	if len(got) != 1 {
		return fmt.Errorf("%s: the server received %d queries for one call (call error: %v)", f.Name, len(got), callErr)
	}
	body := got[0]
	if len(body) < 4 || binary.LittleEndian.Uint32(body) != liteServerQueryID {
		return fmt.Errorf("%s: the query is not liteServer.query: %s", f.Name, clip(body))
	}
	inner, used, err := s.Decode(body[4:], tlref.TypeExpr{Kind: tlref.KBytes})
	if err != nil || used != len(body)-4 {
		return fmt.Errorf("%s: liteServer.query does not hold exactly one byte string: %v (%d of %d bytes)", f.Name, err, used, len(body)-4)
	}
	if !bytes.Equal(inner.Bytes, wantReq) {
		return fmt.Errorf("%s: request on the wire differs from function id + arguments (wire / reference): %s\nvalue %s", f.Name, diffAt(inner.Bytes, wantReq), v)
	}
	switch kind {
	case 0:
		if callErr != nil {
			return fmt.Errorf("%s: method rejects the answer %s: %v", f.Name, ansVal, callErr)
		}
		back, err := tlbind.FromGo(s, resT.typeExpr(), out[0])
		if err != nil || !tlref.Equal(back, ansVal) {
			return fmt.Errorf("%s: method returns %s (%v), the answer was %s", f.Name, back, err, ansVal)
		}
	case 1:
		le, ok := callErr.(liteclient.LiteServerErrorC)
		if !ok {
			return fmt.Errorf("%s: answered with liteServer.error, method returns %T %v", f.Name, callErr, callErr)
		}
		if le.Code != uint32(ansVal.Fields[0].N) || le.Message != string(ansVal.Fields[1].Bytes) {
			return fmt.Errorf("%s: method returns error %+v, the answer was %s", f.Name, le, ansVal)
		}
	default:
		if callErr == nil {
			return fmt.Errorf("%s: method accepts an answer with an unknown constructor id", f.Name)
		}
	}
	return nil
}}

func TestE2E(t *testing.T) {
	t.Run("e2e", func(t *testing.T) { core.Run(t, e2eCheck) })
	if e2e.srv != nil {
		e2e.srv.Close()
	}
}

func init() { core.Register(e2eCheck) }
