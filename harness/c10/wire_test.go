package c10

import (
	"bytes"
	"context"
	"crypto/ed25519"
	"encoding/binary"
	"errors"
	"fmt"
	"hash/crc32"
	"reflect"
	"runtime"
	"sort"
	"strings"
	"sync"
	"testing"
	"time"

	"github.com/tonkeeper/tongo/liteclient"

	"verifharness/internal/adnlsrv"
	"verifharness/internal/core"
	"verifharness/internal/tlbind"
	"verifharness/internal/tlref"
)

// c10/wire, c10/wirepair: what the server receives. A request frame is a function of the request alone:
// SEQUENCES of requests of different sizes go through one liteclient.Client (raw Client.Request and the typed
// LiteServer* methods, one after the other or from several goroutines at once) to the in-process reference
// ADNL server (internal/adnlsrv), which keeps the complete payload of every frame it receives. Each payload
// must be, byte for byte, the reference layout (internal/tlref, schema line adnl.message.query of
// lite_api.tl) of
//
//	adnl.message.query query_id:int256 query:bytes
//
// around exactly the request bytes: constructor id, 32 id bytes (free), the 1-byte or 0xfe+3-byte length,
// the bytes, ZERO bytes up to a multiple of four and nothing else - whatever was sent before. For the typed
// methods the request bytes are liteServer.query data:bytes around function id + reference argument bytes.
//
// Real time: nothing is measured. A call that ends with a transport error of the client (time-out after 20 s,
// connection lost) without a wrong frame on the server's side is inconclusive, never a violation; the
// server/client pair is then replaced so that a late frame cannot be counted for a later case.

// liteServer.query is a comment line in lite_api.tl ("liteServer.query#798c06df data:bytes = Object"); its id
// is derived from the declaration text.
var wireLSQuery = tlref.NaturalID("liteServer.query data:bytes = Object")

// wireCallTimeout is the time-out of the client for one request. Running into it is never a violation.
const wireCallTimeout = 20 * time.Second

type wireEnv struct {
	srv     *adnlsrv.Server
	client  *liteclient.Client
	schema  *tlref.Schema
	dropped bool // under wireMu

	mu     sync.Mutex
	frames [][]byte // payload of every frame received (other than tcp.ping) since the case began
	// planned: answers of the running case chosen by the case itself, by query bytes (answer_test.go); a query
	// without an entry gets wireAnswer. Still a pure function of the query for the duration of a case.
	planned map[string][]byte
	onBad  func()   // called when a frame arrives that cannot be answered (no adnl.message.query with a byte string) or that watch refuses
	watch  func(p []byte) bool
}

var (
	wireMu  sync.Mutex
	wireCur *wireEnv

	errWireConnect = errors.New("NewConnection to the in-process server")
)

const c10WireName = "c10/wire"

var wireAnswerLens = [...]int{0, 1, 2, 3, 4, 5, 17, 252, 253, 254, 255, 256, 257, 258, 300, 1000}

// wireAnswer is the answer of the server: a pure function of the query bytes, so that callers working at the
// same time need no coordination. liteServer.query is answered with a reference-encoded liteServer.error
// (every typed method hands it back as its error), anything else with a byte string.
func wireAnswer(s *tlref.Schema, body []byte) []byte {
	h := crc32.ChecksumIEEE(body)
	if len(body) >= 4 && binary.LittleEndian.Uint32(body) == wireLSQuery {
		code, msg := wireErrorOf(body)
		v := &tlref.Value{Kind: tlref.KObject, Con: s.Constructor("liteServer.error"), Fields: []*tlref.Value{tlref.VInt(code), tlref.VString([]byte(msg))}}
		out, err := s.EncodeBoxed(nil, v)
		if err != nil {
			panic("harness error: reference encoder: " + err.Error())
		}
		return out
	}
	return fill(wireAnswerLens[int(h%uint32(len(wireAnswerLens)))], uint64(h)+1)
}

func wireErrorOf(body []byte) (uint32, string) {
	return crc32.ChecksumIEEE(body) | 1, fmt.Sprintf("wire answer to %d bytes", len(body))
}

func wireGet(su *setup) (*wireEnv, error) {
	wireMu.Lock()
	defer wireMu.Unlock()
	if wireCur != nil {
		return wireCur, nil
	}
	env := &wireEnv{schema: su.schema}
	seed := make([]byte, ed25519.SeedSize)
	core.NewSplitMix(core.Seed() + 1077).Fill(seed)
	srv, err := adnlsrv.Listen(ed25519.NewKeyFromSeed(seed), adnlsrv.Hooks{Serve: func(c *adnlsrv.Conn) {
		c.Loop(func(f adnlsrv.Frame) bool {
			p := append([]byte{}, f.Payload...)
			var id [32]byte
			var body []byte
			ok := false
			if len(p) >= 37 && binary.LittleEndian.Uint32(p) == adnlsrv.MagicQuery {
				copy(id[:], p[4:36])
				if b, _, err := adnlsrv.ParseTLBytes(p[36:]); err == nil {
					body, ok = b, true
				}
			}
			env.mu.Lock()
			env.frames = append(env.frames, p)
			answer, isPlanned := []byte(nil), false
			if ok {
				answer, isPlanned = env.planned[string(body)]
			}
			bad := env.onBad
			if env.watch != nil && !env.watch(p) && bad != nil {
				defer bad() // after the answer: the callers stop waiting for answers that cannot reach them
			}
			env.mu.Unlock()
			if !ok {
				if bad != nil {
					bad()
				}
				return true
			}
			if !isPlanned {
				answer = wireAnswer(env.schema, body)
			}
			return c.WriteFrame(wireAnswerFrame(env.schema, id, answer)) == nil
		})
	}})
	if err != nil {
		return nil, err
	}
	ctx, cancel := context.WithTimeout(context.Background(), 60*time.Second)
	defer cancel()
	conn, err := liteclient.NewConnection(ctx, srv.PublicKey(), srv.Addr())
	if err != nil {
		srv.Close()
		return nil, fmt.Errorf("%w: %v", errWireConnect, err)
	}
	env.srv = srv
	env.client = liteclient.NewClient(conn, liteclient.OptionTimeout(wireCallTimeout))
	wireCur = env
	return env, nil
}

// wireDrop takes a server/client pair out of service (its client stays parked, it never spins).
func wireDrop(env *wireEnv) {
	wireMu.Lock()
	if wireCur == env {
		wireCur = nil
	}
	first := !env.dropped
	env.dropped = true
	wireMu.Unlock()
	if first {
		env.srv.Retire(0)
	}
}

func (env *wireEnv) count() int {
	env.mu.Lock()
	defer env.mu.Unlock()
	return len(env.frames)
}

func (env *wireEnv) since(k int) [][]byte {
	env.mu.Lock()
	defer env.mu.Unlock()
	return append([][]byte{}, env.frames[k:]...)
}

// wireStep is one request of a sequence.
type wireStep struct {
	desc  string
	wantQ []byte // reference bytes of the byte string adnl.message.query carries
	typed bool
	// call returns what Client.Request returned (raw steps) or the first result of the typed method
	call func(ctx context.Context, cl *liteclient.Client) ([]byte, reflect.Value, error)

	// answer_test.go: the answer the server gives to exactly this query (planned), instead of wireAnswer
	planned bool
	answer  []byte       // content of answer:bytes of adnl.message.answer
	resT    *target      // typed, answer is a value of the result type: its binding
	wantV   *tlref.Value // … and the value the method must return
	errCode uint32       // typed, answer is liteServer.error: what the method must hand back
	errMsg  string
}

// wireAnswerFrame is the reference layout of adnl.message.answer query_id:int256 answer:bytes (schema line of
// lite_api.tl, R5 encoder) around the answer bytes.
func wireAnswerFrame(s *tlref.Schema, id [32]byte, answer []byte) []byte {
	con := s.Constructor("adnl.message.answer")
	if con == nil || len(con.Fields) != 2 {
		return adnlsrv.Answer(id, answer)
	}
	v := &tlref.Value{Kind: tlref.KObject, Con: con, Fields: []*tlref.Value{tlref.VInt256(id[:]), tlref.VBytes(answer)}}
	out, err := s.EncodeBoxed(nil, v)
	if err != nil {
		panic("harness error: reference encoder: " + err.Error())
	}
	if ref := adnlsrv.Answer(id, answer); !bytes.Equal(out, ref) {
		panic(fmt.Sprintf("harness error: the two reference encoders of adnl.message.answer disagree on an answer of %d bytes", len(answer)))
	}
	return out
}

// frameLen is the size of the reference frame before and after padding.
func (st *wireStep) frameLen() (unpadded, padded int) {
	n := 36 + 1 + len(st.wantQ)
	if len(st.wantQ) >= 254 {
		n += 3
	}
	return n, (n + 3) &^ 3
}

func wireFrameRef(s *tlref.Schema, id []byte, q []byte) []byte {
	v := &tlref.Value{Kind: tlref.KObject, Con: s.Constructor("adnl.message.query"), Fields: []*tlref.Value{tlref.VInt256(id), tlref.VBytes(q)}}
	out, err := s.EncodeBoxed(nil, v)
	if err != nil {
		panic("harness error: reference encoder: " + err.Error())
	}
	return out
}

func wireIDOf(frame []byte) []byte {
	id := make([]byte, 32)
	if len(frame) >= 36 {
		copy(id, frame[4:36])
	}
	return id
}

func wireRawStep(n int, seed uint64, nonzero bool) wireStep {
	q := fill(n, seed)
	if nonzero {
		for i := range q {
			if q[i] == 0 {
				q[i] = 0xa5
			}
		}
	}
	return wireStep{
		desc:  fmt.Sprintf("Request(q) with len(q)=%d", n),
		wantQ: q,
		call: func(ctx context.Context, cl *liteclient.Client) ([]byte, reflect.Value, error) {
			ret, err := cl.Request(ctx, append([]byte{}, q...))
			return ret, reflect.Value{}, err
		},
	}
}

var (
	wireReqOnce sync.Once
	wireReqT    map[*tlref.Combinator]*target
)

func wireTypedStep(su *setup, f *tlref.Combinator, v *tlref.Value, form int, rnd tlref.Rand) (wireStep, error) {
	wireReqOnce.Do(func() {
		wireReqT = map[*tlref.Combinator]*target{}
		for _, t := range su.targets {
			if t.kind == tRequest {
				wireReqT[t.con] = t
			}
		}
	})
	s := su.schema
	mi, reqT := su.methods[f.Name], wireReqT[f]
	if mi == nil || !mi.hasMethod || reqT == nil {
		return wireStep{}, fmt.Errorf("%s: no client method / request type", f.Name)
	}
	args, err := s.EncodeBare(nil, v)
	if err != nil {
		return wireStep{}, fmt.Errorf("harness error: reference encoder: %v", err)
	}
	inner := append(binary.LittleEndian.AppendUint32(nil, f.ID), args...)
	wantQ, err := tlref.AppendBytes(binary.LittleEndian.AppendUint32(nil, wireLSQuery), inner)
	if err != nil {
		return wireStep{}, fmt.Errorf("harness error: reference encoder: %v", err)
	}
	gv := reflect.New(reqT.goType).Elem()
	if err := tlbind.ToGo(s, reqT.typeExpr(), v, gv, nil); err != nil {
		return wireStep{}, fmt.Errorf("harness error: populating %v: %v", reqT.goType, err)
	}
	setSliceForm(gv, form, rnd)
	method := mi.method
	hasArg := len(f.Fields) > 0
	code, msg := wireErrorOf(wantQ)
	return wireStep{
		desc:    fmt.Sprintf("%s (function id + arguments = %d bytes)", mi.name, len(inner)),
		wantQ:   wantQ,
		typed:   true,
		errCode: code,
		errMsg:  msg,
		call: func(ctx context.Context, cl *liteclient.Client) ([]byte, reflect.Value, error) {
			in := []reflect.Value{reflect.ValueOf(cl), reflect.ValueOf(ctx)}
			if hasArg {
				in = append(in, gv)
			}
			out := method.Func.Call(in)
			e, _ := out[1].Interface().(error)
			return nil, out[0], e
		},
	}, nil
}

// judge looks at what a call returned. inconclusive: the client reports a transport error.
func (st *wireStep) judge(s *tlref.Schema, ret []byte, res reflect.Value, err error) (verdict error, inconclusive bool) {
	if err != nil && liteclient.IsClientError(err) {
		return nil, true
	}
	if st.typed && st.wantV != nil {
		return st.judgeResult(s, res, err), false
	}
	if st.typed {
		code, msg := st.errCode, st.errMsg
		le, ok := err.(liteclient.LiteServerErrorC)
		if !ok {
			return fmt.Errorf("%s: the server answered with liteServer.error{code=%#x message=%s}, the method returns %T %v", st.desc, code, clipStr(msg), err, err), false
		}
		if le.Code != code || le.Message != msg {
			return fmt.Errorf("%s: the server answered with liteServer.error{code=%#x message=%s}, the method returns code=%#x message=%s", st.desc, code, clipStr(msg), le.Code, clipStr(le.Message)), false
		}
		return nil, false
	}
	if err != nil {
		return fmt.Errorf("%s: %v", st.desc, err), false
	}
	want := st.answer
	if !st.planned {
		want = wireAnswer(s, st.wantQ)
	}
	if !bytes.Equal(ret, want) {
		return fmt.Errorf("%s: returns other bytes than adnl.message.answer carried (returned / answer): %s", st.desc, diffAt(ret, want)), false
	}
	return nil, false
}

func clipStr(m string) string {
	if len(m) > 64 {
		return fmt.Sprintf("%q…(%d bytes)", m[:64], len(m))
	}
	return fmt.Sprintf("%q", m)
}

func wireHistory(steps []wireStep, upTo int) string {
	if upTo == 0 {
		return "first request of the case (earlier cases went through the same client)"
	}
	var parts []string
	lo := 0
	if upTo > 6 {
		lo = upTo - 6
		parts = append(parts, "…")
	}
	for i := lo; i < upTo; i++ {
		_, p := steps[i].frameLen()
		parts = append(parts, fmt.Sprintf("%s [frame of %d bytes]", steps[i].desc, p))
	}
	return "sent before through the same client: " + strings.Join(parts, "; ")
}

func wireClassify(c *core.Ctx, prelude []wireStep, seqs [][]wireStep, procs int) {
	var key []any
	key = append(key, procs, len(seqs))
	nontrivial := false
	before := 0
	for _, st := range prelude {
		_, before = st.frameLen()
		key = append(key, before)
	}
	for _, steps := range seqs {
		longest := before
		for _, st := range steps {
			u, p := st.frameLen()
			if st.typed {
				c.Class("typed method")
			} else {
				c.Class("Client.Request")
			}
			if len(st.wantQ) >= 254 {
				c.Class("query >= 254 bytes (4-byte length)")
			} else {
				c.Class("query < 254 bytes (1-byte length)")
			}
			if len(st.wantQ) >= 250 && len(st.wantQ) <= 257 {
				c.Class("query of 250..257 bytes")
			}
			if p > u {
				if p < longest {
					c.Class(fmt.Sprintf("%d padding bytes, after a longer request", p-u))
					nontrivial = true
				} else {
					c.Class(fmt.Sprintf("%d padding bytes, no longer request before", p-u))
				}
			} else {
				c.Class("no padding")
			}
			if p > longest {
				longest = p
			}
			key = append(key, st.typed, len(st.wantQ))
		}
	}
	if len(seqs) > 1 {
		c.Class("requests from several goroutines at once")
		nontrivial = true
	}
	switch procs {
	case 0:
		c.Class("GOMAXPROCS unchanged")
	default:
		c.Class(fmt.Sprintf("GOMAXPROCS %d", procs))
	}
	if nontrivial {
		c.NonTrivial(key...)
	}
}

// wireRun sends the sequences (one goroutine each) and compares what the server received.
func wireRun(c *core.Ctx, su *setup, prelude []wireStep, seqs [][]wireStep, procs int) error {
	env, err := wireGet(su)
	if err != nil {
		if errors.Is(err, errWireConnect) { // connecting is not this property's subject
			c.Class("inconclusive: no connection to the in-process server")
			core.Extra(c10WireName, "connect_error", err.Error())
			return nil
		}
		return fmt.Errorf("harness error: in-process ADNL server: %v", err)
	}
	s := su.schema
	if procs > 0 {
		defer runtime.GOMAXPROCS(runtime.GOMAXPROCS(procs))
	}
	ctx, cancel := context.WithTimeout(context.Background(), 120*time.Second)
	defer cancel()
	defer func() {
		if ctx.Err() != nil { // calls were given up: frames of this case may still be on their way
			wireDrop(env)
		}
	}()
	var planned map[string][]byte
	for _, steps := range append([][]wireStep{prelude}, seqs...) {
		for i := range steps {
			if st := &steps[i]; st.planned {
				if planned == nil {
					planned = map[string][]byte{}
				}
				if prev, dup := planned[string(st.wantQ)]; dup && !bytes.Equal(prev, st.answer) {
					return fmt.Errorf("harness error: two requests of one case with the same bytes and different planned answers (%s)", st.desc)
				}
				planned[string(st.wantQ)] = st.answer
			}
		}
	}
	env.mu.Lock()
	env.frames, env.onBad, env.planned = nil, cancel, planned
	env.mu.Unlock()
	defer func() {
		env.mu.Lock()
		env.onBad, env.watch, env.planned = nil, nil, nil
		env.mu.Unlock()
	}()
	inconclusive := func(why string) error {
		c.Class("inconclusive: " + why)
		wireDrop(env)
		return nil
	}

	// one request after the other: the frame of each call is known
	sequential := func(steps []wireStep) (stop bool, err error) {
		for i := range steps {
			st := &steps[i]
			before := env.count()
			ret, res, callErr := st.call(ctx, env.client)
			got := env.since(before)
			verdict, inc := st.judge(s, ret, res, callErr)
			if len(got) == 0 {
				if inc {
					return true, inconclusive("transport error of the client, no frame reached the server")
				}
				return true, fmt.Errorf("request %d, %s: the call ended (error: %v) although the server received nothing", i, st.desc, callErr)
			}
			want := wireFrameRef(s, wireIDOf(got[0]), st.wantQ)
			if !bytes.Equal(got[0], want) {
				u, p := st.frameLen()
				return true, fmt.Errorf("request %d, %s: the frame the server received is not the layout of adnl.message.query around the request bytes (%d bytes, then %d zero bytes) (wire / reference): %s\n%s",
					i, st.desc, u, p-u, diffAt(got[0], want), wireHistory(steps, i))
			}
			if len(got) != 1 {
				return true, fmt.Errorf("request %d, %s: the server received %d frames for one call; second frame %s", i, st.desc, len(got), clip(got[1]))
			}
			if inc {
				// one transport error proves nothing (no real time is measured). The same call again, twice, on the
				// same client: when the server receives the correct frame each time - so the connection carries
				// frames, and the server answers each of them with the planned answer - and the client still ends
				// every one of the three calls with a transport error, the answer is what the client cannot take.
				if st.planned {
					fails, lastErr := 1, callErr
					for try := 0; try < 2; try++ {
						b2 := env.count()
						r2, v2, e2 := st.call(ctx, env.client)
						g2 := env.since(b2)
						_, inc2 := st.judge(s, r2, v2, e2)
						if !inc2 || len(g2) != 1 || !bytes.Equal(g2[0], wireFrameRef(s, wireIDOf(g2[0]), st.wantQ)) {
							break
						}
						fails, lastErr = fails+1, e2
					}
					if fails == 3 {
						wireDrop(env)
						return true, fmt.Errorf("request %d, %s: three calls in a row: each time the server received the reference frame of the request and wrote its answer of %d bytes (adnl.message.answer in the reference layout) on the same connection, each time the client ended the call with %q\n%s", i, st.desc, len(st.answer), lastErr, wireHistory(steps, i))
					}
				}
				return true, inconclusive("transport error of the client after a correct frame")
			}
			if verdict != nil {
				return true, fmt.Errorf("request %d: %v", i, verdict)
			}
		}
		return false, nil
	}
	if len(seqs) == 1 {
		_, err := sequential(append(append([]wireStep{}, prelude...), seqs[0]...))
		return err
	}
	if stop, err := sequential(prelude); stop {
		return err
	}
	base := env.count()

	type result struct {
		verdict error
		inc     bool
	}
	// at once: the frames must be the reference frames of the requests, in any order (the 32 id bytes are free).
	// The server matches them as they arrive; the first frame that matches nothing ends the case.
	mask := func(f []byte) string {
		m := append([]byte{}, f...)
		if len(m) >= 36 {
			copy(m[4:36], make([]byte, 32))
		}
		return string(m)
	}
	expected := map[string]int{}
	total := 0
	for _, steps := range seqs {
		for i := range steps {
			expected[string(wireFrameRef(s, make([]byte, 32), steps[i].wantQ))]++
			total++
		}
	}
	var unmatched [][]byte
	env.mu.Lock()
	env.watch = func(f []byte) bool { // called with env.mu held
		if k := mask(f); expected[k] > 0 {
			expected[k]--
			return true
		}
		unmatched = append(unmatched, f)
		return false
	}
	env.mu.Unlock()
	results := make([][]result, len(seqs))
	var wg sync.WaitGroup
	start := make(chan struct{})
	for g := range seqs {
		results[g] = make([]result, len(seqs[g]))
		wg.Add(1)
		go func(g int) {
			defer wg.Done()
			<-start
			for i := range seqs[g] {
				st := &seqs[g][i]
				var ret []byte
				var res reflect.Value
				var callErr error
				if perr := core.Protect(func() error { ret, res, callErr = st.call(ctx, env.client); return nil }); perr != nil {
					results[g][i] = result{verdict: fmt.Errorf("%s: %v", st.desc, perr)}
					return
				}
				v, inc := st.judge(s, ret, res, callErr)
				results[g][i] = result{v, inc}
				if inc {
					return
				}
			}
		}(g)
	}
	close(start)
	wg.Wait()
	env.mu.Lock()
	env.watch = nil
	got := append([][]byte{}, env.frames[base:]...)
	env.mu.Unlock()
	anyInc := false
	for g := range results {
		for _, r := range results[g] {
			if r.inc {
				anyInc = true
			}
		}
	}
	if len(unmatched) > 0 {
		f := unmatched[0]
		// the request it most likely belongs to: the missing reference frame of the nearest size
		var missing []string
		for k, n := range expected {
			if n > 0 {
				missing = append(missing, k)
			}
		}
		sort.Slice(missing, func(i, j int) bool {
			di, dj := len(missing[i])-len(f), len(missing[j])-len(f)
			if di < 0 {
				di = -di
			}
			if dj < 0 {
				dj = -dj
			}
			if di != dj {
				return di < dj
			}
			return missing[i] < missing[j]
		})
		detail := "every reference frame of the case was received besides"
		if len(missing) > 0 {
			ref := []byte(missing[0])
			copy(ref[4:36], wireIDOf(f))
			detail = "(wire / nearest reference frame not received) " + diffAt(f, ref)
		}
		return fmt.Errorf("%d goroutines sent %d requests at once: %d of the %d frames the server received are not the reference layout of any request of the case; first: %s\n%s",
			len(seqs), total, len(unmatched), len(got), clip(f), detail)
	}
	for g := range results {
		for i, r := range results[g] {
			if r.verdict != nil {
				return fmt.Errorf("%d goroutines sent %d requests at once; goroutine %d, request %d: %v", len(seqs), total, g, i, r.verdict)
			}
		}
	}
	if anyInc {
		return inconclusive("transport error of the client")
	}
	if len(got) != total {
		return fmt.Errorf("%d goroutines sent %d requests at once and every call returned, the server received %d frames", len(seqs), total, len(got))
	}
	return nil
}

// ---------------------------------------------------------------------------------------------

func drawWireLen(c *core.Ctx, label string) int {
	switch c.Weighted(label+".kind", 4, 4, 2, 2, 1) {
	case 0:
		return c.Intn(label+".small", 17)
	case 1:
		return 228 + c.Choose(label+".switch", 40) // around the 254-byte switch of the outer and of the inner byte string
	case 2:
		return c.Intn(label+".mid", 601)
	case 3:
		return 600 + c.Intn(label+".long", 2400)
	}
	return 65520 + c.Choose(label+".64k", 32)
}

func wireSendMessage(su *setup) *tlref.Combinator {
	for _, f := range su.schema.Funcs {
		if f.Name == "liteServer.sendMessage" {
			return f
		}
	}
	return nil
}

func drawWireStep(c *core.Ctx, su *setup, long bool) (wireStep, error) {
	s := su.schema
	kind := c.Weighted("request.kind", 5, 2, 3)
	if long && kind == 2 {
		kind = 1
	}
	n := 0
	if kind < 2 {
		if long {
			n = 400 + c.Intn("len.long", 2600)
		} else {
			n = drawWireLen(c, "len")
		}
	}
	switch kind {
	case 0:
		return wireRawStep(n, c.U64("content")+uint64(n), false), nil
	case 1:
		f := wireSendMessage(su)
		if f == nil {
			return wireStep{}, fmt.Errorf("harness error: lite_api.tl has no liteServer.sendMessage")
		}
		v := s.DrawObject(c, f, &tlref.GenOpts{ForceLen: true, BytesLen: n, ContentSeed: c.U64("content")*2 + 1})
		return wireTypedStep(su, f, v, c.Intn("slice.form", 3), c)
	}
	f := s.Funcs[c.Choose("function", len(s.Funcs))]
	v := s.DrawObject(c, f, &tlref.GenOpts{})
	return wireTypedStep(su, f, v, c.Intn("slice.form", 3), c)
}

// GOMAXPROCS of a case (0: unchanged). One request after the other: mostly 1, so that state a request leaves behind
// in per-P caches (sync.Pool) is what the next request finds; requests at once: mostly unchanged.
var (
	wireProcs       = [...]int{1, 1, 1, 2, 0}
	wireProcsAtOnce = [...]int{0, 0, 4, 1}
)

// c10/wire: rapid-drawn sequences.
var wireCheck = &core.Check{Name: c10WireName, Quick: 120, Thorough: 20000, Fn: func(c *core.Ctx) error {
	su := getSetup()
	if su.err != nil {
		return su.err
	}
	goroutines := c.OneOf("goroutines", 1, 1, 1, 2, 4, 8)
	procs := wireProcs[c.Choose("gomaxprocs", len(wireProcs))]
	if goroutines > 1 {
		procs = wireProcsAtOnce[c.Choose("gomaxprocs.at.once", len(wireProcsAtOnce))]
	}
	// most cases begin with one fixed long request of non-zero bytes: the case then carries its own history and
	// fails on replay in a fresh process the way it failed at the end of a run
	var prelude []wireStep
	if n := c.OneOf("prelude", 2048, 2048, 700, 0); n > 0 {
		prelude = []wireStep{wireRawStep(n, 0x5eed, true)}
		c.Class(fmt.Sprintf("prelude: Request(q) with len(q)=%d", n))
	} else {
		c.Class("no prelude")
	}
	seqs := make([][]wireStep, goroutines)
	for g := range seqs {
		n := c.Range("requests", 2, 10)
		lead := c.Intn("lead.long", 4) != 0 // three cases in four begin with a long request
		for i := 0; i < n; i++ {
			st, err := drawWireStep(c, su, lead && i == 0)
			if err != nil {
				return err
			}
			seqs[g] = append(seqs[g], st)
		}
	}
	for g, steps := range seqs {
		var d []string
		for _, st := range steps {
			d = append(d, st.desc)
		}
		c.Note(fmt.Sprintf("goroutine_%d", g), strings.Join(d, "; "))
	}
	c.Note("gomaxprocs", procs)
	wireClassify(c, prelude, seqs, procs)
	return wireRun(c, su, prelude, seqs, procs)
}}

// c10/wirepair: tape = GOMAXPROCS (0: 1, 1: unchanged), carrier (0: Client.Request, 1: LiteServerSendMessage
// body), long length, short length. long, short, long, short through the one client.
var wirePairCheck = &core.Check{Name: "c10/wirepair", Fn: func(c *core.Ctx) error {
	su := getSetup()
	if su.err != nil {
		return su.err
	}
	procs := [2]int{1, 0}[c.Intn("gomaxprocs", 2)]
	carrier := c.Intn("carrier", 2)
	long := c.Intn("long", 1<<17)
	short := c.Intn("short", 1<<17)
	c.Note("gomaxprocs", procs)
	c.Note("carrier", [2]string{"Client.Request", "LiteServerSendMessage body"}[carrier])
	c.Note("long", long)
	c.Note("short", short)
	mk := func(n int, nonzero bool) (wireStep, error) {
		seed := uint64(n)*2654435761 + uint64(carrier) + 1
		if carrier == 0 {
			return wireRawStep(n, seed, nonzero), nil
		}
		f := wireSendMessage(su)
		if f == nil {
			return wireStep{}, fmt.Errorf("harness error: lite_api.tl has no liteServer.sendMessage")
		}
		body := fill(n, seed)
		for i := range body {
			if nonzero && body[i] == 0 {
				body[i] = 0xa5
			}
		}
		v := &tlref.Value{Kind: tlref.KObject, Con: f, Fields: []*tlref.Value{tlref.VBytes(body)}}
		return wireTypedStep(su, f, v, slicesMade, tlref.NewSeedRand(seed))
	}
	var steps []wireStep
	for round := 0; round < 2; round++ {
		for _, n := range [2]int{long, short} {
			st, err := mk(n, n == long)
			if err != nil {
				return err
			}
			steps = append(steps, st)
		}
	}
	seqs := [][]wireStep{steps}
	wireClassify(c, nil, seqs, procs)
	return wireRun(c, su, nil, seqs, procs)
}}

func TestWire(t *testing.T) {
	su := getSetup()
	if su.err != nil {
		t.Fatal(su.err)
	}
	longs := []int{300, 1500}
	var shorts []int
	for n := 0; n <= 12; n++ {
		shorts = append(shorts, n)
	}
	for n := 232; n <= 262; n++ {
		shorts = append(shorts, n)
	}
	if core.Thorough() {
		longs = append(longs, 70000)
		shorts = shorts[:0]
		for n := 0; n <= 299; n++ {
			shorts = append(shorts, n)
		}
	}
	t.Run("pair", func(t *testing.T) {
		core.RunEnum(t, wirePairCheck, fmt.Sprintf("long request then short request, twice, through one client: long %v x %d short lengths (0..12 and around the 254-byte switch; thorough: 0..299) x {Client.Request, LiteServerSendMessage body} x GOMAXPROCS {1, unchanged}", longs, len(shorts)), func(yield func(...uint64) bool) {
			for _, l := range longs {
				for _, sh := range shorts {
					for carrier := 0; carrier < 2; carrier++ {
						for p := 0; p < 2; p++ {
							if !yield(uint64(p), uint64(carrier), uint64(l), uint64(sh)) {
								return
							}
						}
					}
				}
			}
		})
	})
	t.Run("wire", func(t *testing.T) { core.Run(t, wireCheck) })
	wireMu.Lock()
	env := wireCur
	wireMu.Unlock()
	if env != nil {
		wireDrop(env)
	}
}
