package c10

import (
	"bytes"
	"fmt"
	"reflect"
	"testing"

	"github.com/tonkeeper/tongo/tl"

	"verifharness/internal/core"
	"verifharness/internal/tlbind"
	"verifharness/internal/tlref"
)

// c10/concurrent: 2..16 goroutines, each with binding values of its own (drawn and laid out by the reference
// encoder beforehand), marshal and unmarshal at the same time: every goroutine must see the reference layout
// of its own values and get its own values back.
var concurrentCheck = &core.Check{Name: "c10/concurrent", Quick: 2, Thorough: 200, Fn: func(c *core.Ctx) error {
	su := getSetup()
	if su.err != nil {
		return su.err
	}
	workers := c.OneOf("goroutines", 2, 4, 8, 16)
	rounds := c.Range("rounds", 50, 300)
	procs := c.OneOf("gomaxprocs", 2, 4, 16)
	const per = 8
	type item struct {
		t    *target
		v    *tlref.Value
		gv   reflect.Value
		want []byte
	}
	sets := make([][]item, workers)
	for w := range sets {
		for len(sets[w]) < per {
			t := su.targets[c.Choose("declaration", len(su.targets))]
			if t.kind == tRequest && len(t.con.Fields) == 0 {
				continue
			}
			r := tlref.NewSeedRand(c.U64("seed"))
			var v *tlref.Value
			if t.kind == tUnion {
				v = su.schema.Draw(r, t.typeExpr(), &tlref.GenOpts{})
			} else {
				v = su.schema.DrawObject(r, t.con, &tlref.GenOpts{})
			}
			gv := reflect.New(t.goType).Elem()
			if err := tlbind.ToGo(su.schema, t.typeExpr(), v, gv, &tlbind.Options{}); err != nil {
				return fmt.Errorf("harness error: populating %v: %v", t.goType, err)
			}
			sets[w] = append(sets[w], item{t: t, v: v, gv: gv, want: refBytes(su, t, v)})
		}
	}
	c.Note("goroutines", workers)
	c.Note("rounds", rounds)
	c.NonTrivial(workers, rounds, procs, sets[0][0].want)
	return core.Parallel(workers, rounds, procs, func(w, r int) error {
		it := sets[w][r%per]
		got, err := marshalOf(it.gv.Interface())
		if err != nil || !bytes.Equal(got, it.want) {
			return fmt.Errorf("%s: MarshalTL gives %s (%v), the layout is %s\nvalue %s", it.t.name, clip(got), err, clip(it.want), it.v)
		}
		p := reflect.New(it.t.goType)
		if err := tl.Unmarshal(bytes.NewReader(it.want), p.Interface()); err != nil {
			return fmt.Errorf("%s: tl.Unmarshal of the layout of the goroutine's own value: %v\nvalue %s", it.t.name, err, it.v)
		}
		back, err := tlbind.FromGo(su.schema, it.t.typeExpr(), p.Elem())
		if err != nil || !tlref.Equal(back, it.v) {
			return fmt.Errorf("%s: tl.Unmarshal gives %v (%v), the goroutine's own value is %s", it.t.name, back, err, it.v)
		}
		return nil
	})
}}

func TestConcurrent(t *testing.T) { core.Run(t, concurrentCheck) }
