package c10

import (
	"fmt"
	"testing"

	"verifharness/internal/core"
	"verifharness/internal/tlref"
)

// c10/veclen: vectors with a 32-bit count of every size that matters to an implementation that grows or
// pre-allocates its slice in steps (0, 1, around 1024, a few thousand). tape = declaration index, length, seed.
var vecLens = []int{0, 1, 2, 255, 256, 1023, 1024, 1025, 1500, 4097}

var vecCheck = &core.Check{Name: "c10/veclen", Fn: func(c *core.Ctx) error {
	su := getSetup()
	if su.err != nil {
		return su.err
	}
	t := su.targets[c.Intn("declaration", len(su.targets))]
	n := vecLens[c.Intn("length", len(vecLens))]
	seed := c.U64("seed")
	c.Note("vector_length", n)
	return drawAndCheck(c, su, t, tlref.NewSeedRand(seed), &tlref.GenOpts{ForceVec: true, VecLen: n, MaxBytes: 40, Budget: 1 << 30, AllBits: true})
}}

func hasTopLevelVector(su *setup, t *target) bool {
	var fields []tlref.Field
	switch {
	case t.con != nil:
		fields = t.con.Fields
	default:
		for _, con := range su.schema.ConstructorsOf(t.typeName) {
			fields = append(fields, con.Fields...)
		}
	}
	for _, f := range fields {
		if f.Type.Kind == tlref.KVector {
			return true
		}
	}
	return false
}

func TestEnumVectors(t *testing.T) {
	su := getSetup()
	if su.err != nil {
		t.Fatal(su.err)
	}
	n := 0
	core.RunEnum(t, vecCheck, fmt.Sprintf("every declaration with a vector field x lengths %v", vecLens), func(yield func(...uint64) bool) {
		for ti, tg := range su.targets {
			if !hasTopLevelVector(su, tg) {
				continue
			}
			n++
			for li := range vecLens {
				if !yield(uint64(ti), uint64(li), uint64(ti*131+li+1)) {
					return
				}
			}
		}
	})
	core.Extra("c10/veclen", "declarations_with_vector_fields", n)
}
