package c10

import (
	"encoding/binary"
	"fmt"
	"os"
	"reflect"
	"strings"
	"sync"
	"testing"

	"verifharness/internal/core"
	"verifharness/internal/tlbind"
	"verifharness/internal/tlref"
)

// c10/answer, c10/answerlen: what the client hands back. The ANSWER direction of the same connection as
// c10/wire: the in-process reference server answers a query with the reference layout (R5, schema line of
// lite_api.tl) of
//
//	adnl.message.answer query_id:int256 answer:bytes
//
// around answer bytes the CASE chooses: a byte string of a chosen length for Client.Request (which must return
// exactly these bytes - not the padding, not a shorter or longer string), and for the typed LiteServer* methods
// the reference bytes of a value of the function's result type, or of a liteServer.error, stretched through one
// of its byte strings to a chosen total length (the method must return the value / hand back code and message).
// The lengths lie on both sides of every boundary of the length prefix: 253 | 254 (one length byte | fe + three
// length bytes), 2^8, 2^16 and its multiples (second and third length byte), all four alignment residues, up to
// the largest answer that fits the 8 MiB frame the client accepts.
//
// Real time: nothing is measured; transport errors of the client are inconclusive (see wire_test.go).

// answerMax is the longest answer whose adnl.message.answer fits into one frame of the client: the length field
// (nonce + payload + checksum) is at most 8<<20, the payload is id + query_id + fe + 3 length bytes + answer + padding.
const answerMax = 8<<20 - 64 - 4 - 32 - 4

const (
	ansRaw    = iota // Client.Request(q) -> answer bytes
	ansResult        // typed method -> value of the result type
	ansError         // typed method -> liteServer.error
	ansKinds
)

var ansKindNames = [ansKinds]string{"Client.Request", "typed method, value of the result type", "typed method, liteServer.error"}

func (st *wireStep) judgeResult(s *tlref.Schema, res reflect.Value, err error) error {
	if err != nil {
		return fmt.Errorf("%s: the server answered with a %s of %d bytes, the method returns the error %v\nvalue %s", st.desc, st.wantV.Con.Name, len(st.answer), err, clipStr(st.wantV.String()))
	}
	if !res.IsValid() || res.Type() != st.resT.goType {
		return fmt.Errorf("harness error: %s returns a %v, want %v", st.desc, res, st.resT.goType)
	}
	back, ferr := tlbind.FromGo(s, st.resT.typeExpr(), res)
	if ferr != nil {
		return fmt.Errorf("%s: the server answered with a %s of %d bytes; reading the value the method returns: %v", st.desc, st.wantV.Con.Name, len(st.answer), ferr)
	}
	if !tlref.Equal(back, st.wantV) {
		return fmt.Errorf("%s: the server answered with the %d reference bytes of\n  %s\nthe method returns\n  %s", st.desc, len(st.answer), clipStr(st.wantV.String()), clipStr(back.String()))
	}
	return nil
}

// stretch gives the value a total boxed size of (about) total bytes by resizing one of its top-level byte
// strings; pick chooses among the string lengths that have the same padded size. Values of TL types are
// multiples of four bytes long: total is rounded down. It returns the boxed reference bytes.
func stretch(s *tlref.Schema, v *tlref.Value, total int, pick int, seed uint64) ([]byte, error) {
	idx := -1
	for i, f := range v.Con.Fields {
		if (f.Type.Kind == tlref.KBytes || f.Type.Kind == tlref.KString) && v.Fields[i] != nil {
			idx = i
			break
		}
	}
	if idx >= 0 {
		kind := v.Con.Fields[idx].Type.Kind
		v.Fields[idx] = &tlref.Value{Kind: kind, Bytes: []byte{}}
		base, err := s.EncodeBoxed(nil, v)
		if err != nil {
			return nil, err
		}
		room := total&^3 - (len(base) - 4) // padded size of the byte string
		var cand []int
		for m := room - 7; m <= room-1; m++ {
			if m < 0 || m > answerMax {
				continue
			}
			hdr := 1
			if m >= 254 {
				hdr = 4
			}
			if (hdr+m+3)&^3 == room {
				cand = append(cand, m)
			}
		}
		if len(cand) > 0 {
			m := cand[pick%len(cand)]
			content := fill(m, seed)
			if kind == tlref.KString { // Go strings carry any bytes; keep messages printable anyway
				for i := range content {
					content[i] = 'a' + content[i]%26
				}
			}
			v.Fields[idx] = &tlref.Value{Kind: kind, Bytes: content}
		}
	}
	return s.EncodeBoxed(nil, v)
}

var (
	ansOnce  sync.Once
	ansFuncs []*tlref.Combinator // functions whose result type has a constructor with an unconditional top-level byte string
	ansResT  map[string]*target  // result type name -> binding
)

func ansSetup(su *setup) {
	ansOnce.Do(func() {
		ansResT = map[string]*target{}
		for _, t := range su.targets {
			switch {
			case t.kind == tBare:
				ansResT[t.con.Result] = t
			case t.kind == tUnion:
				ansResT[t.typeName] = t
			}
		}
		for _, f := range su.schema.Funcs {
			mi := su.methods[f.Name]
			if mi == nil || !mi.hasMethod || ansResT[f.Result] == nil {
				continue
			}
			ok := false
			for _, con := range su.schema.ConstructorsOf(f.Result) {
				for _, fl := range con.Fields {
					if fl.Cond == "" && (fl.Type.Kind == tlref.KBytes || fl.Type.Kind == tlref.KString) {
						ok = true
					}
				}
			}
			if ok {
				ansFuncs = append(ansFuncs, f)
			}
		}
	})
}

// ansSpec describes one request of an answer case.
type ansSpec struct {
	kind int
	fn   *tlref.Combinator // typed kinds
	n    int               // wanted length of the answer bytes
	pick int
	seed uint64
}

// ansStep builds the request and the planned answer. ord makes the query bytes of a raw request unique in its case.
func ansStep(su *setup, sp ansSpec, ord int) (wireStep, error) {
	s := su.schema
	if sp.n > answerMax {
		sp.n = answerMax
	}
	if sp.kind == ansRaw {
		q := binary.LittleEndian.AppendUint64(nil, uint64(sp.n))
		q = binary.LittleEndian.AppendUint64(q, uint64(ord))
		q = binary.LittleEndian.AppendUint64(q, sp.seed)
		st := wireRawStepOf(q)
		st.planned, st.answer = true, fill(sp.n, sp.seed^0xa11ce)
		st.desc = fmt.Sprintf("Request(q) with len(q)=%d, answered with %d bytes", len(q), sp.n)
		return st, nil
	}
	f := sp.fn
	rnd := tlref.NewSeedRand(sp.seed*2 + 1)
	reqV := s.DrawObject(rnd, f, &tlref.GenOpts{MaxBytes: 48, MaxVec: 3})
	st, err := wireTypedStep(su, f, reqV, rnd.Intn("slice.form", 3), rnd)
	if err != nil {
		return st, err
	}
	var v *tlref.Value
	if sp.kind == ansError {
		v = &tlref.Value{Kind: tlref.KObject, Con: s.Constructor("liteServer.error"), Fields: []*tlref.Value{tlref.VInt(uint32(sp.seed>>8) | 1), tlref.VString(nil)}}
		if v.Con == nil || len(v.Con.Fields) != 2 {
			return st, fmt.Errorf("harness error: lite_api.tl has no liteServer.error code:int message:string")
		}
	} else {
		st.resT = ansResT[f.Result]
		if st.resT == nil {
			return st, fmt.Errorf("harness error: no binding of result type %s", f.Result)
		}
		v = s.Draw(rnd, tlref.TypeExpr{Kind: tlref.KBoxed, Name: f.Result}, &tlref.GenOpts{MaxBytes: 300, Budget: 1500, MaxVec: 3})
	}
	ans, err := stretch(s, v, sp.n, sp.pick, sp.seed^0xa11ce)
	if err != nil {
		return st, fmt.Errorf("harness error: reference encoder: %v", err)
	}
	st.planned, st.answer = true, ans
	if sp.kind == ansError {
		st.errCode, st.errMsg = uint32(v.Fields[0].N), string(v.Fields[1].Bytes)
		st.desc = fmt.Sprintf("%s, answered with a liteServer.error of %d bytes (message of %d bytes)", su.methods[f.Name].name, len(ans), len(st.errMsg))
	} else {
		st.wantV = v
		st.desc = fmt.Sprintf("%s, answered with a %s of %d bytes", su.methods[f.Name].name, v.Con.Name, len(ans))
	}
	return st, nil
}

// wireRawStepOf: Client.Request(q) for exactly these query bytes.
func wireRawStepOf(q []byte) wireStep {
	st := wireRawStep(len(q), 0, false)
	copy(st.wantQ, q) // the closure of wireRawStep sends a copy of this very slice
	return st
}

func ansClassify(c *core.Ctx, seqs [][]wireStep, procs int) {
	var key []any
	key = append(key, procs, len(seqs))
	nontrivial := false
	for _, steps := range seqs {
		for i := range steps {
			st := &steps[i]
			n := len(st.answer)
			switch {
			case !st.typed:
				c.Class(ansKindNames[ansRaw])
				key = append(key, ansRaw, n)
			case st.wantV != nil:
				c.Class(ansKindNames[ansResult])
				c.Class("result " + st.wantV.Con.Name)
				key = append(key, ansResult, st.wantV.Con.Name, n, crcOf(st.answer))
			default:
				c.Class(ansKindNames[ansError])
				key = append(key, ansError, n, len(st.errMsg))
			}
			switch {
			case n < 254:
				c.Class("answer < 254 bytes (1 length byte)")
			case n < 1<<16:
				c.Class("answer 254..65535 bytes (fe + 3 length bytes, third one zero)")
			default:
				c.Class("answer >= 65536 bytes (third length byte non-zero)")
			}
			if n >= 250 && n <= 257 {
				c.Class("answer of 250..257 bytes")
			}
			if n >= 1<<16-4 && n <= 1<<16+4 {
				c.Class("answer of 2^16-4..2^16+4 bytes")
			}
			if n >= 1<<16 && n&0xffff < 254 {
				c.Class("answer >= 65536 bytes whose low 16 length bits are < 254")
			}
			if n > answerMax-8 {
				c.Class("answer fills the largest frame the client accepts")
			}
			hdr := 1
			if n >= 254 {
				hdr = 4
			}
			c.Class(fmt.Sprintf("answer followed by %d padding bytes", (4-(hdr+n)%4)%4))
			if n >= 254 {
				nontrivial = true
			}
		}
	}
	if len(seqs) > 1 {
		c.Class("requests from several goroutines at once")
	}
	if nontrivial {
		c.NonTrivial(key...)
	}
}

// ansRun: the client parses answers on a goroutine of its own; a panic there ends the process. The case is
// journalled for the duration of the calls so that the driver can name it (a client that dies on a reference
// answer did not parse it); the journal is withdrawn afterwards so that it cannot be blamed for anything later.
func ansRun(c *core.Ctx, su *setup, seqs [][]wireStep, procs int) error {
	c.Checkpoint()
	err := wireRun(c, su, nil, seqs, procs)
	if p := os.Getenv("VERIF_JOURNAL"); p != "" {
		os.Remove(p)
	}
	return err
}

func crcOf(b []byte) uint32 {
	// content key of a typed answer without keeping megabytes in the distinctness set
	var h uint32 = 2166136261
	for _, x := range b[:min(len(b), 4096)] {
		h = (h ^ uint32(x)) * 16777619
	}
	return h
}

func ansNotes(c *core.Ctx, seqs [][]wireStep) {
	for g, steps := range seqs {
		var d []string
		for _, st := range steps {
			d = append(d, st.desc)
		}
		c.Note(fmt.Sprintf("goroutine_%d", g), strings.Join(d, "; "))
	}
}

func drawAnsLen(c *core.Ctx, label string) int {
	switch c.Weighted(label+".kind", 4, 5, 3, 4, 3, 1) {
	case 0:
		return c.Intn(label+".small", 17)
	case 1:
		return 244 + c.Choose(label+".switch", 24) // 253 | 254, 2^8
	case 2:
		return c.Intn(label+".mid", 3001)
	case 3:
		return 1<<16 - 12 + c.Choose(label+".64k", 24)
	case 4: // the third length byte counts, the low 16 bits are small / around 254 / anything
		k := 1 + c.Intn(label+".k", 12)
		switch c.Intn(label+".low", 3) {
		case 0:
			return k<<16 + c.Intn(label+".r", 8)
		case 1:
			return k<<16 + 250 + c.Intn(label+".r", 8)
		}
		return k<<16 - 4 + c.Intn(label+".r", 1<<16)
	}
	return 1<<20 + c.Intn(label+".big", answerMax-1<<20+1)
}

// c10/answer: rapid-drawn sequences of requests with drawn answers.
var answerCheck = &core.Check{Name: "c10/answer", Quick: 60, Thorough: 6000, Fn: func(c *core.Ctx) error {
	su := getSetup()
	if su.err != nil {
		return su.err
	}
	ansSetup(su)
	if len(ansFuncs) == 0 {
		return fmt.Errorf("harness error: no function of lite_api.tl has a result with a byte string")
	}
	goroutines := c.OneOf("goroutines", 1, 1, 1, 2, 4)
	procs := wireProcs[c.Choose("gomaxprocs", len(wireProcs))]
	if goroutines > 1 {
		procs = wireProcsAtOnce[c.Choose("gomaxprocs.at.once", len(wireProcsAtOnce))]
	}
	seqs := make([][]wireStep, goroutines)
	seen := map[string]*wireStep{}
	ord := 0
	for g := range seqs {
		n := c.Range("requests", 1, 5)
		for i := 0; i < n; i++ {
			sp := ansSpec{kind: c.Weighted("answer.kind", 5, 3, 2)}
			if sp.kind != ansRaw {
				if sp.kind == ansError && c.Intn("any.function", 2) == 0 {
					sp.fn = su.schema.Funcs[c.Choose("function", len(su.schema.Funcs))]
				} else {
					sp.fn = ansFuncs[c.Choose("function.with.bytes", len(ansFuncs))]
				}
			}
			sp.n = drawAnsLen(c, "answer.len")
			sp.pick = c.Intn("pick", 4)
			sp.seed = c.U64("content")
			st, err := ansStep(su, sp, ord)
			ord++
			if err != nil {
				return err
			}
			if prev := seen[string(st.wantQ)]; prev != nil { // the same request twice (functions without arguments): the same answer
				st.answer, st.wantV, st.resT, st.errCode, st.errMsg, st.desc = prev.answer, prev.wantV, prev.resT, prev.errCode, prev.errMsg, prev.desc
			} else {
				cp := st
				seen[string(st.wantQ)] = &cp
			}
			seqs[g] = append(seqs[g], st)
		}
	}
	ansNotes(c, seqs)
	c.Note("gomaxprocs", procs)
	ansClassify(c, seqs, procs)
	return ansRun(c, su, seqs, procs)
}}

// c10/answerlen: tape = kind (0: Client.Request, 1: typed method answered with a value of its result type,
// 2: typed method answered with liteServer.error), function (index into the functions whose result has a byte
// string), answer length, pick (which of the string lengths with the same padded size), follow (length of the
// answer to the next request). The client gets an answer of the length, then one of the follow length, then
// (up to 2^20) one of the length again with other content.
var answerLenCheck = &core.Check{Name: "c10/answerlen", Fn: func(c *core.Ctx) error {
	su := getSetup()
	if su.err != nil {
		return su.err
	}
	ansSetup(su)
	if len(ansFuncs) == 0 {
		return fmt.Errorf("harness error: no function of lite_api.tl has a result with a byte string")
	}
	kind := c.Intn("kind", ansKinds)
	fn := ansFuncs[c.Intn("function", len(ansFuncs))]
	n := c.Intn("length", answerMax+1)
	pick := c.Intn("pick", 4)
	follow := c.Intn("follow", 1<<17)
	c.Note("kind", ansKindNames[kind])
	if kind != ansRaw {
		c.Note("function", fn.Name)
	}
	c.Note("length", n)
	c.Note("follow", follow)
	lens := []int{n, follow}
	if n <= 1<<20 {
		lens = append(lens, n)
	}
	var steps []wireStep
	for i, l := range lens {
		st, err := ansStep(su, ansSpec{kind: kind, fn: fn, n: l, pick: pick + i, seed: uint64(l)*2654435761 + uint64(kind)*977 + uint64(i) + 1}, i)
		if err != nil {
			return err
		}
		steps = append(steps, st)
	}
	seqs := [][]wireStep{steps}
	ansNotes(c, seqs)
	ansClassify(c, seqs, 0)
	return ansRun(c, su, seqs, 0)
}}

// ansLengths: both sides of every boundary of the length prefix, all four residues.
func ansLengths() (raw, typed []int) {
	add := func(dst *[]int, lo, hi int) {
		for n := lo; n <= hi; n++ {
			if n >= 0 && n <= answerMax {
				*dst = append(*dst, n)
			}
		}
	}
	if core.Thorough() {
		add(&raw, 0, 1100)
		add(&raw, 1<<16-300, 1<<16+300)
		for k := 2; k <= 127; k++ {
			add(&raw, k<<16-2, k<<16+3)
			add(&raw, k<<16+252, k<<16+255)
		}
		add(&raw, 1<<23-4, 1<<23+4)
		add(&raw, answerMax-8, answerMax)
		for n := 240; n <= 272; n += 4 {
			typed = append(typed, n)
		}
		for n := 1<<16 - 16; n <= 1<<16+16; n += 4 {
			typed = append(typed, n)
		}
		for k := 2; k <= 127; k += 5 {
			typed = append(typed, k<<16, k<<16+252, k<<16+256)
		}
		typed = append(typed, 1<<23, answerMax-4, answerMax)
		return
	}
	add(&raw, 0, 9)
	add(&raw, 248, 261)
	add(&raw, 1<<16-6, 1<<16+6)
	// 2^16*k + r: the third length byte counts; low 16 bits zero, below 254, around 254, large
	raw = append(raw, 2<<16, 2<<16+1, 3<<16+2, 5<<16+3, 5<<16+253, 9<<16+254, 16<<16, 33<<16+255, 64<<16-1, 100<<16+70000%65536)
	add(&raw, answerMax-3, answerMax)
	typed = []int{248, 252, 256, 260, 264, 1<<16 - 4, 1 << 16, 1<<16 + 4, 1<<16 + 256, 3 << 16, 17<<16 + 252, answerMax}
	return
}

func TestAnswer(t *testing.T) {
	su := getSetup()
	if su.err != nil {
		t.Fatal(su.err)
	}
	ansSetup(su)
	raw, typed := ansLengths()
	follows := []int{0, 3, 5, 254, 70001}
	fnPer := core.Scale(2, len(ansFuncs))
	t.Run("len", func(t *testing.T) {
		core.RunEnum(t, answerLenCheck, fmt.Sprintf("answers of chosen lengths through one client: Client.Request x %d lengths (0..9, around 253|254, 2^8, 2^16, 2^16*k+r, the largest that fits a frame; thorough: 0..1100, 2^16-300..2^16+300, every multiple of 2^16); typed methods answered with a value of the result type (%d of the %d functions whose result has a byte string, per length) and with liteServer.error x %d total lengths x 2 string lengths of the same padded size", len(raw), fnPer, len(ansFuncs), len(typed)), func(yield func(...uint64) bool) {
			k := 0
			for _, n := range raw {
				k++
				if !yield(ansRaw, 0, uint64(n), 0, uint64(follows[k%len(follows)])) {
					return
				}
			}
			if len(ansFuncs) == 0 {
				return
			}
			for i, n := range typed {
				for j := 0; j < fnPer; j++ {
					k++
					if n > 1<<22 && j > 0 && !core.Thorough() {
						continue
					}
					if !yield(ansResult, uint64((i*fnPer+j)%len(ansFuncs)), uint64(n), uint64(k%4), uint64(follows[k%len(follows)])) {
						return
					}
				}
				for pick := 0; pick < 2; pick++ {
					k++
					if n > 1<<22 && pick > 0 && !core.Thorough() {
						continue
					}
					if !yield(ansError, uint64(k%len(ansFuncs)), uint64(n), uint64(pick*3), uint64(follows[k%len(follows)])) {
						return
					}
				}
			}
		})
	})
	t.Run("answer", func(t *testing.T) { core.Run(t, answerCheck) })
	core.Extra(answerLenCheck.Name, "functions_with_byte_string_results", len(ansFuncs))
	wireMu.Lock()
	env := wireCur
	wireMu.Unlock()
	if env != nil {
		wireDrop(env)
	}
}
