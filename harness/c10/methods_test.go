package c10

import (
	"encoding/binary"
	"fmt"
	"go/ast"
	"go/parser"
	"go/token"
	"reflect"
	"sort"
	"strconv"
	"strings"

	"github.com/tonkeeper/tongo/tl"

	"verifharness/internal/core"
	"verifharness/internal/tlref"
)

// The client methods build the request payload (function id + arguments) and select the answer by its
// constructor id inside their bodies; neither is reachable through an exported function without a
// network peer. c10/wire (wire_test.go) calls drawn methods against the in-process ADNL server
// (internal/adnlsrv) and compares the frames it receives with the reference bytes; independently of
// that sample, for EVERY function the ids compiled into each method are read from the source of the very
// tree under test ($VERIF_REPO/liteclient/generated.go) and the payload is rebuilt exactly the way the
// method does it: tl.Marshal of struct{tl.SumType; Req <Request> `tlSumType:"<id>"`}.

type methodInfo struct {
	name      string
	fn        *tlref.Combinator
	method    reflect.Method
	hasMethod bool
	reqTagStr string // struct tag literal of the request wrapper (functions with arguments)
	reqTagLit uint64 // literal stored by PutUint32(payload, …) (functions without arguments)
	hasLit    bool
	cmpTags   []uint64 // literals the answer's constructor id is compared with
	unionResp bool     // the whole answer is handed to tl.Unmarshal (union result types)
}

func intLit(e ast.Expr) (uint64, bool) {
	bl, ok := e.(*ast.BasicLit)
	if !ok || bl.Kind != token.INT {
		return 0, false
	}
	v, err := strconv.ParseUint(bl.Value, 0, 64)
	return v, err == nil
}

func scanMethods(s *tlref.Schema, clientMethods map[string]reflect.Method) (map[string]*methodInfo, error) {
	path := repoDir() + "/liteclient/generated.go"
	fset := token.NewFileSet()
	file, err := parser.ParseFile(fset, path, nil, 0)
	if err != nil {
		return nil, fmt.Errorf("parsing %s: %v", path, err)
	}
	byGoName := map[string]*methodInfo{}
	out := map[string]*methodInfo{}
	for _, f := range s.Funcs {
		mi := &methodInfo{name: camel(f.Name), fn: f}
		mi.method, mi.hasMethod = clientMethods[mi.name]
		byGoName[mi.name] = mi
		out[f.Name] = mi
	}
	for _, d := range file.Decls {
		fd, ok := d.(*ast.FuncDecl)
		if !ok || fd.Recv == nil || len(fd.Recv.List) != 1 || fd.Body == nil {
			continue
		}
		star, ok := fd.Recv.List[0].Type.(*ast.StarExpr)
		if !ok {
			continue
		}
		if id, ok := star.X.(*ast.Ident); !ok || id.Name != "Client" {
			continue
		}
		mi := byGoName[fd.Name.Name]
		if mi == nil {
			continue
		}
		ast.Inspect(fd.Body, func(n ast.Node) bool {
			switch x := n.(type) {
			case *ast.Field:
				if x.Tag != nil {
					if v := reflect.StructTag(strings.Trim(x.Tag.Value, "`")).Get("tlSumType"); v != "" {
						mi.reqTagStr = v
					}
				}
			case *ast.CallExpr:
				if sel, ok := x.Fun.(*ast.SelectorExpr); ok {
					if sel.Sel.Name == "PutUint32" && len(x.Args) == 2 {
						if id, ok := x.Args[0].(*ast.Ident); ok && id.Name == "payload" {
							if v, ok := intLit(x.Args[1]); ok {
								mi.reqTagLit, mi.hasLit = v, true
							}
						}
					}
					if sel.Sel.Name == "Unmarshal" && len(x.Args) == 2 {
						if call, ok := x.Args[0].(*ast.CallExpr); ok && len(call.Args) == 1 {
							if id, ok := call.Args[0].(*ast.Ident); ok && id.Name == "resp" {
								mi.unionResp = true
							}
						}
					}
				}
			case *ast.BinaryExpr:
				if x.Op == token.EQL {
					if id, ok := x.X.(*ast.Ident); ok && id.Name == "tag" {
						if v, ok := intLit(x.Y); ok {
							mi.cmpTags = append(mi.cmpTags, v)
						}
					}
				}
			}
			return true
		})
	}
	return out, nil
}

// buildPayload reproduces the payload computation of the client method for request value req.
func (mi *methodInfo) buildPayload(req reflect.Value) ([]byte, error) {
	if len(mi.fn.Fields) == 0 {
		if !mi.hasLit {
			return nil, fmt.Errorf("method %s: no PutUint32(payload, <id>) found in its body", mi.name)
		}
		return binary.LittleEndian.AppendUint32(nil, uint32(mi.reqTagLit)), nil
	}
	if mi.reqTagStr == "" {
		return nil, fmt.Errorf("method %s: no tlSumType struct tag found in its body", mi.name)
	}
	wt := reflect.StructOf([]reflect.StructField{
		{Name: "SumType", Type: reflect.TypeOf(tl.SumType(""))},
		{Name: "Req", Type: req.Type(), Tag: reflect.StructTag(`tlSumType:"` + mi.reqTagStr + `"`)},
	})
	w := reflect.New(wt).Elem()
	w.Field(0).SetString("Req")
	w.Field(1).Set(req)
	return tl.Marshal(w.Interface())
}

// c10/methods: tape = function index.
var methodCheck = &core.Check{Name: "c10/methods", Fn: func(c *core.Ctx) error {
	su := getSetup()
	if su.err != nil {
		return su.err
	}
	s := su.schema
	f := s.Funcs[c.Intn("function", len(s.Funcs))]
	c.Note("function", f.Name)
	c.NonTrivial(f.Name)
	mi := su.methods[f.Name]
	if mi == nil || !mi.hasMethod {
		return fmt.Errorf("%s: *liteclient.Client has no method %s", f.Name, camel(f.Name))
	}
	var reqT, resT reflect.Type
	for _, t := range su.targets {
		if t.kind == tRequest && t.con == f {
			reqT = t.goType
		}
		if (t.kind == tBare && t.con.Result == f.Result) || (t.kind == tUnion && t.typeName == f.Result) {
			resT = t.goType
		}
	}
	mt := mi.method.Type
	wantIn := 2
	if len(f.Fields) > 0 {
		wantIn = 3
	}
	if mt.NumIn() != wantIn || mt.NumOut() != 2 || (wantIn == 3 && mt.In(2) != reqT) || mt.Out(0) != resT {
		return fmt.Errorf("%s: method %s has signature %v; the schema line needs request %v and result %v", f.Name, mi.name, mt, reqT, resT)
	}
	// request id
	if len(f.Fields) > 0 {
		c.Class("function with arguments")
		v, err := strconv.ParseUint(mi.reqTagStr, 16, 32)
		if err != nil || len(mi.reqTagStr) != 8 {
			return fmt.Errorf("%s: method %s wraps its request with tlSumType %q, want %08x", f.Name, mi.name, mi.reqTagStr, f.ID)
		}
		if uint32(v) != f.ID {
			return fmt.Errorf("%s: method %s sends function id %08x, the schema line says %08x", f.Name, mi.name, v, f.ID)
		}
	} else {
		c.Class("function without arguments")
		if !mi.hasLit || uint32(mi.reqTagLit) != f.ID || mi.reqTagLit>>32 != 0 {
			return fmt.Errorf("%s: method %s sends function id %08x (found=%v), the schema line says %08x", f.Name, mi.name, mi.reqTagLit, mi.hasLit, f.ID)
		}
	}
	// answer ids
	want := []uint64{}
	if e := s.Constructor("liteServer.error"); e != nil {
		want = append(want, uint64(e.ID))
	}
	cs := s.ConstructorsOf(f.Result)
	if len(cs) == 1 {
		want = append(want, uint64(cs[0].ID))
		if mi.unionResp {
			return fmt.Errorf("%s: method %s parses the whole answer although %s has one constructor", f.Name, mi.name, f.Result)
		}
	} else {
		c.Class("union result")
		if !mi.unionResp {
			return fmt.Errorf("%s: method %s does not parse the answer as the union %s", f.Name, mi.name, f.Result)
		}
	}
	got := append([]uint64{}, mi.cmpTags...)
	sort.Slice(got, func(i, j int) bool { return got[i] < got[j] })
	sort.Slice(want, func(i, j int) bool { return want[i] < want[j] })
	if !reflect.DeepEqual(got, want) {
		return fmt.Errorf("%s: method %s accepts answer constructor ids %x, the schema says %x (liteServer.error and %s)", f.Name, mi.name, got, want, f.Result)
	}
	return nil
}}
