package c10

import (
	"bytes"
	"fmt"
	"io"
	"reflect"
	"testing/iotest"

	"github.com/tonkeeper/tongo/boc"
	"github.com/tonkeeper/tongo/liteclient"
	"github.com/tonkeeper/tongo/tl"
	"github.com/tonkeeper/tongo/tlb"
	"github.com/tonkeeper/tongo/ton"

	"verifharness/internal/core"
	"verifharness/internal/tlref"
)

// c10/handwritten: the TL types written by hand next to the generated bindings.
var handCheck = &core.Check{Name: "c10/handwritten", Quick: 1500, Thorough: 60000, Fn: func(c *core.Ctx) error {
	su := getSetup()
	if su.err != nil {
		return su.err
	}
	s := su.schema
	switch c.Choose("type", 5) {
	case 0: // tl.Int256 = int256: 32 raw bytes
		c.Class("tl.Int256")
		v := s.Draw(c, tlref.TypeExpr{Kind: tlref.KInt256}, &tlref.GenOpts{})
		c.Note("int256", v.String())
		c.NonTrivial("int256", v.Bytes)
		var x tl.Int256
		copy(x[:], v.Bytes)
		got, err := tl.Marshal(x)
		if err != nil || !bytes.Equal(got, v.Bytes) {
			return fmt.Errorf("tl.Marshal(Int256 %x) = %x, %v", v.Bytes, got, err)
		}
		var back tl.Int256
		rd := bytes.NewReader(append(append([]byte{}, v.Bytes...), 1, 2, 3, 4))
		if err := tl.Unmarshal(rd, &back); err != nil || back != x || rd.Len() != 4 {
			return fmt.Errorf("tl.Unmarshal(Int256 %x) = %x, %v, %d bytes left of 4", v.Bytes, back, err, rd.Len())
		}
	case 1: // ton.AccountID = liteServer.accountId (bare)
		c.Class("ton.AccountID")
		con := s.Constructor("liteServer.accountId")
		if con == nil {
			return nil
		}
		v := s.DrawObject(c, con, &tlref.GenOpts{})
		want, _ := s.EncodeBare(nil, v)
		c.Note("accountId", v.String())
		c.NonTrivial("accountId", want)
		id := ton.AccountID{Workchain: int32(uint32(v.Fields[0].N))}
		copy(id.Address[:], v.Fields[1].Bytes)
		got, err := tl.Marshal(id)
		if err != nil || !bytes.Equal(got, want) {
			return fmt.Errorf("ton.AccountID %s: MarshalTL %x (%v), want %x", v, got, err, want)
		}
		var back ton.AccountID
		rd := bytes.NewReader(append(append([]byte{}, want...), 1, 2, 3, 4))
		if err := tl.Unmarshal(rd, &back); err != nil || back != id || rd.Len() != 4 {
			return fmt.Errorf("ton.AccountID %s: UnmarshalTL gives %v, %v, %d bytes left of 4", v, back, err, rd.Len())
		}
		for _, chunked := range []io.Reader{iotest.OneByteReader(bytes.NewReader(want)), iotest.HalfReader(bytes.NewReader(want)), io.MultiReader(bytes.NewReader(want[:4]), bytes.NewReader(want[4:]))} {
			var b2 ton.AccountID
			if err := tl.Unmarshal(chunked, &b2); err != nil || b2 != id {
				return fmt.Errorf("ton.AccountID %s: UnmarshalTL through a reader that delivers the bytes in pieces gives %v, %v", v, b2, err)
			}
		}
		conv, err := liteclient.AccountID(id).MarshalTL()
		if err != nil || !bytes.Equal(conv, want) {
			return fmt.Errorf("liteclient.AccountID(%v).MarshalTL() = %x (%v), want %x", id, conv, err, want)
		}
	case 2: // ton.BlockIDExt = tonNode.blockIdExt (bare)
		c.Class("ton.BlockIDExt")
		con := s.Constructor("tonNode.blockIdExt")
		if con == nil {
			return nil
		}
		v := s.DrawObject(c, con, &tlref.GenOpts{})
		want, _ := s.EncodeBare(nil, v)
		c.Note("blockIdExt", v.String())
		c.NonTrivial("blockIdExt", want)
		id := ton.BlockIDExt{BlockID: ton.BlockID{Workchain: int32(uint32(v.Fields[0].N)), Shard: v.Fields[1].N, Seqno: uint32(v.Fields[2].N)}}
		copy(id.RootHash[:], v.Fields[3].Bytes)
		copy(id.FileHash[:], v.Fields[4].Bytes)
		got, err := tl.Marshal(id)
		if err != nil || !bytes.Equal(got, want) {
			return fmt.Errorf("ton.BlockIDExt %s: MarshalTL %x (%v), want %x", v, got, err, want)
		}
		var back ton.BlockIDExt
		if err := back.UnmarshalTL(want); err != nil || back != id {
			return fmt.Errorf("ton.BlockIDExt %s: UnmarshalTL gives %v, %v", v, back, err)
		}
		gen := liteclient.BlockIDExt(id)
		conv, err := gen.MarshalTL()
		if err != nil || !bytes.Equal(conv, want) {
			return fmt.Errorf("liteclient.BlockIDExt(%v).MarshalTL() = %x (%v), want %x", id, conv, err, want)
		}
		if rt := gen.ToBlockIdExt(); rt != id {
			return fmt.Errorf("liteclient.BlockIDExt(%v).ToBlockIdExt() = %v", id, rt)
		}
	case 3: // LiteServerSignatureSet = boxed liteServer.SignatureSet; must agree with the bare generated form behind its id
		c.Class("LiteServerSignatureSet")
		cs := s.ConstructorsOf("liteServer.SignatureSet")
		if len(cs) != 1 {
			return nil
		}
		var tg *target
		for _, t := range su.targets {
			if t.kind == tBoxed1 && t.typeName == "liteServer.SignatureSet" {
				tg = t
			}
		}
		if tg == nil {
			return fmt.Errorf("no binding type for the boxed form of liteServer.SignatureSet")
		}
		return drawAndCheck(c, su, tg, c, &tlref.GenOpts{MaxVec: 6})
	case 4: // tlb.VmStack: a TL byte string holding the bag of cells of the stack
		c.Class("tlb.VmStack")
		n := c.Range("depth", 0, 40)
		var stack tlb.VmStack
		for i := 0; i < n; i++ {
			stack = append(stack, tlb.VmStackValue{SumType: "VmStkTinyInt", VmStkTinyInt: int64(c.U64("item"))})
		}
		c.Note("stack depth", n)
		got, err := tl.Marshal(stack)
		if err != nil {
			return fmt.Errorf("VmStack.MarshalTL: %v", err)
		}
		val, used, err := s.Decode(got, tlref.TypeExpr{Kind: tlref.KBytes})
		if err != nil || used != len(got) {
			return fmt.Errorf("VmStack.MarshalTL is not one TL byte string: %v (%d of %d bytes)", err, used, len(got))
		}
		want, _ := tlref.AppendBytes(nil, val.Bytes)
		if !bytes.Equal(got, want) {
			return fmt.Errorf("VmStack.MarshalTL is not the canonical layout of its %d-byte content: %s", len(val.Bytes), diffAt(got, want))
		}
		if len(val.Bytes) >= 254 {
			c.NonTrivial("vmstack", got)
		}
		cells, err := boc.DeserializeBoc(val.Bytes)
		if err != nil || len(cells) != 1 {
			return fmt.Errorf("content of VmStack.MarshalTL is not a one-root bag of cells: %v", err)
		}
		cell := boc.NewCell()
		if err := tlb.Marshal(cell, stack); err != nil {
			return err
		}
		h1, _ := cell.HashString()
		h2, _ := cells[0].HashString()
		if h1 != h2 {
			return fmt.Errorf("VmStack.MarshalTL carries cell %s, the stack serialises to %s", h2, h1)
		}
		var back tlb.VmStack
		rd := bytes.NewReader(append(append([]byte{}, want...), 1, 2, 3, 4))
		if err := tl.Unmarshal(rd, &back); err != nil || rd.Len() != 4 {
			return fmt.Errorf("VmStack.UnmarshalTL: %v, %d bytes left of 4", err, rd.Len())
		}
		// Only the TL framing belongs to this property. The order in which the TL-B codec of VmStack
		// returns the items is a TL-B matter: on this tree Marshal writes item 0 as the top of the stack
		// and Unmarshal returns the top of the stack last, so a round trip reverses the list (reported
		// to the coordinator as a side observation, counted here, not judged).
		if len(back) != len(stack) {
			return fmt.Errorf("VmStack.UnmarshalTL returns %d items, want %d", len(back), len(stack))
		}
		same, reversed := true, true
		for i := range stack {
			same = same && reflect.DeepEqual(back[i], stack[i])
			reversed = reversed && reflect.DeepEqual(back[len(stack)-1-i], stack[i])
		}
		switch {
		case same:
		case reversed:
			c.Class("tlb.VmStack round trip returns the items in reverse order (TL-B matter, not judged)")
		default:
			return fmt.Errorf("VmStack.UnmarshalTL returns other items: %+v want %+v", back, stack)
		}
	}
	return nil
}}

// c10/oversize: informational probe, never a verdict. A byte string of 2^24 bytes or more has no layout
// with the 3-byte length field; the probe records what tl.Marshal does with it.
var oversizeProbe = &core.Check{Name: "c10/oversize-probe", Fn: func(c *core.Ctx) error {
	c.Intn("unused", 1)
	data := make([]byte, 1<<24)
	got, err := tl.Marshal(data)
	switch {
	case err != nil:
		core.Extra("c10/oversize-probe", "tl.Marshal of 2^24 bytes", "returns an error: "+err.Error())
	case len(got) >= 4:
		core.Extra("c10/oversize-probe", "tl.Marshal of 2^24 bytes", fmt.Sprintf("informational: no error; emits length prefix %x followed by %d bytes (a reader sees a byte string of length %d)", got[:4], len(got)-4, int(got[1])|int(got[2])<<8|int(got[3])<<16))
	}
	return nil
}}
