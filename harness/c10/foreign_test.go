package c10

import (
	"bytes"
	"encoding/binary"
	"fmt"
	"math/bits"
	"reflect"
	"testing"

	"github.com/tonkeeper/tongo/liteclient"
	"github.com/tonkeeper/tongo/tl"

	"verifharness/internal/core"
	"verifharness/internal/tlbind"
	"verifharness/internal/tlref"
)

// Positions of the reference bytes at which lite_api.tl fixes a 32-bit constructor id: a Bool
// (boolTrue / boolFalse), a boxed value (one of the constructor ids of its type), the function id in
// front of a request. Any other word at such a position is not the layout of any value of the
// declaration, so a parser that "parses from exactly the layout the schema defines" refuses the bytes,
// as the reference decoder does.

type idPos struct {
	off     int
	what    string
	allowed []uint32
}

// trackIDs mirrors the reference encoder (tlref.Schema.Encode) and records the offsets of the fixed
// constructor ids; the caller verifies that the bytes it produces are the reference bytes.
func trackIDs(s *tlref.Schema, dst []byte, t tlref.TypeExpr, v *tlref.Value, path string, out *[]idPos) ([]byte, error) {
	if v == nil {
		return nil, fmt.Errorf("%s: missing value", path)
	}
	var err error
	switch t.Kind {
	case tlref.KBool:
		*out = append(*out, idPos{len(dst), path + ":Bool", []uint32{tlref.BoolTrueID, tlref.BoolFalseID}})
		return s.Encode(dst, t, v)
	case tlref.KVector:
		dst = binary.LittleEndian.AppendUint32(dst, uint32(len(v.Elems)))
		for i, e := range v.Elems {
			if dst, err = trackIDs(s, dst, *t.Elem, e, fmt.Sprintf("%s[%d]", path, i), out); err != nil {
				return nil, err
			}
		}
		return dst, nil
	case tlref.KBare, tlref.KBoxed:
		if v.Kind != tlref.KObject || v.Con == nil || len(v.Fields) != len(v.Con.Fields) {
			return nil, fmt.Errorf("%s: not a constructed value", path)
		}
		if t.Kind == tlref.KBoxed {
			var ids []uint32
			for _, con := range s.ConstructorsOf(t.Name) {
				ids = append(ids, con.ID)
			}
			*out = append(*out, idPos{len(dst), fmt.Sprintf("%s: constructor id of the boxed %s (value %s)", path, t.Name, v.Con.Name), ids})
			dst = binary.LittleEndian.AppendUint32(dst, v.Con.ID)
		}
		for i, f := range v.Con.Fields {
			if v.Fields[i] == nil {
				continue // absent conditional field (the reference encoder validates presence against the bits)
			}
			if dst, err = trackIDs(s, dst, f.Type, v.Fields[i], path+"."+f.Name, out); err != nil {
				return nil, err
			}
		}
		return dst, nil
	}
	return s.Encode(dst, t, v)
}

var foreignKinds = [...]string{"one bit flipped", "byte order reversed", "0", "1", "0xffffffff", "another constructor id of the schema",
	"boolTrue / boolFalse / vector id where another id belongs", "id + 1", "drawn word"}

// foreignWord replaces w by a word of the given kind that is not in allowed.
func foreignWord(s *tlref.Schema, w uint32, allowed []uint32, kind int, a, b uint64) uint32 {
	in := func(x uint32) bool {
		for _, y := range allowed {
			if x == y {
				return true
			}
		}
		return false
	}
	x := w
	switch kind {
	case 0:
		x = w ^ 1<<uint(a%32)
	case 1:
		x = bits.ReverseBytes32(w)
	case 2:
		x = 0
	case 3:
		x = 1
	case 4:
		x = 0xffffffff
	case 5:
		all := s.All()
		x = all[int(a%uint64(len(all)))].ID
	case 6:
		x = [...]uint32{tlref.BoolTrueID, tlref.BoolFalseID, 0x1cb5c415}[a%3]
	case 7:
		x = w + 1
	default:
		x = uint32(b)
	}
	for i := uint(0); in(x); i++ { // the replacement happens to be an id the position admits: move on to a flipped bit
		x = w ^ 1<<(i%32)
		if i >= 32 {
			x = w ^ uint32(i)*0x9e3779b1
		}
	}
	return x
}

// idTargets returns the declarations whose values contain a fixed id of their own (a Bool, a boxed
// value, or being a boxed value themselves) and the functions (every request has its function id).
func idTargets(su *setup) (inner, funcs []*target) {
	for _, t := range su.targets {
		if t.kind == tUnion || t.kind == tBoxed1 || typeHasID(su.schema, tlref.TypeExpr{Kind: tlref.KBare, Name: t.con.Name}, 0) {
			inner = append(inner, t)
		}
		if t.kind == tRequest {
			funcs = append(funcs, t)
		}
	}
	return inner, funcs
}

func typeHasID(s *tlref.Schema, t tlref.TypeExpr, depth int) bool {
	switch t.Kind {
	case tlref.KBool, tlref.KBoxed:
		return true
	case tlref.KVector:
		return typeHasID(s, *t.Elem, depth)
	case tlref.KBare:
		if depth > 8 {
			return false
		}
		con := s.Constructor(t.Name)
		if con == nil {
			return false
		}
		for _, f := range con.Fields {
			if typeHasID(s, f.Type, depth+1) {
				return true
			}
		}
	}
	return false
}

// c10/foreignid: tape = group (0..5 a declaration whose values contain a Bool or a boxed value: one of those
// positions; 6..7 a function: its function id; 8 the bare Go bool), carrier within the group, kind of the
// foreign word, two words that parametrise it, which of the value's id positions, seed of the value.
var foreignCheck = &core.Check{Name: "c10/foreignid", Quick: 1500, Thorough: 60000, Fn: func(c *core.Ctx) error {
	su := getSetup()
	if su.err != nil {
		return su.err
	}
	s := su.schema
	inner, funcs := idTargets(su)
	grp := c.Weighted("group", 6, 2, 1)
	carriers := inner
	if grp == 1 {
		carriers = funcs
	}
	k := c.Choose("carrier", len(carriers))
	kind := c.Choose("foreign word", len(foreignKinds))
	a, b := c.U64("a"), c.U64("b")
	pick := c.Intn("position", 1<<16)
	seed := c.U64("seed")
	c.Class("foreign word: " + foreignKinds[kind])

	if grp == 2 { // a Go bool through the reflection codec
		flag := seed&1 == 1
		w := uint32(tlref.BoolFalseID)
		if flag {
			w = tlref.BoolTrueID
		}
		x := foreignWord(s, w, []uint32{tlref.BoolTrueID, tlref.BoolFalseID}, kind, a, b)
		c.Note("carrier", "bool through tl.Unmarshal")
		c.Note("word", fmt.Sprintf("%08x in place of %08x", x, w))
		c.Class("position: Bool")
		c.NonTrivial("bool", x)
		data := binary.LittleEndian.AppendUint32(nil, x)
		data = append(data, 1, 2, 3, 4)
		var got bool
		if err := tl.Unmarshal(bytes.NewReader(data), &got); err == nil {
			return fmt.Errorf("tl.Unmarshal into a bool accepts the word %08x (reads %v); a Bool is boolTrue %08x or boolFalse %08x", x, got, uint32(tlref.BoolTrueID), uint32(tlref.BoolFalseID))
		}
		return nil
	}

	t := carriers[k]
	r := tlref.NewSeedRand(seed)
	o := &tlref.GenOpts{MaxBytes: 300, MaxVec: 3}
	var v *tlref.Value
	if t.kind == tUnion {
		v = s.Draw(r, t.typeExpr(), o)
	} else {
		v = s.DrawObject(r, t.con, o)
	}
	want := refBytes(su, t, v)
	var pos []idPos
	tracked, err := trackIDs(s, nil, t.typeExpr(), v, t.name, &pos)
	if err != nil || !bytes.Equal(tracked, want) {
		return fmt.Errorf("harness error: position tracking disagrees with the reference encoder on %s: %v", t.name, err)
	}
	data := want
	if t.kind == tRequest { // requests are judged as function id + arguments as well
		data = append(binary.LittleEndian.AppendUint32(nil, t.con.ID), want...)
		for i := range pos {
			pos[i].off += 4
		}
		if grp == 1 {
			pos = []idPos{{0, "function id of " + t.con.Name, []uint32{t.con.ID}}}
		}
	}
	c.Note("declaration", t.name)
	c.Note("value", v.String())
	if len(pos) == 0 {
		c.Class("value without a fixed id (vector of boxed values is empty)")
		return nil
	}
	p := pos[pick%len(pos)]
	w := binary.LittleEndian.Uint32(data[p.off:])
	x := foreignWord(s, w, p.allowed, kind, a, b)
	mut := append([]byte{}, data...)
	binary.LittleEndian.PutUint32(mut[p.off:], x)
	c.Note("position", fmt.Sprintf("offset %d, %s", p.off, p.what))
	c.Note("word", fmt.Sprintf("%08x in place of %08x", x, w))
	isFuncID := t.kind == tRequest && p.off == 0
	switch {
	case isFuncID:
		c.Class("position: function id of a request")
	case len(p.allowed) == 2 && p.allowed[0] == tlref.BoolTrueID:
		c.Class("position: Bool")
	case p.off == 0:
		c.Class("position: constructor id of the value itself")
	default:
		c.Class("position: constructor id of a nested boxed value")
	}

	if t.kind == tRequest {
		// the reference decides: the bytes are a request of lite_api.tl or they are not (another function's
		// id in front of bytes that happen to parse as its arguments is one)
		if _, _, rerr := s.DecodeRequest(mut); rerr == nil {
			c.Class("bytes with the foreign word are still a request of the schema (not judged)")
		} else {
			c.NonTrivial(t.name, mut)
			tag, name, val, err := liteclient.LiteapiRequestDecoder(mut)
			if err == nil && name != nil && *name != liteclient.UnknownRequest {
				return fmt.Errorf("%s: LiteapiRequestDecoder recognises %q (tag %08x, value %+v) in bytes that are no request of lite_api.tl: %08x stands at offset %d (%s), the reference decoder says: %v\nbytes %s\noriginal value %s", t.name, *name, tag, val, x, p.off, p.what, rerr, clip(mut), v)
			}
		}
		if isFuncID {
			if len(t.con.Fields) == 0 {
				return nil
			}
			// The client methods frame a request as a one-alternative union of the reflection codec:
			// struct{tl.SumType; Req <Request> `tlSumType:"<function id>"`}. Read back through the same
			// codec, that type is "function id + arguments" and nothing else.
			wt := reflect.StructOf([]reflect.StructField{
				{Name: "SumType", Type: reflect.TypeOf(tl.SumType(""))},
				{Name: "Req", Type: t.goType, Tag: reflect.StructTag(fmt.Sprintf(`tlSumType:"%08x"`, t.con.ID))},
			})
			good := reflect.New(wt)
			if err := tl.Unmarshal(bytes.NewReader(data), good.Interface()); err != nil {
				return fmt.Errorf("%s: tl.Unmarshal of function id + arguments into struct{tl.SumType; Req %v `tlSumType:\"%08x\"`}: %v\nbytes %s", t.name, t.goType, t.con.ID, err, clip(data))
			}
			back, err := tlbind.FromGo(s, t.typeExpr(), good.Elem().Field(1))
			if err != nil || !tlref.Equal(back, v) || good.Elem().Field(0).String() != "Req" {
				return fmt.Errorf("%s: tl.Unmarshal of function id + arguments into the request wrapper gives %s (%v, SumType %q), want %s", t.name, back, err, good.Elem().Field(0).String(), v)
			}
			bad := reflect.New(wt)
			if err := tl.Unmarshal(bytes.NewReader(mut), bad.Interface()); err == nil {
				return fmt.Errorf("%s: tl.Unmarshal into struct{tl.SumType; Req %v `tlSumType:\"%08x\"`} accepts bytes that start with the id %08x\nbytes %s", t.name, t.goType, t.con.ID, x, clip(mut))
			}
			return nil
		}
		mut = mut[4:]
	}
	var rerr error
	if t.kind == tUnion || t.kind == tBoxed1 {
		_, _, rerr = s.Decode(mut, t.typeExpr())
	} else {
		_, _, rerr = s.DecodeBare(mut, t.con)
	}
	if rerr == nil {
		return fmt.Errorf("harness error: the reference decoder accepts %08x at offset %d (%s) of %s", x, p.off, p.what, t.name)
	}
	c.NonTrivial(t.name, mut, "u")
	dst := reflect.New(t.goType)
	if err := tl.Unmarshal(bytes.NewReader(mut), dst.Interface()); err == nil {
		again, _ := marshalOf(dst.Elem().Interface())
		return fmt.Errorf("%s: tl.Unmarshal accepts bytes that are not a layout of the declaration: %08x stands where lite_api.tl fixes %s (ids %08x); the reference decoder says: %v\nbytes %s\nthe accepted value re-encodes to: %s\noriginal value %s", t.name, x, p.what, p.allowed, rerr, clip(mut), diffAt(again, mut), v)
	}
	return nil
}}

func TestPropForeign(t *testing.T) {
	t.Run("foreignid", func(t *testing.T) { core.Run(t, foreignCheck) })
	t.Run("nilptr", func(t *testing.T) { core.Run(t, nilPtrCheck) })
}

func TestEnumForeign(t *testing.T) {
	su := getSetup()
	if su.err != nil {
		t.Fatal(su.err)
	}
	inner, funcs := idTargets(su)
	seeds := core.Scale(6, 80)
	var names []string
	for _, tg := range inner {
		names = append(names, tg.name)
	}
	core.Extra(foreignCheck.Name, "declarations_with_a_bool_or_boxed_value", names)
	core.RunEnum(t, foreignCheck, fmt.Sprintf("every declaration whose values contain a Bool or a boxed value (%d) x %d kinds of foreign word x %d seeded values/positions; every function id (%d) and the bare Go bool x %d kinds x 2", len(inner), len(foreignKinds), seeds, len(funcs), len(foreignKinds)), func(yield func(...uint64) bool) {
		for grp, n := range []int{len(inner), len(funcs), 1} {
			per := seeds
			if grp > 0 {
				per = 2
			}
			for k := 0; k < n; k++ {
				for kind := range foreignKinds {
					for sd := 1; sd <= per; sd++ {
						x := uint64(grp*100003+k*1009+kind*31+sd) * 0x9e3779b97f4a7c15
						if !yield(uint64([]int{0, 6, 8}[grp]), uint64(k), uint64(kind), x>>7, x>>29, uint64(sd-1)+x>>50<<3, x>>3) {
							return
						}
					}
				}
			}
		}
	})
}
