package c10

import (
	"bytes"
	"fmt"
	"go/format"
	"os"
	"os/exec"
	"path/filepath"
	"strings"
	"testing"
	"time"

	"verifharness/internal/core"
)

type artifact struct {
	dir, file, input string
}

var artifacts = []artifact{
	{"liteclient", "generated.go", "lite_api.tl"},
	{"tlb", "integers.go", "the integer templates of tlb/parser"},
}

func firstDiff(a, b []byte) string {
	la, lb := strings.Split(string(a), "\n"), strings.Split(string(b), "\n")
	for i := 0; i < len(la) || i < len(lb); i++ {
		var x, y string
		if i < len(la) {
			x = la[i]
		}
		if i < len(lb) {
			y = lb[i]
		}
		if x != y {
			return fmt.Sprintf("line %d:\n  checked in:  %q\n  regenerated: %q", i+1, x, y)
		}
	}
	return "no difference"
}

// c10/generator: tape = artifact index. The repository tree is copied to a scratch directory, the
// artifact is aged there, `go run generator.go` (the //go:generate command of the package) recreates
// it, and the result must equal the checked-in file after both went through go/format.
var genCheck = &core.Check{Name: "c10/generator", Fn: func(c *core.Ctx) error {
	a := artifacts[c.Intn("artifact", len(artifacts))]
	c.Note("artifact", a.dir+"/"+a.file)
	c.Class(a.dir + "/" + a.file)
	c.NonTrivial(a.dir, a.file)
	repo := repoDir()
	checkedIn, err := os.ReadFile(filepath.Join(repo, a.dir, a.file))
	if err != nil {
		return fmt.Errorf("checked-in artifact: %v", err)
	}
	scratch, err := os.MkdirTemp("", "verif-c10-gen-")
	if err != nil {
		return err
	}
	defer os.RemoveAll(scratch)
	if out, err := exec.Command("cp", "-r", repo+"/.", scratch).CombinedOutput(); err != nil {
		return fmt.Errorf("harness error: copying %s: %v %s", repo, err, out)
	}
	os.RemoveAll(filepath.Join(scratch, ".git"))
	target := filepath.Join(scratch, a.dir, a.file)
	// The artifact stays in place (tlb/generator.go needs tlb itself, through utils, to compile); an old
	// modification time shows afterwards that the generator really rewrote the file.
	old := time.Date(2001, 1, 1, 0, 0, 0, 0, time.UTC)
	if err := os.Chtimes(target, old, old); err != nil {
		return err
	}
	cmd := exec.Command("go", "run", "generator.go")
	cmd.Dir = filepath.Join(scratch, a.dir)
	cmd.Env = append(os.Environ(), "GOFLAGS=-mod=mod", "GOPROXY=off", "GOSUMDB=off", "GOTOOLCHAIN=local", "GOWORK=off")
	var stderr bytes.Buffer
	cmd.Stderr = &stderr
	if err := cmd.Run(); err != nil {
		msg := stderr.String()
		if len(msg) > 1500 {
			msg = msg[:1500]
		}
		return fmt.Errorf("`go run generator.go` in %s/ (input: %s) fails: %v\n%s", a.dir, a.input, err, msg)
	}
	if fi, err := os.Stat(target); err != nil || !fi.ModTime().After(old.Add(time.Hour)) {
		return fmt.Errorf("`go run generator.go` in %s/ did not write %s (%v)", a.dir, a.file, err)
	}
	regenerated, err := os.ReadFile(target)
	if err != nil {
		return err
	}
	f1, err := format.Source(checkedIn)
	if err != nil {
		return fmt.Errorf("checked-in %s/%s does not parse: %v", a.dir, a.file, err)
	}
	f2, err := format.Source(regenerated)
	if err != nil {
		return fmt.Errorf("regenerated %s/%s does not parse: %v", a.dir, a.file, err)
	}
	if !bytes.Equal(f1, f2) {
		return fmt.Errorf("%s/%s is not what the repository's generator produces from %s; first difference at %s", a.dir, a.file, a.input, firstDiff(f1, f2))
	}
	return nil
}}

func TestGenerator(t *testing.T) {
	core.RunEnum(t, genCheck, "both generator -> artifact pairs (lite_api.tl -> liteclient/generated.go, integer templates -> tlb/integers.go)", func(yield func(...uint64) bool) {
		for i := range artifacts {
			if !yield(uint64(i)) {
				return
			}
		}
	})
}
