package c10

import (
	"bytes"
	"fmt"
	"reflect"
	"testing"

	"verifharness/internal/core"
	"verifharness/internal/tlbind"
	"verifharness/internal/tlref"
)

// How the empty byte strings and vectors of a value are represented in the Go value handed to the
// library. Go has two representations of an empty slice: nil (the zero value of the field: a struct
// literal that does not mention the field, `var x []T`) and non-nil with length 0 (make, what
// tl.Unmarshal leaves behind). Both are the empty TL value: 4 zero bytes for bytes, count 0 for a vector,
// on the wire whenever the schema says the field is present (always, or exactly when its mode bit is set).
const (
	slicesMade  = iota // every empty slice is non-nil (as tlbind builds them)
	slicesNil          // every empty slice is nil
	slicesMixed        // drawn per slice
)

var sliceFormNames = [...]string{"non-nil", "nil", "nil or non-nil, drawn per slice"}

// setSliceForm rewrites the empty slices inside the Go value x (settable) according to form. It follows
// struct fields, non-nil pointers and the elements of non-empty slices. It returns how many empty slices
// became nil and how many are non-nil.
func setSliceForm(x reflect.Value, form int, rnd tlref.Rand) (nils, made int) {
	switch x.Kind() {
	case reflect.Struct:
		for i := 0; i < x.NumField(); i++ {
			a, b := setSliceForm(x.Field(i), form, rnd)
			nils, made = nils+a, made+b
		}
	case reflect.Pointer:
		if !x.IsNil() {
			return setSliceForm(x.Elem(), form, rnd)
		}
	case reflect.Slice:
		if x.Len() == 0 {
			if form == slicesNil || form == slicesMixed && rnd.Intn("slice.nil", 2) == 0 {
				x.Set(reflect.Zero(x.Type()))
				return 1, 0
			}
			if x.IsNil() { // a field tlbind left untouched (absent conditional field, other union alternative)
				x.Set(reflect.MakeSlice(x.Type(), 0, 0))
			}
			return 0, 1
		}
		if x.Type().Elem().Kind() == reflect.Uint8 {
			return 0, 0
		}
		for i := 0; i < x.Len(); i++ {
			a, b := setSliceForm(x.Index(i), form, rnd)
			nils, made = nils+a, made+b
		}
	}
	return nils, made
}

// emptyPresentCond counts, at any depth of v, the conditional bytes / vector fields that are present
// (mode bit set) and empty.
func emptyPresentCond(v *tlref.Value) int {
	if v == nil {
		return 0
	}
	n := 0
	switch v.Kind {
	case tlref.KVector:
		for _, e := range v.Elems {
			n += emptyPresentCond(e)
		}
	case tlref.KObject:
		for i, f := range v.Con.Fields {
			fv := v.Fields[i]
			if fv == nil {
				continue
			}
			if f.Cond != "" && (f.Type.Kind == tlref.KBytes && len(fv.Bytes) == 0 || f.Type.Kind == tlref.KVector && len(fv.Elems) == 0) {
				n++
			}
			n += emptyPresentCond(fv)
		}
	}
	return n
}

// c10/empty: tape = declaration index, slice form, mode selection, seed. Every top-level byte string and
// vector of the value is empty; the mode word has every used bit set (selection 0) or a drawn subset.
var emptyCheck = &core.Check{Name: "c10/empty", Fn: func(c *core.Ctx) error {
	su := getSetup()
	if su.err != nil {
		return su.err
	}
	t := su.targets[c.Intn("declaration", len(su.targets))]
	form := c.Intn("slice form", 3)
	allBits := c.Intn("mode selection", 2) == 0
	seed := c.U64("seed")
	o := &tlref.GenOpts{AllBits: allBits, ForceLen: true, BytesLen: 0, ForceVec: true, VecLen: 0, MaxBytes: 300, MaxVec: 2}
	return drawAndCheckForm(c, su, t, tlref.NewSeedRand(seed), o, form)
}}

// goPointers collects the non-nil pointers inside x (struct fields, elements of slices, behind other
// pointers). In the binding types a pointer is always a conditional field (mode.N?T with T not a slice).
func goPointers(x reflect.Value, into *[]reflect.Value) {
	switch x.Kind() {
	case reflect.Struct:
		for i := 0; i < x.NumField(); i++ {
			goPointers(x.Field(i), into)
		}
	case reflect.Pointer:
		if !x.IsNil() {
			*into = append(*into, x)
			goPointers(x.Elem(), into)
		}
	case reflect.Slice:
		if x.Type().Elem().Kind() == reflect.Uint8 {
			return
		}
		for i := 0; i < x.Len(); i++ {
			goPointers(x.Index(i), into)
		}
	}
}

func typeHasPointer(rt reflect.Type, depth int) bool {
	switch rt.Kind() {
	case reflect.Pointer:
		return true
	case reflect.Slice, reflect.Array:
		return typeHasPointer(rt.Elem(), depth)
	case reflect.Struct:
		if depth > 8 {
			return false
		}
		for i := 0; i < rt.NumField(); i++ {
			if typeHasPointer(rt.Field(i).Type, depth+1) {
				return true
			}
		}
	}
	return false
}

// ptrTargets returns the declarations whose binding type holds a pointer (a conditional field that is
// not a slice) at any depth.
func ptrTargets(su *setup) []*target {
	var out []*target
	for _, t := range su.targets {
		if typeHasPointer(t.goType, 0) {
			out = append(out, t)
		}
	}
	return out
}

// c10/nilptr: tape = declaration index, seed, which pointer. A Go value whose mode bit is set while the
// pointer of the conditional field is nil has no TL value; the library may refuse it (error, panic: not
// judged). If MarshalTL returns bytes without an error, those bytes claim to be the layout of the
// declaration: the set mode bit is in them, so the field must be in them too - they have to parse as a
// complete value of the declaration under the reference decoder.
var nilPtrCheck = &core.Check{Name: "c10/nilptr", Quick: 400, Thorough: 20000, Fn: func(c *core.Ctx) error {
	su := getSetup()
	if su.err != nil {
		return su.err
	}
	s := su.schema
	carriers := ptrTargets(su)
	if len(carriers) == 0 {
		return nil
	}
	t := carriers[c.Choose("declaration", len(carriers))]
	seed := c.U64("seed")
	pick := c.Intn("pointer", 1<<16)
	r := tlref.NewSeedRand(seed)
	o := &tlref.GenOpts{AllBits: true, MaxBytes: 40, MaxVec: 3}
	var v *tlref.Value
	if t.kind == tUnion {
		v = s.Draw(r, t.typeExpr(), o)
	} else {
		v = s.DrawObject(r, t.con, o)
	}
	gv := reflect.New(t.goType).Elem()
	if err := tlbind.ToGo(s, t.typeExpr(), v, gv, nil); err != nil {
		return fmt.Errorf("harness error: populating %v: %v", t.goType, err)
	}
	var ptrs []reflect.Value
	goPointers(gv, &ptrs)
	c.Note("declaration", t.name)
	c.Note("value", v.String())
	if len(ptrs) == 0 {
		c.Class("value without a present pointer-typed conditional field")
		return nil
	}
	p := ptrs[pick%len(ptrs)]
	c.Note("pointer_set_to_nil", fmt.Sprintf("%d of %d (%v)", pick%len(ptrs), len(ptrs), p.Type()))
	p.Set(reflect.Zero(p.Type()))
	c.NonTrivial(t.name, seed, pick%len(ptrs))
	if _, ok := gv.Interface().(interface{ MarshalTL() ([]byte, error) }); !ok {
		return nil
	}
	var got []byte
	err := core.Protect(func() error {
		var e error
		got, e = marshalOf(gv.Interface())
		return e
	})
	if err != nil {
		if _, isPanic := err.(*core.PanicError); isPanic {
			c.Class("nil pointer under a set mode bit: MarshalTL panics (not judged)")
		} else {
			c.Class("nil pointer under a set mode bit: MarshalTL returns an error")
		}
		return nil
	}
	c.Class("nil pointer under a set mode bit: MarshalTL returns bytes")
	var back *tlref.Value
	var used int
	if t.kind == tUnion || t.kind == tBoxed1 {
		back, used, err = s.Decode(got, t.typeExpr())
	} else {
		back, used, err = s.DecodeBare(got, t.con)
	}
	if err == nil && used != len(got) {
		err = fmt.Errorf("the declaration's layout ends after %d of the %d bytes", used, len(got))
	}
	if err == nil {
		var again []byte
		if t.kind == tUnion || t.kind == tBoxed1 {
			again, err = s.EncodeBoxed(nil, back)
		} else {
			again, err = s.EncodeBare(nil, back)
		}
		if err == nil && !bytes.Equal(again, got) {
			err = fmt.Errorf("the value they parse to has another layout: %s", diffAt(got, again))
		}
	}
	if err != nil {
		return fmt.Errorf("%s: MarshalTL returns %d bytes and no error for a Go value whose mode bit is set while the %v of the conditional field is nil, and the bytes are not the layout lite_api.tl defines for the declaration (a field whose mode bit is set must be present): %v\nbytes %s\nvalue before the pointer was set to nil: %s", t.name, len(got), p.Type(), err, clip(got), v)
	}
	return nil
}}

func TestEnumGoForms(t *testing.T) {
	su := getSetup()
	if su.err != nil {
		t.Fatal(su.err)
	}
	seeds := core.Scale(2, 40)
	core.RunEnum(t, emptyCheck, fmt.Sprintf("every declaration with all top-level byte strings and vectors empty x Go slices nil / non-nil / mixed x all mode bits / drawn mode bits x %d seeded values", seeds), func(yield func(...uint64) bool) {
		for i := range su.targets {
			for form := 0; form < 3; form++ {
				for sel := 0; sel < 2; sel++ {
					for sd := 1; sd <= seeds; sd++ {
						if !yield(uint64(i), uint64(form), uint64(sel), uint64(sd)*0x9e3779b9+uint64(i*7+form)) {
							return
						}
					}
				}
			}
		}
	})
	pseeds := core.Scale(12, 200)
	carriers := ptrTargets(su)
	core.RunEnum(t, nilPtrCheck, fmt.Sprintf("every declaration with a pointer-typed conditional field (%d) x %d seeded values with one present conditional pointer set to nil", len(carriers), pseeds), func(yield func(...uint64) bool) {
		for i := range carriers {
			for sd := 1; sd <= pseeds; sd++ {
				if !yield(uint64(i), uint64(sd)*7919+uint64(i), uint64(sd*13+i)) {
					return
				}
			}
		}
	})
}
