package c15

import (
	"crypto/ed25519"
	"fmt"
	"testing"

	"github.com/tonkeeper/tongo/boc"
	"github.com/tonkeeper/tongo/tlb"
	"github.com/tonkeeper/tongo/wallet"

	"verifharness/internal/core"
	"verifharness/internal/wtest"
)

// c15/wide-workchains: the API takes the workchain as an int and an account id carries 32 bits of it. Outside the
// range -128..127 (which c15/workchains compares with the reference, hash and all) the address still lies "in
// the requested workchain", is "the same through every API that yields it" - GenerateWalletAddress,
// New(..., WithWorkchain).GetAddress(), the hash of the cell GenerateStateInit's result encodes to - and differs
// from the address in any other workchain.
// tape: version index, workchain index, key index
var wideWorkchains = []int{128, 129, 255, 256, 257, 383, 511, 512, 1000, 32767, 32768, 65535, 65536, 1 << 24, 1<<31 - 1, -129, -130, -255, -256, -257, -32768, -32769, -65536, -(1 << 31)}

var wideCheck = &core.Check{Name: "c15/wide-workchains", Fn: func(c *core.Ctx) error {
	vp := wtest.Versions[c.Intn("version", len(wtest.Versions))]
	wc := wideWorkchains[c.Intn("workchain", len(wideWorkchains))]
	k := c.Intn("key", 4)
	seed := make([]byte, 32)
	core.NewSplitMix(uint64(4200 + k)).Fill(seed)
	key := ed25519.NewKeyFromSeed(seed)
	pub := key.Public().(ed25519.PublicKey)
	c.Note("version", vp.Ref.String())
	c.Note("workchain", wc)
	c.NonTrivial(vp.Ref.String(), wc, k)
	a1, err := wallet.GenerateWalletAddress(pub, vp.Lib, nil, wc, nil)
	if err != nil {
		return fmt.Errorf("GenerateWalletAddress(%v, workchain %d): %v", vp.Ref, wc, err)
	}
	if int64(a1.Workchain) != int64(wc) {
		return fmt.Errorf("GenerateWalletAddress(%v, workchain %d) = %s: not in the requested workchain", vp.Ref, wc, a1.ToRaw())
	}
	w, err := wallet.New(key, vp.Lib, &wtest.Chain{State: wtest.StateNone()}, wallet.WithWorkchain(wc))
	if err != nil {
		return fmt.Errorf("wallet.New(%v, WithWorkchain(%d)): %v", vp.Ref, wc, err)
	}
	if a2 := w.GetAddress(); a2 != a1 {
		return fmt.Errorf("%v workchain %d: New(...).GetAddress() = %s, GenerateWalletAddress = %s", vp.Ref, wc, a2.ToRaw(), a1.ToRaw())
	}
	si, err := wallet.GenerateStateInit(pub, vp.Lib, nil, wc, nil)
	if err != nil {
		return fmt.Errorf("GenerateStateInit(%v, workchain %d): %v", vp.Ref, wc, err)
	}
	cell := boc.NewCell()
	if err := tlb.Marshal(cell, si); err != nil {
		return fmt.Errorf("encoding the state-init of %v, workchain %d: %v", vp.Ref, wc, err)
	}
	h, err := cell.Hash()
	if err != nil {
		return err
	}
	if string(h) != string(a1.Address[:]) {
		return fmt.Errorf("%v workchain %d: GenerateWalletAddress = %s, the state-init GenerateStateInit returns hashes to %x", vp.Ref, wc, a1.ToRaw(), h)
	}
	// another workchain, another address: the neighbours modulo 256 in particular
	for _, other := range []int{wc + 256, wc - 256, int(int8(wc))} {
		if other == wc || int64(int32(other)) != int64(other) {
			continue
		}
		b, err := wallet.GenerateWalletAddress(pub, vp.Lib, nil, other, nil)
		if err != nil {
			return fmt.Errorf("GenerateWalletAddress(%v, workchain %d): %v", vp.Ref, other, err)
		}
		if b == a1 {
			return fmt.Errorf("%v: the addresses in workchain %d and in workchain %d are the same: %s", vp.Ref, wc, other, a1.ToRaw())
		}
	}
	return nil
}}

func TestWideWorkchains(t *testing.T) {
	core.RunEnum(t, wideCheck, fmt.Sprintf("%d versions x %d workchains outside -128..127 x 2 keys", len(wtest.Versions), len(wideWorkchains)), func(yield func(...uint64) bool) {
		for v := range wtest.Versions {
			for i := range wideWorkchains {
				for k := uint64(0); k < 2; k++ {
					if !yield(uint64(v), uint64(i), k) {
						return
					}
				}
			}
		}
	})
}
