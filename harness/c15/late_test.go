package c15

import (
	"context"
	"crypto/ed25519"
	"fmt"
	"sync"
	"sync/atomic"
	"testing"
	"time"

	"github.com/tonkeeper/tongo/wallet"

	"verifharness/internal/core"
	"verifharness/internal/walletref"
	"verifharness/internal/wtest"
)

// c15/confirm-late: the message is executed on chain at a drawn moment inside the waiting time (55..85 % of
// it, and it stays executed): from then on every GetSeqno answers a higher seqno. "A send that asks for
// confirmation returns success once the seqno has advanced and an error if it has not by the deadline": the
// seqno has advanced by the deadline, with at least 15 % of the waiting time (300 ms or more) to spare, so the
// send must report success. No statement is made when the process was visibly held up meanwhile (a 2 ms
// sleeper overslept by more than 25 ms).
var lateConfirmCheck = &core.Check{Name: "c15/confirm-late", Quick: 2, Thorough: 60, Hang: 300 * time.Second, Fn: func(c *core.Ctx) error {
	n := c.Range("sends", 2, 6)
	type send struct {
		vp    wtest.VersionPair
		key   ed25519.PrivateKey
		s0    uint32
		wait  time.Duration
		at    time.Duration
		raw   bool
		err   error
		took  time.Duration
		polls []wtest.PollRecord
	}
	vs := wtest.SendVersions[:6]
	sends := make([]*send, n)
	var descr []string
	for i := range sends {
		l := func(s string) string { return fmt.Sprintf("s%d.%s", i, s) }
		s := &send{vp: vs[c.Choose(l("version"), len(vs))], key: wtest.DrawKey(c, l("key")), s0: wtest.DrawU32(c, l("seqno")), raw: c.Bool(l("raw"))}
		if s.s0 >= 0xfffffff0 {
			s.s0 -= 0x100
		}
		s.wait = time.Duration(c.Range(l("wait ms"), 2000, 3000)) * time.Millisecond
		s.at = s.wait * time.Duration(c.Range(l("advance at %"), 55, 85)) / 100
		sends[i] = s
		descr = append(descr, fmt.Sprintf("%v seqno %d wait %v, executed on chain %v after the send", s.vp.Ref, s.s0, s.wait, s.at))
	}
	c.Note("sends", descr)
	c.NonTrivial(descr)

	var maxLag atomic.Int64
	stop := make(chan struct{})
	var probe sync.WaitGroup
	probe.Add(1)
	go func() {
		defer probe.Done()
		for {
			select {
			case <-stop:
				return
			default:
			}
			t := time.Now()
			time.Sleep(2 * time.Millisecond)
			if over := int64(time.Since(t) - 2*time.Millisecond); over > maxLag.Load() {
				maxLag.Store(over)
			}
		}
	}()
	var wg sync.WaitGroup
	for _, s := range sends {
		wg.Add(1)
		go func(s *send) {
			defer wg.Done()
			pub := s.key.Public().(ed25519.PublicKey)
			addr := walletref.Address(s.vp.Ref, pub, walletref.Options{})
			ids := walletref.ResolveIDs(s.vp.Ref, walletref.Options{})
			chain := &wtest.Chain{Tail: wtest.Poll{Seqno: s.s0}, AdvanceAfter: s.at, AdvanceTo: s.s0 + 1}
			code := wtest.MustCell(walletref.NewBuilder().U(0xff00, 16).Cell())
			chain.State = wtest.StateActive(accountOf(addr), 1000, code, wtest.MustCell(walletref.DataCell(s.vp.Ref, uint64(s.s0), pub, ids)))
			s.err = core.Protect(func() error {
				w, err := wallet.New(s.key, s.vp.Lib, chain)
				if err != nil {
					return fmt.Errorf("HARNESS: wallet.New: %v", err)
				}
				start := time.Now()
				_, err = w.SendV2(context.Background(), s.wait, transfers(1, uint64(s.s0))...)
				s.took = time.Since(start)
				return err
			})
			_, s.polls = chain.Snapshot()
		}(s)
	}
	wg.Wait()
	close(stop)
	probe.Wait()
	lag := time.Duration(maxLag.Load())
	c.Note("largest oversleep of the 2 ms probe", lag.String())
	for i, s := range sends {
		if pe, ok := s.err.(*core.PanicError); ok {
			return fmt.Errorf("send %d (%s): %v", i, descr[i], pe)
		}
		saw := false
		for _, p := range s.polls {
			if p.Reply.Err == nil && p.Reply.Seqno > s.s0 {
				saw = true
			}
		}
		if s.err == nil {
			if !saw {
				return fmt.Errorf("send %d (%s): reported success after %v although no poll (of %d) had seen a higher seqno", i, descr[i], s.took, len(s.polls))
			}
			c.Class("confirmed")
			continue
		}
		if lag > 25*time.Millisecond {
			c.Class("not judged: the process was held up")
			continue
		}
		return fmt.Errorf("send %d (%s): returned %q after %v; the seqno had advanced %v before the deadline and stayed advanced (%d polls made, one of them saw it: %v; largest scheduling delay %v)",
			i, descr[i], s.err, s.took, s.wait-s.at, len(s.polls), saw, lag)
	}
	return nil
}}

func TestConfirmLate(t *testing.T) { core.Run(t, lateConfirmCheck) }
