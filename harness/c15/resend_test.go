package c15

import (
	"bytes"
	"context"
	"crypto/ed25519"
	"fmt"
	"strings"
	"testing"
	"time"

	"github.com/tonkeeper/tongo/wallet"

	"verifharness/internal/core"
	"verifharness/internal/walletref"
	"verifharness/internal/wtest"
)

// c15/resend: several sends, one after the other, through ONE wallet.Wallet value (now and then through a
// second value made by wallet.New from the same key) against a chain double whose account changes between
// the sends the way a real account can: the stored seqno stays what it was (the earlier message was dropped or
// has not been executed yet), goes down or jumps (another node, a reorganisation), advances by one (the
// message was executed); the account is not there (yet, or again), is uninitialised, frozen; GetAccountState
// or SendMessage fail at some step. The property speaks about every send, not about the first one on a
// value: each message is judged against the account state GetAccountState handed out FOR THAT SEND - seqno =
// the stored one and no initial state when active, initial state (hash = address) and seqno 0 when the
// account does not exist or is uninitialised - and a send that asks for confirmation counts an advance
// relative to that same on-chain seqno. Nothing the wallet value remembers from earlier sends may show.

const (
	apiSend        = iota // Send
	apiSendV2             // SendV2 without waiting
	apiWaitAdvance        // SendV2 with a waiting time; every poll answers a seqno above the on-chain one
	apiWaitNever          // SendV2 with a short waiting time; every poll answers the on-chain seqno (or less)
)

var apiNames = [...]string{"Send", "SendV2(0)", "SendV2(wait), polls answer a higher seqno", "SendV2(wait), polls never answer a higher seqno"}

const (
	relFirst = iota
	relSame
	relPlusOne
	relHigher
	relLower
	relAny // while drawing only
)

var relNames = [...]string{"", "unchanged since the previous send", "previous + 1", "higher than previous + 1", "lower than at the previous send", ""}

type sendStep struct {
	acc        int
	stored     uint32
	rel        int
	usage      walletref.Usage
	stateFails bool
	sendFails  bool
	api        int
	wait       time.Duration
	pollSeqno  uint32
	nmsgs      int
	fresh      bool // this step uses a value newly made by wallet.New (same key, options, chain)
}

func (s sendStep) base() uint32 {
	if s.acc == accActive {
		return s.stored
	}
	return 0
}

func (s sendStep) describe() string {
	st := accNames[s.acc]
	if s.acc == accActive {
		st = fmt.Sprintf("active, stored seqno %d", s.stored)
		if s.rel != relFirst {
			st += " (" + relNames[s.rel] + ")"
		}
		if !s.usage.Empty() {
			st += ", data " + s.usage.String()
		}
	}
	d := fmt.Sprintf("[%s] %s with %d transfers", st, apiNames[s.api], s.nmsgs)
	if s.api >= apiWaitAdvance {
		d += fmt.Sprintf(" (wait %v, polls answer %d)", s.wait, s.pollSeqno)
	}
	if s.stateFails {
		d += ", GetAccountState fails"
	}
	if s.sendFails {
		d += ", SendMessage fails"
	}
	if s.fresh {
		d += ", through a new wallet.New value"
	}
	return d
}

func drawSteps(c *core.Ctx, v walletref.Version, n int) []sendStep {
	steps := make([]sendStep, n)
	havePrev, prev := false, uint32(0)
	hasSeqno := v.Family() != walletref.FamHighloadV2
	for i := range steps {
		l := func(s string) string { return fmt.Sprintf("s%d.%s", i, s) }
		s := &steps[i]
		s.acc = c.Weighted(l("account"), 2, 1, 9, 1)
		if s.acc == accActive {
			s.rel = relAny
			if havePrev {
				s.rel = relSame + c.Weighted(l("seqno.rel"), 4, 3, 1, 2, 2)
			}
			switch s.rel {
			case relSame:
				s.stored = prev
			case relPlusOne:
				s.stored = prev + 1 // 2^32-1 + 1 wraps: then it is simply another value
			case relHigher:
				s.stored = prev + uint32(c.OneOf(l("seqno.up"), 2, 3, 10, 1000))
			case relLower:
				s.stored = []uint32{prev - 1, prev / 2, 0}[c.Choose(l("seqno.down"), 3)]
			default:
				s.stored = wtest.DrawU32(c, l("seqno"))
			}
			// named after what actually came out (wrap-around at 2^32, prev = 0)
			switch {
			case !havePrev:
				s.rel = relFirst
			case s.stored == prev:
				s.rel = relSame
			case s.stored < prev:
				s.rel = relLower
			case s.stored == prev+1:
				s.rel = relPlusOne
			default:
				s.rel = relHigher
			}
			havePrev, prev = true, s.stored
			if c.Weighted(l("used data"), 3, 1) == 1 {
				s.usage = drawUsage(c, v)
			}
		}
		s.stateFails = c.Weighted(l("state error"), 11, 1) == 1
		s.sendFails = c.Weighted(l("send error"), 11, 1) == 1
		if hasSeqno {
			s.api = c.Weighted(l("api"), 4, 4, 3, 1)
		} else {
			s.api = c.Weighted(l("api"), 1, 1)
		}
		switch s.api {
		case apiWaitAdvance:
			if s.base() == 0xffffffff { // nothing above it exists
				s.api = apiWaitNever
				break
			}
			s.wait = time.Duration(c.Range(l("wait ms"), 200, 400)) * time.Millisecond
			d := uint32(c.OneOf(l("delta"), 1, 1, 2, 10))
			if s.base() > 0xffffffff-d {
				d = 1
			}
			s.pollSeqno = s.base() + d
		}
		if s.api == apiWaitNever {
			s.wait = time.Duration(c.Range(l("short wait ms"), 3, 20)) * time.Millisecond
			s.pollSeqno = []uint32{s.base(), s.base(), s.base() / 2}[c.Choose(l("poll"), 3)]
		}
		// 4 is the limit of v3/v4 and, with the initial state attached, fills every reference of the message
		s.nmsgs = c.Weighted(l("messages"), 1, 3, 1, 1, 3)
		s.fresh = i > 0 && c.Weighted(l("wallet value"), 6, 1) == 1
	}
	return steps
}

var resendCheck = &core.Check{Name: "c15/resend", Quick: 600, Thorough: 60000, Fn: func(c *core.Ctx) error {
	if err := selfCheck(); err != nil {
		return err
	}
	vp := wtest.SendVersions[c.Choose("version", len(wtest.SendVersions))]
	key := wtest.DrawKey(c, "key")
	pub := key.Public().(ed25519.PublicKey)
	o := wtest.DrawOpts(c)
	steps := drawSteps(c, vp.Ref, c.Range("sends", 2, 5))
	var descr []string
	for _, s := range steps {
		descr = append(descr, s.describe())
	}
	c.Note("version", vp.Ref.String())
	c.Note("options", o.String())
	c.Note("sends, with the account state of their moment", descr)
	c.Class(vp.Ref.String())

	addr := walletref.Address(vp.Ref, pub, o.Ref)
	ids := walletref.ResolveIDs(vp.Ref, o.Ref)
	id := accountOf(addr)
	code, err := wtest.Cell(walletref.Code(vp.Ref))
	if err != nil {
		return fmt.Errorf("HARNESS: %v", err)
	}
	chain := &wtest.Chain{State: wtest.StateNone()}
	w, err := wallet.New(key, vp.Lib, chain, o.Lib...)
	if err != nil {
		return fmt.Errorf("wallet.New(%v %v): %v", vp.Ref, o, err)
	}
	hasSeqno := vp.Ref.Family() != walletref.FamHighloadV2
	judged, judgedOnFirstValue := 0, 0
	onFirstValue := true
	for i, s := range steps {
		at := func(format string, args ...any) error {
			return fmt.Errorf("send %d of %d through one %v wallet (%v), %s: %s\n    all sends: %s", i+1, len(steps), vp.Ref, o, s.describe(),
				fmt.Sprintf(format, args...), strings.Join(descr, "\n               "))
		}
		chain.Reconfigure(func(ch *wtest.Chain) {
			switch s.acc {
			case accNone:
				ch.State = wtest.StateNone()
			case accUninit:
				ch.State = wtest.StateUninit(id, 1000)
			case accActive:
				ch.State = wtest.StateActive(id, 1000, code, wtest.MustCell(walletref.UsedDataCell(vp.Ref, uint64(s.stored), pub, ids, s.usage)))
			case accFrozen:
				ch.State = wtest.StateFrozen(id, 1000, addr.Hash)
			}
			ch.StateErr, ch.SendErr = nil, nil
			if s.stateFails {
				ch.StateErr = wtest.ErrScriptedState
			}
			if s.sendFails {
				ch.SendErr = wtest.ErrScriptedSend
			}
			ch.Script, ch.Tail = nil, wtest.Poll{Seqno: s.pollSeqno}
		})
		if s.fresh {
			if w, err = wallet.New(key, vp.Lib, chain, o.Lib...); err != nil {
				return at("wallet.New: %v", err)
			}
			onFirstValue = false
		}
		states0, sent0, polls0 := chain.Counts()
		msgs := transfers(s.nmsgs, uint64(s.stored)+uint64(i)*131+7)
		start := time.Now()
		err := core.Protect(func() error {
			if s.api == apiSend {
				return w.Send(context.Background(), msgs...)
			}
			_, e := w.SendV2(context.Background(), s.wait, msgs...)
			return e
		})
		elapsed := time.Since(start)
		if pe, isPanic := err.(*core.PanicError); isPanic {
			return at("%v", pe)
		}
		calls := chain.StateCallsCopy()
		sentAll, pollsAll := chain.Snapshot()
		sent, polls := sentAll[sent0:], pollsAll[polls0:]
		if len(calls) != states0+1 || !wtest.SameAccount(calls[states0], addr) {
			return at("GetAccountState calls during this send: %v, want one call for the wallet's own address %v", calls[states0:], addr)
		}
		if s.wait == 0 && len(polls) != 0 {
			return at("a send without confirmation polled the seqno %d times", len(polls))
		}
		if s.stateFails {
			c.Class("step: GetAccountState fails")
			if err == nil {
				return at("GetAccountState failed and the send reported success")
			}
			if len(sent) != 0 {
				return at("GetAccountState failed and %d payloads were sent anyway", len(sent))
			}
			continue
		}
		if s.acc == accFrozen {
			c.Class("step: frozen account")
			continue // only "no panic" is promised
		}
		if len(sent) != 1 {
			return at("%d payloads handed to SendMessage (error %v), want 1", len(sent), err)
		}
		f, perr := readPayload(vp.Ref, sent[0])
		if perr != nil {
			return at("%v", perr)
		}
		if f.dest != addr {
			return at("external message addressed to %v, the wallet is %v", f.dest, addr)
		}
		if f.nmsgs != s.nmsgs {
			return at("%d messages in the body, %d requested", f.nmsgs, s.nmsgs)
		}
		if s.acc == accActive {
			if f.init != nil {
				return at("the account is active and the message carries an initial state")
			}
			if hasSeqno && f.seqno != s.stored {
				return at("seqno %d in the message, the account's on-chain data holds %d at this moment", f.seqno, s.stored)
			}
		} else {
			if f.init == nil {
				return at("the account is %s and the message carries no initial state", accNames[s.acc])
			}
			if !bytes.Equal(f.initRaw.ReprHash(), addr.Hash[:]) {
				return at("attached initial state hashes to %x, the address is %x", f.initRaw.ReprHash(), addr.Hash)
			}
			if hasSeqno && f.seqno != 0 {
				return at("seqno %d for an account that is %s", f.seqno, accNames[s.acc])
			}
			if s.nmsgs == 4 {
				c.Class("initial state attached and 4 transfers")
			}
		}
		judged++
		if onFirstValue {
			judgedOnFirstValue++
		}
		if judged >= 2 {
			what := accNames[s.acc]
			if s.acc == accActive {
				what = "active, seqno " + relNames[s.rel]
				if s.rel == relFirst {
					what = "active for the first time"
				}
			}
			c.Class("later send: " + what)
		}
		// the outcome
		switch {
		case s.sendFails:
			c.Class("step: SendMessage fails")
			if err == nil {
				return at("SendMessage failed and the send reported success")
			}
		case s.wait == 0:
			if err != nil {
				return at("send with a healthy blockchain: %v", err)
			}
		default:
			// judged on the recorded replies: a poll that never happened cannot have confirmed anything
			saw := false
			for _, p := range polls {
				if p.Reply.Err == nil && p.Reply.Seqno > s.base() {
					saw = true
				}
			}
			if saw {
				c.Class("step: confirmed by the first poll")
				if err != nil {
					return at("a poll (of %d) answered seqno %d > on-chain seqno %d without error, yet the send returned %q after %v", len(polls), s.pollSeqno, s.base(), err, elapsed)
				}
			} else {
				c.Class("step: not confirmed")
				if err == nil {
					return at("no poll (of %d) answered a seqno above the on-chain seqno %d, yet the send reported success after %v", len(polls), s.base(), elapsed)
				}
				if elapsed < s.wait {
					return at("gave up after %v, before the waiting time %v", elapsed, s.wait)
				}
			}
		}
	}
	if judgedOnFirstValue >= 2 {
		c.Class("two or more judged sends through one Wallet value")
	}
	if judged >= 2 {
		c.NonTrivial(vp.Ref.String(), addr.String(), descr)
	}
	return nil
}}

func TestResend(t *testing.T) { core.Run(t, resendCheck) }
