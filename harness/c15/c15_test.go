// C15 — wallet address and send parameters follow from key, version and chain state.
//
// Oracle: internal/walletref (published code cells anchored by their well-known hashes, data layouts of the
// wallet contracts, StateInit writer, reference cell hasher, mnemonic derivation from the TON mnemonic
// documentation). The blockchain is a scripted double that records every call with its time.
package c15

import (
	"bytes"
	"context"
	"crypto/ed25519"
	"encoding/hex"
	"fmt"
	"strings"
	"sync"
	"testing"
	"time"

	"github.com/tonkeeper/tongo/boc"
	"github.com/tonkeeper/tongo/tlb"
	"github.com/tonkeeper/tongo/ton"
	"github.com/tonkeeper/tongo/wallet"

	"verifharness/internal/core"
	"verifharness/internal/ref"
	"verifharness/internal/walletref"
	"verifharness/internal/wtest"
)

func TestMain(m *testing.M) { core.Main(m, "C15") }

func selfCheck() error {
	if err := walletref.CheckCodes(); err != nil {
		return fmt.Errorf("HARNESS-SELF-CHECK: %v", err)
	}
	return nil
}

func accountOf(a walletref.Addr) ton.AccountID {
	return ton.AccountID{Workchain: int32(a.Workchain), Address: a.Hash}
}

// ---------------------------------------------------------------------------------------------
// addresses

// stateInitImage marshals a library StateInit and images the cell into the reference model.
func stateInitImage(si tlb.StateInit) (*ref.RCell, error) {
	cell := boc.NewCell()
	if err := tlb.Marshal(cell, si); err != nil {
		return nil, fmt.Errorf("marshal StateInit: %v", err)
	}
	return wtest.FromCell(cell)
}

// addressAllWays checks every API that yields the address or the initial state against the reference.
func addressAllWays(vp wtest.VersionPair, key ed25519.PrivateKey, o wtest.Opts) (walletref.Addr, error) {
	pub := key.Public().(ed25519.PublicKey)
	want := walletref.Address(vp.Ref, pub, o.Ref)
	wantInit := walletref.InitialState(vp.Ref, pub, o.Ref)
	where := fmt.Sprintf("%v %v", vp.Ref, o)

	w, err := wallet.New(key, vp.Lib, nil, o.Lib...)
	if err != nil {
		return want, fmt.Errorf("wallet.New(%s): %v", where, err)
	}
	if got := w.GetAddress(); !wtest.SameAccount(got, want) {
		return want, fmt.Errorf("Wallet.GetAddress(%s) = %s, reference %v", where, got.ToRaw(), want)
	}
	got, err := wallet.GenerateWalletAddress(pub, vp.Lib, o.Net, int(o.Ref.Workchain), o.Sub)
	if err != nil {
		return want, fmt.Errorf("GenerateWalletAddress(%s): %v", where, err)
	}
	if !wtest.SameAccount(got, want) {
		return want, fmt.Errorf("GenerateWalletAddress(%s) = %s, reference %v", where, got.ToRaw(), want)
	}
	checkInit := func(what string, si tlb.StateInit) error {
		img, err := stateInitImage(si)
		if err != nil {
			return fmt.Errorf("%s(%s): %v", what, where, err)
		}
		if !bytes.Equal(img.ReprHash(), want.Hash[:]) {
			parsed, perr := walletref.NewReader(img).StateInit()
			detail := ""
			if perr == nil && parsed.Code != nil && parsed.Data != nil {
				detail = fmt.Sprintf(" (code %x vs published %x; data %s vs reference %s)", parsed.Code.ReprHash()[:8], wantInit.Code.ReprHash()[:8],
					parsed.Data.Bits().FiftHex(), wantInit.Data.Bits().FiftHex())
			}
			return fmt.Errorf("%s(%s) hashes to %x, the address is %x%s", what, where, img.ReprHash(), want.Hash, detail)
		}
		return nil
	}
	si, err := wallet.GenerateStateInit(pub, vp.Lib, o.Net, int(o.Ref.Workchain), o.Sub)
	if err != nil {
		return want, fmt.Errorf("GenerateStateInit(%s): %v", where, err)
	}
	if err := checkInit("GenerateStateInit", si); err != nil {
		return want, err
	}
	psi, err := w.StateInit()
	if err != nil || psi == nil {
		return want, fmt.Errorf("Wallet.StateInit(%s): %v", where, err)
	}
	if err := checkInit("Wallet.StateInit", *psi); err != nil {
		return want, err
	}
	return want, nil
}

var addressCheck = &core.Check{Name: "c15/address", Quick: 2500, Thorough: 200000, Fn: func(c *core.Ctx) error {
	if err := selfCheck(); err != nil {
		return err
	}
	vi := c.Choose("version", len(wtest.Versions))
	vp := wtest.Versions[vi]
	key := wtest.DrawKey(c, "key")
	o := wtest.DrawOpts(c)
	c.Note("version", vp.Ref.String())
	c.Note("options", o.String())
	c.Note("public_key", hex.EncodeToString(key.Public().(ed25519.PublicKey)))
	base, err := addressAllWays(vp, key, o)
	if err != nil {
		return err
	}
	c.Note("address", base.String())
	c.Class(vp.Ref.String())

	// inputs that differ in exactly one respect give a different address
	neighbour := func(what string, vp2 wtest.VersionPair, key2 ed25519.PrivateKey, o2 wtest.Opts) error {
		pub2 := key2.Public().(ed25519.PublicKey)
		want := walletref.Address(vp2.Ref, pub2, o2.Ref)
		got, err := wallet.GenerateWalletAddress(pub2, vp2.Lib, o2.Net, int(o2.Ref.Workchain), o2.Sub)
		if err != nil {
			return fmt.Errorf("GenerateWalletAddress(%v %v): %v", vp2.Ref, o2, err)
		}
		if !wtest.SameAccount(got, want) {
			return fmt.Errorf("GenerateWalletAddress(%v %v) = %s, reference %v", vp2.Ref, o2, got.ToRaw(), want)
		}
		if wtest.SameAccount(got, base) {
			return fmt.Errorf("changing only the %s (%v %v -> %v %v) leaves the address %v unchanged", what, vp.Ref, o, vp2.Ref, o2, base)
		}
		return nil
	}
	if err := neighbour("key", vp, wtest.OtherKey(key, byte(c.Intn("other key", 256))), o); err != nil {
		return err
	}
	vj := (vi + 1 + c.Choose("other version", len(wtest.Versions)-1)) % len(wtest.Versions)
	if err := neighbour("version", wtest.Versions[vj], key, o); err != nil {
		return err
	}
	wc2 := wtest.DrawWorkchain(c, "other workchain")
	if wc2 == o.Ref.Workchain {
		wc2++ // wraps inside int8
	}
	if err := neighbour("workchain", vp, key, wtest.MakeOpts(wc2, o.Sub, o.Net, true)); err != nil {
		return err
	}
	if vp.Ref.UsesSubWallet() {
		cur := walletref.ResolveIDs(vp.Ref, o.Ref).SubWallet
		sub2 := wtest.DrawU32(c, "other subwallet")
		if sub2 == cur {
			sub2 ^= 1
		}
		if err := neighbour("sub-wallet id", vp, key, wtest.MakeOpts(o.Ref.Workchain, &sub2, o.Net, true)); err != nil {
			return err
		}
		c.Class("sub-wallet neighbour")
	}
	if vp.Ref.UsesNetworkID() {
		cur := walletref.ResolveIDs(vp.Ref, o.Ref).NetworkID
		net2 := int32(wtest.DrawU32(c, "other network"))
		if c.Bool("other network testnet") {
			net2 = walletref.TestnetGlobalID
		}
		if net2 == cur {
			net2 ^= 2
		}
		if err := neighbour("network id", vp, key, wtest.MakeOpts(o.Ref.Workchain, o.Sub, &net2, true)); err != nil {
			return err
		}
		c.Class("network-id neighbour")
	}
	if o.NonDefault() {
		c.Class("non-default options")
		c.NonTrivial(vp.Ref.String(), base.String())
	}
	return nil
}}

// tape: version index, workchain + 128, key index
var gridCheck = &core.Check{Name: "c15/workchains", Fn: func(c *core.Ctx) error {
	if err := selfCheck(); err != nil {
		return err
	}
	vp := wtest.Versions[c.Intn("version", len(wtest.Versions))]
	wc := int8(c.Intn("workchain", 256) - 128)
	k := c.Intn("key", 4)
	seed := make([]byte, 32)
	core.NewSplitMix(uint64(4200 + k)).Fill(seed)
	c.Note("version", vp.Ref.String())
	c.Note("workchain", wc)
	c.Note("key", k)
	if _, err := addressAllWays(vp, ed25519.NewKeyFromSeed(seed), wtest.MakeOpts(wc, nil, nil, true)); err != nil {
		return err
	}
	if wc != 0 {
		c.NonTrivial(vp.Ref.String(), wc, k)
	}
	return nil
}}

// ---------------------------------------------------------------------------------------------
// sending without confirmation: seqno and init follow the account state

const (
	accNone = iota
	accUninit
	accActive
	accFrozen
)

var accNames = [...]string{"non-existent", "uninitialised", "active", "frozen"}

func isV1V2(v walletref.Version) bool { return v.Family() == walletref.FamV1V2 }

// implementMePanic recognises the placeholder panic of the v1/v2 wallet implementation.
func implementMePanic(err error) bool {
	pe, ok := err.(*core.PanicError)
	return ok && fmt.Sprint(pe.Val) == "implement me"
}

func transfers(n int, seed uint64) []wallet.Sendable {
	sm := core.NewSplitMix(seed)
	var out []wallet.Sendable
	for i := 0; i < n; i++ {
		var to ton.AccountID
		sm.Fill(to.Address[:])
		out = append(out, wallet.SimpleTransfer{Amount: tlb.Grams(sm.Next() >> 20), Address: to, Comment: fmt.Sprintf("t%d", i), Bounceable: i%2 == 0})
	}
	return out
}

// payloadFacts reads what C15 cares about out of a captured payload.
type payloadFacts struct {
	dest    walletref.Addr
	init    *walletref.StateInit
	initRaw *ref.RCell
	seqno   uint32
	nmsgs   int
}

func readPayload(v walletref.Version, payload []byte) (*payloadFacts, error) {
	roots, err := ref.ParseBOC(payload)
	if err != nil || len(roots) != 1 {
		return nil, fmt.Errorf("payload is not a one-root bag of cells: %v", err)
	}
	m, err := walletref.ParseMessage(roots[0])
	if err != nil {
		return nil, fmt.Errorf("payload does not parse as a message: %v", err)
	}
	if m.Kind != walletref.KindExtIn {
		return nil, fmt.Errorf("payload is not an external-in message")
	}
	f := &payloadFacts{dest: m.Dest, init: m.Init}
	if m.Init != nil {
		f.initRaw = m.Init.Cell()
	}
	signed, _, err := walletref.SplitSignedBody(v, m.Body)
	if err != nil {
		return nil, err
	}
	d, err := walletref.DecodeBody(v, signed)
	if err != nil {
		return nil, fmt.Errorf("body: %v", err)
	}
	f.seqno, f.nmsgs = d.Seqno, len(d.Msgs)
	return f, nil
}

// drawUsage draws what a wallet's on-chain data holds besides the seqno once the wallet has been in use:
// installed plugins (v4) / extensions (v5), the v5r1 signature switch, highload bookkeeping. The property
// speaks of "the seqno stored in the account's on-chain data" of an active account, not of freshly deployed
// data only, so any data cell the contract can have written is a legal input. v1-v3 data has no such part.
func drawUsage(c *core.Ctx, v walletref.Version) walletref.Usage {
	var u walletref.Usage
	if c.Weighted("data", 2, 3) == 0 {
		return u
	}
	switch v.Family() {
	case walletref.FamV4, walletref.FamV5Beta, walletref.FamV5R1:
		n := c.Range("plugins", 1, 4)
		for i := 0; i < n; i++ {
			wc := wtest.DrawWorkchain(c, fmt.Sprintf("plugin%d.wc", i))
			u.Plugins = append(u.Plugins, walletref.StdAddr(wc, c.Content(fmt.Sprintf("plugin%d.hash", i), 32)))
		}
		if v.Family() == walletref.FamV5R1 {
			u.SignatureDisabled = c.Bool("signature disabled")
		}
	case walletref.FamHighloadV2:
		u.LastCleaned = c.U64("last cleaned")
		n := c.Range("old queries", 0, 3)
		for i := 0; i < n; i++ {
			u.OldQueries = append(u.OldQueries, c.U64(fmt.Sprintf("query%d", i)))
		}
	}
	return u
}

var sendCheck = &core.Check{Name: "c15/send", Quick: 2500, Thorough: 150000, Fn: func(c *core.Ctx) error {
	if err := selfCheck(); err != nil {
		return err
	}
	// v1/v2 wallets have no message builder in the library; they get a small share
	var vp wtest.VersionPair
	if c.Weighted("family", 1, 9) == 0 {
		vp = wtest.Versions[c.Choose("version12", 5)]
	} else {
		vp = wtest.SendVersions[c.Choose("version", len(wtest.SendVersions))]
	}
	key := wtest.DrawKey(c, "key")
	pub := key.Public().(ed25519.PublicKey)
	o := wtest.DrawOpts(c)
	acc := c.Weighted("account", 3, 2, 6, 1)
	stored := wtest.DrawU32(c, "stored seqno")
	stateFails := c.Weighted("state error", 9, 1) == 1
	sendFails := c.Weighted("send error", 8, 1) == 1
	useV2 := c.Bool("SendV2")
	nmsgs := c.Range("messages", 0, 2)
	// drawn last: replay tapes recorded before this draw existed keep their meaning (data as deployed)
	var usage walletref.Usage
	if acc == accActive {
		usage = drawUsage(c, vp.Ref)
	}
	// up to 4 transfers: the limit of v3/v4; with the initial state attached every reference of the external
	// message is then in use (drawn last for the same reason)
	nmsgs += c.Range("more messages", 0, 2)
	c.Note("messages", nmsgs)
	c.Note("version", vp.Ref.String())
	c.Note("options", o.String())
	c.Note("account", accNames[acc])
	c.Note("stored_seqno", stored)
	if acc == accActive {
		c.Note("stored_data", usage.String())
	}
	c.Note("state_error", stateFails)
	c.Note("send_error", sendFails)
	c.Class(vp.Ref.String())
	c.Class("account " + accNames[acc])

	addr := walletref.Address(vp.Ref, pub, o.Ref)
	ids := walletref.ResolveIDs(vp.Ref, o.Ref)
	id := accountOf(addr)
	chain := &wtest.Chain{}
	switch acc {
	case accNone:
		chain.State = wtest.StateNone()
	case accUninit:
		chain.State = wtest.StateUninit(id, 1000)
	case accActive:
		code, err := wtest.Cell(walletref.Code(vp.Ref))
		if err != nil {
			return fmt.Errorf("HARNESS: %v", err)
		}
		data := walletref.UsedDataCell(vp.Ref, uint64(stored), pub, ids, usage)
		c.Note("data_cell", data.Bits().FiftHex()+fmt.Sprintf(" + %d refs", len(data.Refs)))
		chain.State = wtest.StateActive(id, 1000, code, wtest.MustCell(data))
		if c.Intn("active.nocode", 6) == 0 {
			// an active account whose stored state has data and no code cell (legal, if unusual): it is
			// active all the same - stored seqno, no initial state
			chain.State.Account.Account.Storage.State.AccountActive.StateInit.Code = tlb.Maybe[tlb.Ref[boc.Cell]]{}
			c.Class("active account without a code cell")
		}
	case accFrozen:
		var h [32]byte
		copy(h[:], addr.Hash[:])
		chain.State = wtest.StateFrozen(id, 1000, h)
	}
	if stateFails {
		chain.StateErr = wtest.ErrScriptedState
	}
	if sendFails {
		chain.SendErr = wtest.ErrScriptedSend
	}
	w, err := wallet.New(key, vp.Lib, chain, o.Lib...)
	if err != nil {
		return fmt.Errorf("wallet.New(%v %v): %v", vp.Ref, o, err)
	}
	msgs := transfers(nmsgs, uint64(stored)+7)
	err = core.Protect(func() error {
		if useV2 {
			_, e := w.SendV2(context.Background(), 0, msgs...)
			return e
		}
		return w.Send(context.Background(), msgs...)
	})
	sent, polls := chain.Snapshot()
	if len(chain.StateCalls) != 1 || !wtest.SameAccount(chain.StateCalls[0], addr) {
		return fmt.Errorf("GetAccountState calls %v, want one call for the wallet's own address %v", chain.StateCalls, addr)
	}
	if len(polls) != 0 {
		return fmt.Errorf("a send without confirmation polled the seqno %d times", len(polls))
	}
	if stateFails {
		c.Class("GetAccountState fails")
		if err == nil {
			return fmt.Errorf("GetAccountState failed and the send reported success")
		}
		if _, isPanic := err.(*core.PanicError); isPanic {
			return err
		}
		if len(sent) != 0 {
			return fmt.Errorf("GetAccountState failed and %d payloads were sent anyway", len(sent))
		}
		return nil
	}
	if isV1V2(vp.Ref) {
		// the library has no message format for these versions: refusing is fine, panicking is not
		if err == nil {
			return fmt.Errorf("%v: send succeeded although the library cannot build %v messages", vp.Ref, vp.Ref)
		}
		if _, isPanic := err.(*core.PanicError); isPanic {
			if implementMePanic(err) && c.Known("C15-v1v2-send-panics") {
				return nil
			}
			return fmt.Errorf("%v wallet from wallet.New: Send panics instead of returning an error: %v", vp.Ref, err)
		}
		c.Class("v1/v2 send refused with an error")
		return nil
	}
	if acc == accFrozen {
		// only "no panic" is promised for frozen accounts
		if _, isPanic := err.(*core.PanicError); isPanic {
			return err
		}
		return nil
	}
	if _, isPanic := err.(*core.PanicError); isPanic {
		return err
	}
	if len(sent) != 1 {
		return fmt.Errorf("%d payloads handed to SendMessage (error %v), want 1", len(sent), err)
	}
	if sendFails {
		c.Class("SendMessage fails")
		if err == nil {
			return fmt.Errorf("SendMessage failed and the send reported success")
		}
	} else if err != nil {
		return fmt.Errorf("send with a healthy blockchain: %v", err)
	}
	f, err := readPayload(vp.Ref, sent[0])
	if err != nil {
		return err
	}
	if f.dest != addr {
		return fmt.Errorf("external message addressed to %v, the wallet is %v", f.dest, addr)
	}
	if f.nmsgs != nmsgs {
		return fmt.Errorf("%d messages in the body, %d requested", f.nmsgs, nmsgs)
	}
	hasSeqno := vp.Ref.Family() != walletref.FamHighloadV2
	switch acc {
	case accActive:
		if f.init != nil {
			return fmt.Errorf("account is active and the message carries an initial state")
		}
		if hasSeqno && f.seqno != stored {
			return fmt.Errorf("seqno %d in the message, the account's data holds %d", f.seqno, stored)
		}
		if stored > 0 {
			c.Class("active, stored seqno > 0")
		}
		if len(usage.Plugins) > 0 {
			c.Class(fmt.Sprintf("active, %v data with %d plugins/extensions", vp.Ref, len(usage.Plugins)))
			if usage.SignatureDisabled {
				c.Class("active, v5r1 signature disabled")
			}
		} else if !usage.Empty() {
			c.Class("active, highload data with cleaning time / old queries")
		}
	default:
		if f.init == nil {
			return fmt.Errorf("account is %s and the message carries no initial state", accNames[acc])
		}
		if !bytes.Equal(f.initRaw.ReprHash(), addr.Hash[:]) {
			return fmt.Errorf("attached initial state hashes to %x, the address is %x", f.initRaw.ReprHash(), addr.Hash)
		}
		if hasSeqno && f.seqno != 0 {
			return fmt.Errorf("seqno %d for an account that is %s", f.seqno, accNames[acc])
		}
		if nmsgs == 4 {
			c.Class("initial state attached and 4 transfers")
		}
	}
	if o.NonDefault() || (acc == accActive && (stored > 0 || !usage.Empty())) {
		c.NonTrivial(vp.Ref.String(), addr.String(), acc, stored, usage.String())
	}
	return nil
}}

// ---------------------------------------------------------------------------------------------
// confirmation

const (
	histAdvance        = iota // unchanged seqno until poll k, then a higher one
	histNever                 // never changes
	histErrThenAdvance        // errors, then a higher seqno
	histAllErrors             // every poll fails (some replies carry a junk number next to the error)
	histLower                 // seqno goes down / stays: not an advance
	numHist
)

var histNames = [...]string{"advance at poll k", "never advances", "errors then advance", "errors only", "lower or equal values only"}

type history struct {
	vp      wtest.VersionPair
	key     ed25519.PrivateKey
	s0      uint32
	wait    time.Duration
	kind    int
	k       int
	delta   uint32
	raw     bool // RawSendV2 instead of SendV2
	junkErr bool // failing polls return a number above s0 together with the error
	script  []wtest.Poll
	tail    wtest.Poll
	// cancel > 0: the caller's context is cancelled that long after the call started, while the send is still
	// waiting for the confirmation. A cancelled wait may end early, but it has confirmed nothing.
	cancel time.Duration
	// shortLife: the message expires long before the waiting time is over (a short message lifetime, or an
	// expiry that is near or already past). How long a send waits for its confirmation is the caller's
	// waiting time; the expiry of the message says nothing about it.
	shortLife bool
}

type outcome struct {
	err     error
	elapsed time.Duration
	done    time.Time
	polls   []wtest.PollRecord
	sent    int
}

func drawHistory(c *core.Ctx, i int) history {
	l := func(s string) string { return fmt.Sprintf("h%d.%s", i, s) }
	// versions with a seqno: v3, v4, v5
	vs := wtest.SendVersions[:6]
	h := history{vp: vs[c.Choose(l("version"), len(vs))], key: wtest.DrawKey(c, l("key"))}
	h.s0 = wtest.DrawU32(c, l("seqno"))
	atMax := false
	if c.Intn(l("seqno.max"), 8) == 0 {
		// the largest seqno a wallet can hold: nothing above it exists, so no poll can show an advance
		h.s0, atMax = 0xffffffff, true
	} else if h.s0 >= 0xfffffff0 {
		h.s0 -= 0x100 // leave room above
	}
	h.wait = time.Duration(c.Range(l("wait ms"), 100, 300)) * time.Millisecond
	h.kind = c.Weighted(l("kind"), 5, 3, 2, 1, 1)
	if atMax {
		h.kind = []int{histNever, histLower, histAllErrors}[c.Choose(l("kind.max"), 3)]
	}
	h.k = c.Range(l("k"), 0, 4)
	h.delta = uint32(c.OneOf(l("delta"), 1, 1, 2, 10))
	h.raw = c.Bool(l("raw"))
	h.junkErr = c.Bool(l("junk"))
	fail := wtest.Poll{Err: wtest.ErrScriptedSeqno}
	if h.junkErr && !atMax {
		fail.Seqno = h.s0 + 5
	}
	same := wtest.Poll{Seqno: h.s0}
	up := wtest.Poll{Seqno: h.s0 + h.delta}
	switch h.kind {
	case histAdvance:
		for j := 0; j < h.k; j++ {
			h.script = append(h.script, same)
		}
		h.tail = up
	case histNever:
		h.tail = same
	case histErrThenAdvance:
		for j := 0; j <= h.k; j++ {
			h.script = append(h.script, fail)
		}
		h.tail = up
	case histAllErrors:
		h.tail = fail
	case histLower:
		h.script = []wtest.Poll{same, {Seqno: h.s0 / 2}, {Seqno: 0}}
		h.tail = same
	}
	h.shortLife = c.Intn(l("shortlife"), 4) == 0
	if (h.kind == histNever || h.kind == histLower) && c.Intn(l("cancel"), 3) == 0 {
		h.cancel = h.wait * time.Duration(c.Range(l("cancel.pct"), 5, 80)) / 100
	}
	return h
}

func (h history) describe() string {
	api := "SendV2"
	if h.raw {
		api = "RawSendV2"
	}
	if h.cancel > 0 {
		api += fmt.Sprintf(" (context cancelled after %v)", h.cancel)
	}
	if h.shortLife {
		api += " (message expires after a tenth of the waiting time)"
	}
	return fmt.Sprintf("%v %s seqno %d wait %v: %s (k=%d, +%d, junk=%v)", h.vp.Ref, api, h.s0, h.wait, histNames[h.kind], h.k, h.delta, h.junkErr)
}

func (h history) run() outcome {
	pub := h.key.Public().(ed25519.PublicKey)
	addr := walletref.Address(h.vp.Ref, pub, walletref.Options{})
	ids := walletref.ResolveIDs(h.vp.Ref, walletref.Options{})
	chain := &wtest.Chain{Script: h.script, Tail: h.tail}
	code := wtest.MustCell(walletref.NewBuilder().U(0xff00, 16).Cell())
	chain.State = wtest.StateActive(accountOf(addr), 1000, code, wtest.MustCell(walletref.DataCell(h.vp.Ref, uint64(h.s0), pub, ids)))
	var out outcome
	out.err = core.Protect(func() error {
		var wopts []wallet.Option
		life := time.Minute
		if h.shortLife {
			life = h.wait / 10
			wopts = append(wopts, wallet.WithMessageLifetime(life))
		}
		w, err := wallet.New(h.key, h.vp.Lib, chain, wopts...)
		if err != nil {
			return fmt.Errorf("HARNESS: wallet.New: %v", err)
		}
		msgs := transfers(1, uint64(h.s0))
		ctx := context.Background()
		if h.cancel > 0 {
			var stop context.CancelFunc
			ctx, stop = context.WithCancel(ctx)
			defer stop()
			defer time.AfterFunc(h.cancel, stop).Stop()
		}
		start := time.Now()
		if h.raw {
			var raws []wallet.RawMessage
			for _, m := range msgs {
				im, mode, err := m.ToInternal()
				if err != nil {
					return fmt.Errorf("HARNESS: %v", err)
				}
				cell := boc.NewCell()
				if err := tlb.Marshal(cell, im); err != nil {
					return fmt.Errorf("HARNESS: %v", err)
				}
				raws = append(raws, wallet.RawMessage{Message: cell, Mode: mode})
			}
			_, err = w.RawSendV2(ctx, h.s0, time.Now().Add(life), raws, nil, h.wait)
		} else {
			_, err = w.SendV2(ctx, h.wait, msgs...)
		}
		out.done = time.Now()
		out.elapsed = out.done.Sub(start)
		return err
	})
	var sent [][]byte
	sent, out.polls = chain.Snapshot()
	out.sent = len(sent)
	return out
}

// judge applies the property to what was observed. It looks at the recorded replies, not at the script: a
// poll that never happened (slow machine) cannot have confirmed anything.
func (h history) judge(c *core.Ctx, o outcome) error {
	if pe, ok := o.err.(*core.PanicError); ok {
		return fmt.Errorf("%s: %v", h.describe(), pe)
	}
	if o.err != nil && strings.HasPrefix(o.err.Error(), "HARNESS:") {
		return o.err
	}
	if o.sent != 1 {
		return fmt.Errorf("%s: %d payloads sent", h.describe(), o.sent)
	}
	advancedAt, errorsBefore := -1, 0
	junkAbove := false
	for i, p := range o.polls {
		if p.Reply.Err != nil {
			if advancedAt < 0 {
				errorsBefore++
			}
			if p.Reply.Seqno > h.s0 {
				junkAbove = true
			}
			continue
		}
		if p.Reply.Seqno > h.s0 && advancedAt < 0 {
			advancedAt = i
		}
	}
	if len(o.polls) >= 2 {
		c.Class("history with >= 2 polls")
	}
	switch {
	case advancedAt >= 0 && errorsBefore == 0:
		c.Class("confirmed")
		if o.err != nil {
			if strings.Contains(o.err.Error(), "waiting confirmation timeout") && c.Known("C15-confirmation-never-succeeds") {
				return nil
			}
			return fmt.Errorf("%s: poll %d of %d answered seqno %d > %d without error, yet the send returned %q after %v",
				h.describe(), advancedAt, len(o.polls), o.polls[advancedAt].Reply.Seqno, h.s0, o.err, o.elapsed)
		}
		if late := o.done.Sub(o.polls[advancedAt].At); late > 2*time.Second {
			return fmt.Errorf("%s: success returned %v after the confirming poll", h.describe(), late)
		}
	case advancedAt >= 0:
		// failing polls before the advance: retrying and giving up are both within the property
		c.Class("advance after failing polls")
		if o.err != nil {
			c.Class("advance after failing polls: reported as error")
		}
	default:
		c.Class("not confirmed")
		if o.err == nil {
			if junkAbove && c.Known("C15-confirmation-never-succeeds") {
				return nil
			}
			return fmt.Errorf("%s: no poll (of %d) reported a higher seqno without error, yet the send reported success after %v (junk number next to an error: %v)",
				h.describe(), len(o.polls), o.elapsed, junkAbove)
		}
		if h.cancel > 0 {
			c.Class("not confirmed, context cancelled during the wait")
		}
		if o.elapsed < h.wait && (h.cancel == 0 || o.elapsed < h.cancel) {
			return fmt.Errorf("%s: gave up after %v, before the waiting time %v", h.describe(), o.elapsed, h.wait)
		}
		if o.elapsed > h.wait+10*time.Second {
			return fmt.Errorf("%s: returned only after %v", h.describe(), o.elapsed)
		}
	}
	return nil
}

const parallelHistories = 8

var confirmCheck = &core.Check{Name: "c15/confirm", Quick: 36, Thorough: 1500, Hang: 300 * time.Second, Fn: func(c *core.Ctx) error {
	if err := selfCheck(); err != nil {
		return err
	}
	n := c.Range("histories", 1, parallelHistories)
	hs := make([]history, n)
	var descr []string
	for i := range hs {
		hs[i] = drawHistory(c, i)
		descr = append(descr, hs[i].describe())
		c.Class(hs[i].vp.Ref.String())
		c.Class("history: " + histNames[hs[i].kind])
	}
	c.Note("histories", descr)
	outs := make([]outcome, n)
	var wg sync.WaitGroup
	for i := range hs {
		wg.Add(1)
		go func(i int) {
			defer wg.Done()
			outs[i] = hs[i].run()
		}(i)
	}
	wg.Wait()
	multi := false
	for i := range hs {
		if err := hs[i].judge(c, outs[i]); err != nil {
			return err
		}
		multi = multi || len(outs[i].polls) >= 2
	}
	if multi {
		c.NonTrivial(descr)
	}
	return nil
}}

// highload wallets have no seqno: a send asking for confirmation cannot be confirmed. Only "the message goes
// out once, no panic" is checked.
var highloadConfirmCheck = &core.Check{Name: "c15/confirm-highload", Quick: 40, Thorough: 2000, Fn: func(c *core.Ctx) error {
	key := wtest.DrawKey(c, "key")
	vp := wtest.Versions[len(wtest.Versions)-1]
	chain := &wtest.Chain{State: wtest.StateNone(), Tail: wtest.Poll{Seqno: wtest.DrawU32(c, "reply")}}
	w, err := wallet.New(key, vp.Lib, chain)
	if err != nil {
		return err
	}
	start := time.Now()
	nm := c.Range("messages", 0, 3)
	c.Note("messages", nm)
	_, err = w.SendV2(context.Background(), time.Duration(c.Range("wait ms", 1, 50))*time.Millisecond, transfers(nm, 5)...)
	sent, _ := chain.Snapshot()
	if len(sent) != 1 {
		return fmt.Errorf("highload SendV2 with confirmation: %d payloads sent (error %v)", len(sent), err)
	}
	if err == nil {
		c.Class("reported success")
	} else {
		c.Class("reported error")
	}
	if time.Since(start) > 10*time.Second {
		return fmt.Errorf("took %v", time.Since(start))
	}
	if nm >= 1 {
		c.NonTrivial(hex.EncodeToString(key.Public().(ed25519.PublicKey)), nm)
	}
	return nil
}}

// ---------------------------------------------------------------------------------------------
// mnemonics

func inWordlist(w string) bool {
	for _, x := range wallet.WORDLIST {
		if x == w {
			return true
		}
	}
	return false
}

func agree(phrase string) (accepted bool, err error) {
	want := walletref.MnemonicIsBasicSeed(phrase)
	k1, e1 := wallet.SeedToPrivateKey(phrase)
	k2, e2 := wallet.SeedToPrivateKey(phrase)
	if (e1 == nil) != (e2 == nil) || !bytes.Equal(k1, k2) {
		return false, fmt.Errorf("SeedToPrivateKey(%q) is not deterministic: %x,%v then %x,%v", phrase, k1, e1, k2, e2)
	}
	if want != (e1 == nil) {
		return false, fmt.Errorf("SeedToPrivateKey(%q): error %v, the version check of the mnemonic scheme says valid=%v", phrase, e1, want)
	}
	if e1 == nil {
		rk := walletref.MnemonicToKey(phrase)
		if !bytes.Equal(rk, k1) {
			return false, fmt.Errorf("SeedToPrivateKey(%q) = %x, the mnemonic scheme derives %x", phrase, k1.Seed(), rk.Seed())
		}
		// the key handed out belongs to the caller: wiping it after use changes nothing for the next derivation
		for i := range k1 {
			k1[i] = 0
		}
		for i := range k2 {
			k2[i] = 0xff
		}
		if k3, e3 := wallet.SeedToPrivateKey(phrase); e3 != nil || !bytes.Equal(k3, rk) {
			return false, fmt.Errorf("SeedToPrivateKey(%q) after the caller wiped the keys it got before = %x, %v; the mnemonic scheme derives %x", phrase, k3, e3, rk.Seed())
		}
	}
	return e1 == nil, nil
}

var seedCheck = &core.Check{Name: "c15/seed", Quick: 20, Thorough: 400, Fn: func(c *core.Ctx) error {
	if len(wallet.WORDLIST) != 2048 {
		return fmt.Errorf("word list has %d words", len(wallet.WORDLIST))
	}
	// (a) a phrase found by a deterministic search from a drawn starting point
	sm := core.NewSplitMix(c.U64("search start"))
	nwords := c.OneOf("words", 24, 24, 12, 12, 13, 18)
	c.Class(fmt.Sprintf("phrase of %d words", nwords))
	words := make([]string, nwords)
	for i := range words {
		words[i] = wallet.WORDLIST[sm.Intn(2048)]
	}
	// the search also collects near misses: phrases whose version byte is 1, 2, 128 or 255 instead of 0
	tries := 0
	nearMiss := map[byte]string{}
	for {
		p := strings.Join(words, " ")
		b := walletref.MnemonicVersionByte(p)
		if b == 0 && len(nearMiss) >= 2 {
			break
		}
		if b == 1 || b == 2 || b == 128 || b == 255 {
			nearMiss[b] = p
		}
		words[tries%nwords] = wallet.WORDLIST[sm.Intn(2048)]
		if tries++; tries > 40000 {
			return fmt.Errorf("HARNESS: no valid phrase found in %d tries", tries)
		}
	}
	phrase := strings.Join(words, " ")
	for _, b := range []byte{1, 2, 128, 255} {
		if p, ok := nearMiss[b]; ok {
			okLib, err := agree(p)
			if err != nil {
				return fmt.Errorf("phrase with version byte %d: %v", b, err)
			}
			if okLib {
				return fmt.Errorf("HARNESS: near miss accepted without a report")
			}
			c.Class(fmt.Sprintf("near miss (version byte %d) rejected", b))
		}
	}
	c.Note("phrase", phrase)
	ok, err := agree(phrase)
	if err != nil {
		return err
	}
	if !ok {
		return fmt.Errorf("HARNESS: valid phrase rejected without a report")
	}
	c.Class("valid phrase accepted")
	// (b) neighbours: one word replaced; almost all fail the version check
	for j := 0; j < 6; j++ {
		w2 := append([]string{}, words...)
		w2[c.Intn("pos", nwords)] = wallet.WORDLIST[c.Intn("word", 2048)]
		p2 := strings.Join(w2, " ")
		if p2 == phrase {
			continue
		}
		ok, err := agree(p2)
		if err != nil {
			return err
		}
		if ok {
			c.Class("neighbour phrase valid")
		} else {
			c.Class("neighbour phrase rejected")
		}
	}
	// (c) the library's own generator (its randomness is not replayable; the phrase is noted)
	gen := wallet.RandomSeed()
	c.Note("RandomSeed", gen)
	gw := strings.Split(gen, " ")
	if len(gw) != 24 {
		return fmt.Errorf("RandomSeed() = %q has %d words, want 24", gen, len(gw))
	}
	for _, w := range gw {
		if !inWordlist(w) {
			return fmt.Errorf("RandomSeed() = %q: %q is not in the word list", gen, w)
		}
	}
	ok, err = agree(gen)
	if err != nil {
		return err
	}
	if !ok {
		return fmt.Errorf("RandomSeed() = %q fails the version check of the mnemonic scheme", gen)
	}
	c.NonTrivial(phrase)
	return nil
}}

func TestProp(t *testing.T) {
	t.Run("address", func(t *testing.T) { core.Run(t, addressCheck) })
	t.Run("send", func(t *testing.T) { core.Run(t, sendCheck) })
	t.Run("confirm", func(t *testing.T) { core.Run(t, confirmCheck) })
	t.Run("confirm-highload", func(t *testing.T) { core.Run(t, highloadConfirmCheck) })
	t.Run("seed", func(t *testing.T) { core.Run(t, seedCheck) })
}

func TestEnum(t *testing.T) {
	keys := core.Scale(1, 4)
	core.RunEnum(t, gridCheck, fmt.Sprintf("address through every API: 12 versions x every workchain -128..127 x %d keys, default sub-wallet and network", keys), func(yield func(...uint64) bool) {
		for v := range wtest.Versions {
			for wc := 0; wc < 256; wc++ {
				for k := 0; k < keys; k++ {
					if !yield(uint64(v), uint64(wc), uint64(k)) {
						return
					}
				}
			}
		}
	})
}

func TestReplay(t *testing.T) {
	core.Replay(t, addressCheck, gridCheck, sendCheck, confirmCheck, highloadConfirmCheck, seedCheck, lateConfirmCheck, resendCheck, wideCheck)
}
