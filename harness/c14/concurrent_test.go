package c14

import (
	"bytes"
	"context"
	"crypto/ed25519"
	"fmt"
	"testing"
	"time"

	"github.com/tonkeeper/tongo/wallet"

	"verifharness/internal/core"
	"verifharness/internal/wtest"
)

// c14/concurrent: building and signing a message is a function of key, version, options, seqno, expiry and
// the message list (Ed25519 signatures are deterministic). Every goroutine has wallets of its own; what it
// sends while the others are sending too must be, byte for byte, what the same call produced on a single
// goroutine beforehand (that output is judged by c14/build).
var concurrentCheck = &core.Check{Name: "c14/concurrent", Quick: 1, Thorough: 60, Fn: func(c *core.Ctx) error {
	workers := c.OneOf("goroutines", 2, 4, 8, 16)
	rounds := c.Range("rounds", 10, 60)
	procs := c.OneOf("gomaxprocs", 2, 4, 16)
	const per = 4
	type job struct {
		vp     wtest.VersionPair
		key    ed25519.PrivateKey
		opts   wtest.Opts
		seqno  uint32
		expiry time.Time
		msgs   []reqMsg
		want   []byte
	}
	send := func(j *job) ([]byte, error) {
		chain := &wtest.Chain{State: wtest.StateNone()}
		w, err := wallet.New(j.key, j.vp.Lib, chain, j.opts.Lib...)
		if err != nil {
			return nil, fmt.Errorf("wallet.New: %v", err)
		}
		var raws []wallet.RawMessage
		for i := range j.msgs {
			raws = append(raws, wallet.RawMessage{Message: wtest.MustCell(j.msgs[i].raw), Mode: j.msgs[i].mode})
		}
		if err := w.RawSend(context.Background(), j.seqno, j.expiry, raws, nil); err != nil {
			return nil, fmt.Errorf("RawSend: %v", err)
		}
		sent, _ := chain.Snapshot()
		if len(sent) != 1 {
			return nil, fmt.Errorf("%d payloads sent", len(sent))
		}
		return sent[0], nil
	}
	sets := make([][]*job, workers)
	for w := range sets {
		for k := 0; k < per; k++ {
			j := &job{vp: wtest.SendVersions[c.Choose("version", len(wtest.SendVersions))], key: wtest.DrawKey(c, "key"), opts: wtest.DrawOpts(c),
				seqno: wtest.DrawU32(c, "seqno"), expiry: time.Unix(int64(1700000000+c.Intn("expiry", 1<<30)), 0)}
			r := seedRnd{core.NewSplitMix(c.U64("messages.seed"))}
			for i := c.Range("messages", 0, 4); i > 0; i-- {
				j.msgs = append(j.msgs, drawMsg(r, true))
			}
			want, err := send(j)
			if err != nil {
				return fmt.Errorf("%v %v on one goroutine: %v", j.vp.Ref, j.opts, err)
			}
			again, err := send(j)
			if err != nil || !bytes.Equal(want, again) {
				// highload query ids carry a random part: such versions are not comparable byte for byte
				c.Class("output not deterministic (random query id): skipped")
				k--
				continue
			}
			j.want = want
			sets[w] = append(sets[w], j)
		}
	}
	c.Note("goroutines", workers)
	c.Note("rounds", rounds)
	c.NonTrivial(workers, rounds, procs, sets[0][0].want)
	if err := core.Parallel(workers, rounds, procs, func(w, r int) error {
		j := sets[w][r%per]
		got, err := send(j)
		if err != nil {
			return fmt.Errorf("%v %v: %v (the same send worked on one goroutine)", j.vp.Ref, j.opts, err)
		}
		if !bytes.Equal(got, j.want) {
			return fmt.Errorf("%v %v seqno %d, %d messages: the external message sent is %x, on one goroutine the same send produced %x", j.vp.Ref, j.opts, j.seqno, len(j.msgs), got, j.want)
		}
		return nil
	}); err != nil {
		return err
	}
	// one wallet object used by all goroutines at once (a service holds one wallet and sends from its request
	// handlers): every goroutine sends its own message list, long for the versions that carry long lists, with
	// its own seqno and expiry through the shared object; the payloads that reach the chain are, as a multiset,
	// the ones fresh wallet objects produced for the same requests on one goroutine
	type shared struct {
		vp    wtest.VersionPair
		key   ed25519.PrivateKey
		opts  wtest.Opts
		chain *wtest.Chain
		w     wallet.Wallet
		jobs  []*job // one per goroutine
	}
	var shs []*shared
	for vi := range wtest.SendVersions {
		sh := &shared{vp: wtest.SendVersions[vi], key: wtest.DrawKey(c, "shared.key"), opts: wtest.DrawOpts(c), chain: &wtest.Chain{State: wtest.StateNone()}}
		lib, err := wallet.New(sh.key, sh.vp.Lib, sh.chain, sh.opts.Lib...)
		if err != nil {
			return fmt.Errorf("wallet.New: %v", err)
		}
		sh.w = lib
		n := sh.vp.Ref.MaxMessages()
		if n > 100 {
			n = 100
		}
		deterministic := true
		for w := 0; w < workers && deterministic; w++ {
			j := &job{vp: sh.vp, key: sh.key, opts: sh.opts, seqno: uint32(1000*w + vi), expiry: time.Unix(int64(1700000000+c.Intn("shared.expiry", 1<<30)), 0)}
			r := seedRnd{core.NewSplitMix(c.U64("shared.messages.seed"))}
			for i := 0; i < n; i++ {
				j.msgs = append(j.msgs, drawMsg(r, true))
			}
			want, err := send(j)
			if err != nil {
				return fmt.Errorf("%v %v with %d messages on one goroutine: %v", j.vp.Ref, j.opts, n, err)
			}
			again, err := send(j)
			if err != nil || !bytes.Equal(want, again) {
				deterministic = false
				break
			}
			j.want = want
			sh.jobs = append(sh.jobs, j)
		}
		if deterministic {
			shs = append(shs, sh)
		}
	}
	if len(shs) == 0 {
		return fmt.Errorf("HARNESS: no version with deterministic output")
	}
	c.Class("one wallet object shared by all goroutines")
	sharedRounds := 16 * len(shs)
	if err := core.Parallel(workers, sharedRounds, procs, func(w, r int) error {
		sh := shs[r%len(shs)]
		j := sh.jobs[w]
		var raws []wallet.RawMessage
		for i := range j.msgs {
			raws = append(raws, wallet.RawMessage{Message: wtest.MustCell(j.msgs[i].raw), Mode: j.msgs[i].mode})
		}
		if err := sh.w.RawSend(context.Background(), j.seqno, j.expiry, raws, nil); err != nil {
			return fmt.Errorf("%v %v: RawSend through a wallet object that other goroutines use too: %v (the same send worked through a wallet object of its own)", j.vp.Ref, j.opts, err)
		}
		return nil
	}); err != nil {
		return err
	}
	for _, sh := range shs {
		want := map[string]int{}
		who := map[string]int{}
		for w, j := range sh.jobs {
			want[string(j.want)] += sharedRounds / len(shs)
			who[string(j.want)] = w
		}
		sent, _ := sh.chain.Snapshot()
		for _, p := range sent {
			if want[string(p)] == 0 {
				return fmt.Errorf("%v %v: %d goroutines sent %d messages each through one wallet object; a payload reached the chain that none of them asked for (or more often than asked): %x\nthe requests, sent through wallet objects of their own, produce e.g. %x", sh.vp.Ref, sh.opts, workers, len(sh.jobs[0].msgs), trunc14(p), trunc14(sh.jobs[0].want))
			}
			want[string(p)]--
		}
		for k, n := range want {
			if n != 0 {
				return fmt.Errorf("%v %v: the payload goroutine %d asked for did not reach the chain (%d missing) although every RawSend returned success", sh.vp.Ref, sh.opts, who[k], n)
			}
		}
	}
	return nil
}}

func trunc14(b []byte) []byte {
	if len(b) > 400 {
		return b[:400]
	}
	return b
}

func TestConcurrent(t *testing.T) { core.Run(t, concurrentCheck) }
