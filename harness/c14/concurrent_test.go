package c14

import (
	"bytes"
	"context"
	"crypto/ed25519"
	"fmt"
	"testing"
	"time"

	"github.com/tonkeeper/tongo/wallet"

	"verifharness/internal/core"
	"verifharness/internal/wtest"
)

// c14/concurrent: building and signing a message is a function of key, version, options, seqno, expiry and
// the message list (Ed25519 signatures are deterministic). Every goroutine has wallets of its own; what it
// sends while the others are sending too must be, byte for byte, what the same call produced on a single
// goroutine beforehand (that output is judged by c14/build).
var concurrentCheck = &core.Check{Name: "c14/concurrent", Quick: 1, Thorough: 60, Fn: func(c *core.Ctx) error {
	workers := c.OneOf("goroutines", 2, 4, 8, 16)
	rounds := c.Range("rounds", 10, 60)
	procs := c.OneOf("gomaxprocs", 2, 4, 16)
	const per = 4
	type job struct {
		vp     wtest.VersionPair
		key    ed25519.PrivateKey
		opts   wtest.Opts
		seqno  uint32
		expiry time.Time
		msgs   []reqMsg
		want   []byte
	}
	send := func(j *job) ([]byte, error) {
		chain := &wtest.Chain{State: wtest.StateNone()}
		w, err := wallet.New(j.key, j.vp.Lib, chain, j.opts.Lib...)
		if err != nil {
			return nil, fmt.Errorf("wallet.New: %v", err)
		}
		var raws []wallet.RawMessage
		for i := range j.msgs {
			raws = append(raws, wallet.RawMessage{Message: wtest.MustCell(j.msgs[i].raw), Mode: j.msgs[i].mode})
		}
		if err := w.RawSend(context.Background(), j.seqno, j.expiry, raws, nil); err != nil {
			return nil, fmt.Errorf("RawSend: %v", err)
		}
		sent, _ := chain.Snapshot()
		if len(sent) != 1 {
			return nil, fmt.Errorf("%d payloads sent", len(sent))
		}
		return sent[0], nil
	}
	sets := make([][]*job, workers)
	for w := range sets {
		for k := 0; k < per; k++ {
			j := &job{vp: wtest.SendVersions[c.Choose("version", len(wtest.SendVersions))], key: wtest.DrawKey(c, "key"), opts: wtest.DrawOpts(c),
				seqno: wtest.DrawU32(c, "seqno"), expiry: time.Unix(int64(1700000000+c.Intn("expiry", 1<<30)), 0)}
			r := seedRnd{core.NewSplitMix(c.U64("messages.seed"))}
			for i := c.Range("messages", 0, 4); i > 0; i-- {
				j.msgs = append(j.msgs, drawMsg(r, true))
			}
			want, err := send(j)
			if err != nil {
				return fmt.Errorf("%v %v on one goroutine: %v", j.vp.Ref, j.opts, err)
			}
			again, err := send(j)
			if err != nil || !bytes.Equal(want, again) {
				// highload query ids carry a random part: such versions are not comparable byte for byte
				c.Class("output not deterministic (random query id): skipped")
				k--
				continue
			}
			j.want = want
			sets[w] = append(sets[w], j)
		}
	}
	c.Note("goroutines", workers)
	c.Note("rounds", rounds)
	c.NonTrivial(workers, rounds, procs, sets[0][0].want)
	return core.Parallel(workers, rounds, procs, func(w, r int) error {
		j := sets[w][r%per]
		got, err := send(j)
		if err != nil {
			return fmt.Errorf("%v %v: %v (the same send worked on one goroutine)", j.vp.Ref, j.opts, err)
		}
		if !bytes.Equal(got, j.want) {
			return fmt.Errorf("%v %v seqno %d, %d messages: the external message sent is %x, on one goroutine the same send produced %x", j.vp.Ref, j.opts, j.seqno, len(j.msgs), got, j.want)
		}
		return nil
	})
}}

func TestConcurrent(t *testing.T) { core.Run(t, concurrentCheck) }
