// C14 — wallet-built messages carry the requested transfers under a valid signature.
//
// Oracle: internal/walletref (TL-B writers/readers and the wallet body layouts, written from the schema and
// the contracts' documented formats), the reference cell hasher and crypto/ed25519 from the standard library.
package c14

import (
	"bytes"
	"context"
	"crypto/ed25519"
	"encoding/hex"
	"fmt"
	"math/big"
	"testing"
	"time"

	"github.com/tonkeeper/tongo/boc"
	"github.com/tonkeeper/tongo/tlb"
	"github.com/tonkeeper/tongo/ton"
	"github.com/tonkeeper/tongo/wallet"

	"verifharness/internal/core"
	"verifharness/internal/gen"
	"verifharness/internal/ref"
	"verifharness/internal/walletref"
	"verifharness/internal/wtest"
)

func TestMain(m *testing.M) { core.Main(m, "C14") }

// ---------------------------------------------------------------------------------------------
// requested messages

const (
	kindSimple  = 0 // wallet.SimpleTransfer
	kindMessage = 1 // wallet.Message
	kindRaw     = 2 // wallet.RawMessage holding a harness-built cell
)

type reqMsg struct {
	kind    int
	dest    walletref.Addr
	amount  uint64
	bounce  bool
	comment []byte
	body    *ref.RCell // kindMessage: nil = no body
	code    *ref.RCell // kindMessage: both or none
	data    *ref.RCell
	mode    uint8
	raw     *ref.RCell // kindRaw
}

func (m *reqMsg) special() bool { return m.code != nil || len(m.comment) > 123 }

func (m *reqMsg) describe() string {
	switch m.kind {
	case kindSimple:
		return fmt.Sprintf("SimpleTransfer{to %v amount %d bounce %v comment %d bytes}", m.dest, m.amount, m.bounce, len(m.comment))
	case kindMessage:
		return fmt.Sprintf("Message{to %v amount %d bounce %v mode %d body %v init %v}", m.dest, m.amount, m.bounce, m.mode, m.body != nil, m.code != nil)
	}
	return fmt.Sprintf("RawMessage{mode %d cell %x}", m.mode, m.raw.ReprHash()[:6])
}

func (m *reqMsg) sendable() wallet.Sendable { return m.sendableSharing(nil) }

// sendableSharing builds the Sendable; with a non-nil table, requests holding the same reference cell (same
// *ref.RCell) get the same *boc.Cell object: a caller who built a payload once and puts it into several messages.
func (m *reqMsg) sendableSharing(shared map[*ref.RCell]*boc.Cell) wallet.Sendable {
	cell := func(r *ref.RCell) *boc.Cell {
		if shared == nil {
			return wtest.MustCell(r)
		}
		if c, ok := shared[r]; ok {
			return c
		}
		c := wtest.MustCell(r)
		shared[r] = c
		return c
	}
	to := ton.AccountID{Workchain: int32(m.dest.Workchain), Address: m.dest.Hash}
	if m.kind == kindSimple {
		return wallet.SimpleTransfer{Amount: tlb.Grams(m.amount), Address: to, Comment: string(m.comment), Bounceable: m.bounce}
	}
	x := wallet.Message{Amount: tlb.Grams(m.amount), Address: to, Bounce: m.bounce, Mode: m.mode}
	if m.body != nil {
		x.Body = cell(m.body)
	}
	if m.code != nil {
		x.Code, x.Data = cell(m.code), cell(m.data)
	}
	return x
}

// rnd abstracts over "drawn through the Ctx" and "expanded from one drawn seed" (used for the bodies with
// 100..255 messages, which would otherwise need tens of thousands of draws).
type rnd interface {
	intn(label string, n int) int
	u64(label string) uint64
	bytes(label string, n int) []byte
}

type ctxRnd struct{ c *core.Ctx }

func (r ctxRnd) intn(l string, n int) int     { return r.c.Intn(l, n) }
func (r ctxRnd) u64(l string) uint64          { return r.c.U64(l) }
func (r ctxRnd) bytes(l string, n int) []byte { return r.c.Content(l, n) }

type seedRnd struct{ m *core.SplitMix }

func (r seedRnd) intn(l string, n int) int { return r.m.Intn(n) }
func (r seedRnd) u64(l string) uint64      { return r.m.Next() }
func (r seedRnd) bytes(l string, n int) []byte {
	b := make([]byte, n)
	r.m.Fill(b)
	return b
}

var amountBoundaries = []uint64{0, 1, 255, 256, 65535, 1 << 32, 1<<56 - 1, 1 << 56, 1<<63 - 1, 1 << 63, 1<<64 - 1}

func drawAmount(r rnd) uint64 {
	switch r.intn("amount.k", 3) {
	case 0:
		return amountBoundaries[r.intn("amount.b", len(amountBoundaries))]
	case 1:
		return uint64(r.intn("amount.s", 2000000000))
	}
	return r.u64("amount.v")
}

func drawAddr(r rnd) walletref.Addr {
	wc := int8(0)
	switch r.intn("dest.wc.k", 4) {
	case 1:
		wc = -1
	case 2:
		wc = int8(r.intn("dest.wc", 256) - 128)
	}
	return walletref.StdAddr(wc, r.bytes("dest.hash", 32))
}

func bitsFrom(raw []byte, n int) ref.Bits { return ref.BitsFromBytes(raw, n) }

// smallCell draws an arbitrary small ordinary cell: 0..maxBits bits and 0..maxRefs leaf children.
func smallCell(r rnd, label string, maxBits, maxRefs int) *ref.RCell {
	n := r.intn(label+".len", maxBits+1)
	b := walletref.NewBuilder().Append(bitsFrom(r.bytes(label+".bits", (n+7)/8), n))
	for k := r.intn(label+".refs", maxRefs+1); k > 0; k-- {
		ln := r.intn(label+".leaf.len", 65)
		b.Ref(walletref.NewBuilder().Append(bitsFrom(r.bytes(label+".leaf", (ln+7)/8), ln)).Cell())
	}
	return b.Cell()
}

var commentLens = []int{1, 2, 100, 122, 123, 124, 125, 126, 127, 128, 246, 247, 248, 249, 250, 251, 370, 371, 372, 373, 374, 375, 599, 600}

func drawComment(r rnd) []byte {
	n := 0
	switch r.intn("comment.k", 5) {
	case 0:
	case 1, 2:
		n = 1 + r.intn("comment.short", 60)
	case 3:
		n = commentLens[r.intn("comment.b", len(commentLens))]
	default:
		n = r.intn("comment.len", 601)
	}
	if n == 0 {
		return nil
	}
	raw := r.bytes("comment.bytes", n)
	if r.intn("comment.ascii", 3) != 0 {
		for i := range raw {
			raw[i] = 32 + raw[i]%95
		}
	}
	return raw
}

// drawRawCell: an internal message written by the reference with arbitrary Either choices, or any cell at all
// (the wallet contract would reject it, the library is not asked to look inside).
func drawRawCell(r rnd) *ref.RCell {
	if r.intn("raw.k", 5) == 0 {
		return smallCell(r, "raw.any", 300, 3)
	}
	m := &walletref.Msg{Kind: walletref.KindInt, IhrDisabled: r.intn("raw.ihr", 2) == 1, Bounce: r.intn("raw.bounce", 2) == 1,
		Src: walletref.Addr{None: true}, Dest: drawAddr(r), Value: new(big.Int).SetUint64(drawAmount(r))}
	if r.intn("raw.init", 4) == 0 {
		m.Init = &walletref.StateInit{Code: smallCell(r, "raw.code", 80, 1), Data: smallCell(r, "raw.data", 80, 1)}
		m.InitInRef = r.intn("raw.init.ref", 2) == 1
	}
	if r.intn("raw.body", 3) != 0 {
		m.Body = walletref.SliceOf(smallCell(r, "raw.bodycell", 300, 2))
		m.BodyInRef = r.intn("raw.body.ref", 2) == 1
	}
	return m.Cell()
}

func drawMsg(r rnd, raw bool) reqMsg {
	if raw {
		return reqMsg{kind: kindRaw, raw: drawRawCell(r), mode: uint8(drawMode(r))}
	}
	if r.intn("msg.kind", 2) == 0 {
		return reqMsg{kind: kindSimple, dest: drawAddr(r), amount: drawAmount(r), bounce: r.intn("bounce", 2) == 1,
			comment: drawComment(r), mode: wallet.DefaultMessageMode}
	}
	m := reqMsg{kind: kindMessage, dest: drawAddr(r), amount: drawAmount(r), bounce: r.intn("bounce", 2) == 1, mode: uint8(drawMode(r))}
	if r.intn("msg.body", 3) != 0 {
		m.body = smallCell(r, "msg.bodycell", 400, 3)
	}
	if r.intn("msg.init", 3) == 0 {
		m.code, m.data = smallCell(r, "msg.code", 100, 2), smallCell(r, "msg.data", 100, 2)
	}
	return m
}

func drawMode(r rnd) int {
	if r.intn("mode.k", 3) == 0 {
		b := []int{0, 1, 2, 3, 32, 64, 128, 130, 160, 255}
		return b[r.intn("mode.b", len(b))]
	}
	return r.intn("mode", 256)
}

// checkSemantics compares a message cell the wallet produced for a Sendable with the request.
func (m *reqMsg) checkSemantics(cell *ref.RCell) error {
	pm, err := walletref.ParseMessage(cell)
	if err != nil {
		return fmt.Errorf("does not parse as a message: %v", err)
	}
	if pm.Kind != walletref.KindInt {
		return fmt.Errorf("is not an internal message (kind %d)", pm.Kind)
	}
	if pm.Dest != m.dest {
		return fmt.Errorf("destination %v, requested %v", pm.Dest, m.dest)
	}
	if want := new(big.Int).SetUint64(m.amount); pm.Value.Cmp(want) != 0 {
		return fmt.Errorf("amount %v, requested %v", pm.Value, want)
	}
	if pm.Extra != nil {
		return fmt.Errorf("extra currencies present, none requested")
	}
	if pm.Bounce != m.bounce {
		return fmt.Errorf("bounce flag %v, requested %v", pm.Bounce, m.bounce)
	}
	switch {
	case m.code != nil:
		if pm.Init == nil {
			return fmt.Errorf("state-init missing")
		}
		if pm.Init.Code == nil || pm.Init.Data == nil || pm.Init.Code.Key() != m.code.Key() || pm.Init.Data.Key() != m.data.Key() {
			return fmt.Errorf("state-init code/data differ from the requested cells")
		}
		if pm.Init.HasSplit || pm.Init.HasSpecial || pm.Init.Library != nil {
			return fmt.Errorf("state-init has fields nobody asked for")
		}
	case pm.Init != nil:
		return fmt.Errorf("state-init attached, none requested")
	}
	switch m.kind {
	case kindSimple:
		if len(m.comment) == 0 {
			if len(pm.Body.Bits) != 0 || len(pm.Body.Refs) != 0 {
				return fmt.Errorf("body %v for a transfer without comment", pm.Body)
			}
			break
		}
		text, ok := walletref.ReadTextComment(pm.Body)
		if !ok {
			return fmt.Errorf("body %v is not a text comment", pm.Body)
		}
		if !bytes.Equal(text, m.comment) {
			return fmt.Errorf("comment %q, requested %q", text, m.comment)
		}
	case kindMessage:
		want := walletref.Slice{}
		if m.body != nil {
			want = walletref.SliceOf(m.body)
		}
		if !pm.Body.Equal(want) {
			return fmt.Errorf("body %v, requested %v", pm.Body, want)
		}
	}
	return nil
}

// ---------------------------------------------------------------------------------------------
// the environment of one case

type env struct {
	c     *core.Ctx
	vp    wtest.VersionPair
	key   ed25519.PrivateKey
	pub   ed25519.PublicKey
	other ed25519.PublicKey
	opts  wtest.Opts
	ids   walletref.IDs
	addr  walletref.Addr
	w     wallet.Wallet
	chain *wtest.Chain
}

func newEnv(c *core.Ctx, vp wtest.VersionPair, key ed25519.PrivateKey, opts wtest.Opts) (*env, error) {
	e := &env{c: c, vp: vp, key: key, pub: key.Public().(ed25519.PublicKey), opts: opts, chain: &wtest.Chain{State: wtest.StateNone()}}
	e.other = wtest.OtherKey(key, 3).Public().(ed25519.PublicKey)
	e.ids = walletref.ResolveIDs(vp.Ref, opts.Ref)
	e.addr = walletref.Address(vp.Ref, e.pub, opts.Ref)
	w, err := wallet.New(key, vp.Lib, e.chain, opts.Lib...)
	if err != nil {
		return nil, fmt.Errorf("wallet.New(%v, %v): %v", vp.Ref, opts, err)
	}
	e.w = w
	return e, nil
}

func (e *env) fam() walletref.Family { return e.vp.Ref.Family() }
func (e *env) isV5() bool {
	return e.fam() == walletref.FamV5Beta || e.fam() == walletref.FamV5R1
}

// wrap puts a body into an external message to the wallet the way the reference writes it.
func (e *env) wrap(body walletref.Slice) *ref.RCell {
	return (&walletref.Msg{Kind: walletref.KindExtIn, Src: walletref.Addr{None: true}, Dest: e.addr, Body: body, BodyInRef: true}).Cell()
}

func parseOne(data []byte) (*boc.Cell, error) {
	roots, err := boc.DeserializeBoc(data)
	if err != nil {
		return nil, err
	}
	if len(roots) != 1 {
		return nil, fmt.Errorf("%d roots", len(roots))
	}
	return roots[0], nil
}

// expectation for one built body
type expect struct {
	seqno      uint32
	checkSeqno bool
	vuLo, vuHi uint32 // admissible expiry values (inclusive; a single value when equal)
	opcode     uint32
	msgs       []reqMsg
}

func tongoCellOf(bits ref.Bits, refs []*boc.Cell) (*boc.Cell, error) {
	c := boc.NewCell()
	if err := c.WriteBitString(gen.BitString(bits)); err != nil {
		return nil, err
	}
	for _, r := range refs {
		if err := c.AddRef(r); err != nil {
			return nil, err
		}
	}
	return c, nil
}

// libVerifyBody runs the library's body-level signature check on a body given as bits + tongo refs.
func (e *env) libVerifyBody(bits ref.Bits, refs []*boc.Cell, pub ed25519.PublicKey) error {
	cell, err := tongoCellOf(bits, refs)
	if err != nil {
		return fmt.Errorf("HARNESS: %v", err)
	}
	if e.isV5() {
		return wallet.MessageV5VerifySignature(*cell, pub)
	}
	var sb wallet.SignedMsgBody
	if err := tlb.Unmarshal(cell, &sb); err != nil {
		return err
	}
	return sb.Verify(pub)
}

func verifySignatureSupported(v walletref.Version) bool { return v != walletref.V5Beta }

// libVerifyMessage runs wallet.VerifySignature on an external message carrying the body.
func (e *env) libVerifyMessage(body walletref.Slice, pub ed25519.PublicKey) error {
	data := ref.SerializeBOC([]*ref.RCell{e.wrap(body)}, ref.BocVariant{})
	cell, err := parseOne(data)
	if err != nil {
		return fmt.Errorf("HARNESS: tongo rejects a reference-written message: %v", err)
	}
	return wallet.VerifySignature(e.vp.Lib, cell, pub)
}

func flipBit(b ref.Bits, i int) ref.Bits {
	out := b.Clone()
	out[i] = !out[i]
	return out
}

// flipInside returns a copy of cell r with one data bit flipped somewhere in its tree (nil when the tree
// holds no data bit at all).
func flipInside(r *ref.RCell, pick uint64) *ref.RCell {
	if r.BitLen > 0 && (len(r.Refs) == 0 || pick%3 != 0) {
		return ref.NewRCell(flipBit(r.Bits(), int(pick>>8)%r.BitLen), r.Special, r.Refs...)
	}
	for i := range r.Refs {
		k := (int(pick>>4) + i) % len(r.Refs)
		if f := flipInside(r.Refs[k], pick>>3|1); f != nil {
			refs := append([]*ref.RCell{}, r.Refs...)
			refs[k] = f
			return ref.NewRCell(r.Bits(), r.Special, refs...)
		}
	}
	if r.BitLen > 0 {
		return ref.NewRCell(flipBit(r.Bits(), int(pick>>8)%r.BitLen), r.Special, r.Refs...)
	}
	return nil
}

// checkSignature: independent verification plus the library's verifiers on the original, on another key and
// on single-bit changes. exhaustive: every bit position of the body; otherwise all positions of short signed
// parts and a sample elsewhere.
func (e *env) checkSignature(body walletref.Slice, flipSeed uint64, exhaustive bool) (signed *ref.RCell, err error) {
	signed, sig, err := walletref.SplitSignedBody(e.vp.Ref, body)
	if err != nil {
		return nil, err
	}
	h := signed.ReprHash()
	if !ed25519.Verify(e.pub, h, sig) {
		return nil, fmt.Errorf("signature %x does not verify over the reference hash %x of the signed cell with the wallet key", sig, h)
	}
	if ed25519.Verify(e.other, h, sig) {
		return nil, fmt.Errorf("signature verifies with an unrelated key")
	}
	refsT := make([]*boc.Cell, len(body.Refs))
	for i, r := range body.Refs {
		refsT[i] = wtest.MustCell(r)
	}
	if err := e.libVerifyBody(body.Bits, refsT, e.pub); err != nil {
		return nil, fmt.Errorf("library body-level verification rejects the wallet's own key: %v", err)
	}
	if err := e.libVerifyBody(body.Bits, refsT, e.other); err == nil {
		return nil, fmt.Errorf("library body-level verification accepts another key")
	}
	msgLevel := verifySignatureSupported(e.vp.Ref)
	if msgLevel {
		if err := e.libVerifyMessage(body, e.pub); err != nil {
			return nil, fmt.Errorf("VerifySignature rejects the wallet's own key: %v", err)
		}
		if err := e.libVerifyMessage(body, e.other); err == nil {
			return nil, fmt.Errorf("VerifySignature accepts another key")
		}
	} else if err := wallet.VerifySignature(e.vp.Lib, wtest.MustCell(e.wrap(body)), e.pub); err == nil {
		e.c.Class("VerifySignature now supports v5 beta")
	}

	// single-bit changes
	n := len(body.Bits)
	sigLo, sigHi := 0, 512 // signature position inside the body bits
	if e.isV5() {
		sigLo, sigHi = n-512, n
	}
	sm := core.NewSplitMix(flipSeed)
	var positions []int
	switch {
	case exhaustive:
		for i := 0; i < n; i++ {
			positions = append(positions, i)
		}
	default:
		contentBits := n - 512
		if contentBits <= 140 {
			for i := 0; i < n; i++ {
				if i < sigLo || i >= sigHi {
					positions = append(positions, i)
				}
			}
		} else {
			for k := 0; k < 64; k++ {
				i := sm.Intn(contentBits)
				if !e.isV5() {
					i += 512
				}
				positions = append(positions, i)
			}
		}
		// signature: first and last bit of R and S and a sample
		for _, o := range []int{0, 255, 256, 511} {
			positions = append(positions, sigLo+o)
		}
		for k := 0; k < 20; k++ {
			positions = append(positions, sigLo+sm.Intn(512))
		}
	}
	for _, i := range positions {
		if err := e.libVerifyBody(flipBit(body.Bits, i), refsT, e.pub); err == nil {
			what := "signed bits"
			if i >= sigLo && i < sigHi {
				what = "signature"
			}
			return nil, fmt.Errorf("body with bit %d (%s) flipped still verifies at body level", i, what)
		}
	}
	// a bit inside a referenced cell
	flips := 2
	if exhaustive {
		flips = 12
	}
	for k := 0; k < flips && len(body.Refs) > 0; k++ {
		pick := sm.Next()
		j := int(pick % uint64(len(body.Refs)))
		f := flipInside(body.Refs[j], pick>>7)
		if f == nil {
			continue
		}
		mod := append([]*boc.Cell{}, refsT...)
		mod[j] = wtest.MustCell(f)
		if err := e.libVerifyBody(body.Bits, mod, e.pub); err == nil {
			return nil, fmt.Errorf("body with a bit flipped inside referenced cell %d still verifies", j)
		}
		if msgLevel && k == 0 {
			refs := append([]*ref.RCell{}, body.Refs...)
			refs[j] = f
			if err := e.libVerifyMessage(walletref.Slice{Bits: body.Bits, Refs: refs}, e.pub); err == nil {
				return nil, fmt.Errorf("VerifySignature accepts a message with a bit flipped inside referenced cell %d", j)
			}
		}
	}
	if msgLevel {
		k := 3
		if exhaustive {
			k = 40
		}
		for ; k > 0; k-- {
			i := sm.Intn(n)
			if err := e.libVerifyMessage(walletref.Slice{Bits: flipBit(body.Bits, i), Refs: body.Refs}, e.pub); err == nil {
				return nil, fmt.Errorf("VerifySignature accepts a message whose body bit %d is flipped", i)
			}
		}
	}
	return signed, nil
}

func sameU80(got tlb.Bits80, ids walletref.IDs) bool {
	want := walletref.NewBuilder().I(int64(ids.NetworkID), 32).I(int64(ids.Workchain), 8).U(0, 8).U(uint64(ids.SubWallet), 32).Bits.Packed()
	return bytes.Equal(got[:], want)
}

// checkContent: reference decoding of the signed cell against the request, exact layout against the
// documented format, then the library's decoders against the same expectation.
func (e *env) checkContent(signed *ref.RCell, body walletref.Slice, x expect) error {
	c, v := e.c, e.vp.Ref
	dec, err := walletref.DecodeBody(v, signed)
	if err != nil {
		if e.fam() == walletref.FamHighloadV2 && len(x.msgs) == 0 && len(signed.Refs) == 1 && signed.Refs[0].BitLen == 0 &&
			c.Known("C14-highload-zero-messages") {
			return nil
		}
		return fmt.Errorf("signed cell %s does not follow the documented %v body layout: %v", signed.Bits().FiftHex(), v, err)
	}
	inWindow := func(vu uint32) bool { return vu >= x.vuLo && vu <= x.vuHi }
	// identity and replay-protection fields
	switch e.fam() {
	case walletref.FamV3, walletref.FamV4, walletref.FamHighloadV2:
		if dec.SubWallet != e.ids.SubWallet {
			return fmt.Errorf("sub-wallet id in the body %d, expected %d for %v", dec.SubWallet, e.ids.SubWallet, e.opts)
		}
		if dec.OpV4 != 0 {
			return fmt.Errorf("v4 op %d, expected 0 (simple send)", dec.OpV4)
		}
	case walletref.FamV5Beta:
		if dec.NetworkID != e.ids.NetworkID || dec.Workchain != e.ids.Workchain || dec.VersionV5 != 0 || dec.SubWallet != e.ids.SubWallet {
			return fmt.Errorf("v5 beta wallet id (network %d workchain %d version %d subwallet %d), expected (%d %d 0 %d)",
				dec.NetworkID, dec.Workchain, dec.VersionV5, dec.SubWallet, e.ids.NetworkID, e.ids.Workchain, e.ids.SubWallet)
		}
	case walletref.FamV5R1:
		if dec.WalletID != e.ids.WalletID {
			return fmt.Errorf("v5r1 wallet id %d, expected %d for %v", dec.WalletID, e.ids.WalletID, e.opts)
		}
	}
	if e.isV5() && dec.Opcode != x.opcode {
		return fmt.Errorf("v5 opcode %08x, expected %08x", dec.Opcode, x.opcode)
	}
	if !inWindow(dec.ValidUntil) {
		return fmt.Errorf("expiry %d, requested %d..%d", dec.ValidUntil, x.vuLo, x.vuHi)
	}
	if x.checkSeqno && e.fam() != walletref.FamHighloadV2 && dec.Seqno != x.seqno {
		return fmt.Errorf("seqno %d, requested %d", dec.Seqno, x.seqno)
	}
	// messages
	if len(dec.Msgs) != len(x.msgs) {
		return fmt.Errorf("%d messages in the signed cell, %d requested", len(dec.Msgs), len(x.msgs))
	}
	n := len(x.msgs)
	match := func(reverse bool) error {
		for i := range x.msgs {
			got := dec.Msgs[i]
			if reverse {
				got = dec.Msgs[n-1-i]
			}
			if got.Mode != x.msgs[i].mode {
				return fmt.Errorf("message %d: mode %d, requested %d", i, got.Mode, x.msgs[i].mode)
			}
			if x.msgs[i].kind == kindRaw {
				if got.Msg.Key() != x.msgs[i].raw.Key() {
					return fmt.Errorf("message %d: cell %x, requested cell %x", i, got.Msg.ReprHash(), x.msgs[i].raw.ReprHash())
				}
			} else if err := x.msgs[i].checkSemantics(got.Msg); err != nil {
				return fmt.Errorf("message %d (%s): %v", i, x.msgs[i].describe(), err)
			}
		}
		return nil
	}
	// inRequestOrder[i] = the cell carrying request i
	inRequestOrder := append([]walletref.OutMsg{}, dec.Msgs...)
	if err := match(false); err != nil {
		if !e.isV5() || n < 2 || match(true) != nil {
			return err
		}
		inRequestOrder = nil
		for i := n - 1; i >= 0; i-- {
			inRequestOrder = append(inRequestOrder, dec.Msgs[i])
		}
	}
	// exact layout
	if e.fam() == walletref.FamHighloadV2 {
		if canon := walletref.HighloadSigningCell(e.ids, dec.QueryID, inRequestOrder); canon.Key() == signed.Key() {
			c.Class("highload: canonical dictionary, keys 0..n-1")
		} else {
			c.Class("highload: dictionary labels valid but not in the shortest (canonical) form")
		}
	} else {
		cands, err := walletref.SigningCells(v, e.ids, walletref.BodyParams{Seqno: dec.Seqno, ValidUntil: dec.ValidUntil, OpcodeV5: dec.Opcode, Msgs: inRequestOrder})
		if err != nil {
			return err
		}
		hit := -1
		for i, cd := range cands {
			if cd.Cell.Key() == signed.Key() {
				hit = i
				break
			}
		}
		if hit < 0 {
			return fmt.Errorf("signed cell %s (+%d refs) is none of the %d layouts the documented format admits (e.g. %s)",
				signed.Bits().FiftHex(), len(signed.Refs), len(cands), cands[0].Cell.Bits().FiftHex())
		}
		if cands[hit].Note != "" {
			c.Class("v5 list: " + cands[hit].Note)
		}
	}

	// the library's decoders
	msgBoc := ref.SerializeBOC([]*ref.RCell{e.wrap(body)}, ref.BocVariant{})
	fresh := func() *boc.Cell {
		cell, err := parseOne(msgBoc)
		if err != nil {
			panic("HARNESS: tongo rejects a reference-written message: " + err.Error())
		}
		return cell
	}
	sameRaw := func(what string, raws []wallet.RawMessage) error {
		if len(raws) != n {
			return fmt.Errorf("%s returns %d messages, %d requested", what, len(raws), n)
		}
		for i, rm := range raws {
			if rm.Message == nil {
				return fmt.Errorf("%s: message %d is nil", what, i)
			}
			img, err := wtest.FromCell(rm.Message)
			if err != nil {
				return fmt.Errorf("%s: message %d: %v", what, i, err)
			}
			if img.Key() != inRequestOrder[i].Msg.Key() {
				return fmt.Errorf("%s: message %d is cell %x, the %d-th requested message is cell %x (order or content changed)",
					what, i, img.ReprHash(), i, inRequestOrder[i].Msg.ReprHash())
			}
			if rm.Mode != x.msgs[i].mode {
				return fmt.Errorf("%s: message %d has mode %d, requested %d", what, i, rm.Mode, x.msgs[i].mode)
			}
		}
		return nil
	}
	raws, err := wallet.ExtractRawMessages(e.vp.Lib, fresh())
	if err != nil {
		return fmt.Errorf("ExtractRawMessages: %v", err)
	}
	if err := sameRaw("ExtractRawMessages", raws); err != nil {
		return err
	}
	hdr := func(what string, sub uint32, vu uint32, seq uint32) error {
		if sub != e.ids.SubWallet {
			return fmt.Errorf("%s: sub-wallet id %d, expected %d", what, sub, e.ids.SubWallet)
		}
		if vu != dec.ValidUntil {
			return fmt.Errorf("%s: expiry %d, the body holds %d", what, vu, dec.ValidUntil)
		}
		if x.checkSeqno && seq != x.seqno {
			return fmt.Errorf("%s: seqno %d, requested %d", what, seq, x.seqno)
		}
		return nil
	}
	switch e.fam() {
	case walletref.FamV3:
		d, err := wallet.DecodeMessageV3(fresh())
		if err != nil {
			return fmt.Errorf("DecodeMessageV3: %v", err)
		}
		if err := hdr("DecodeMessageV3", d.SubWalletId, d.ValidUntil, d.Seqno); err != nil {
			return err
		}
		return sameRaw("DecodeMessageV3", d.RawMessages)
	case walletref.FamV4:
		d, err := wallet.DecodeMessageV4(fresh())
		if err != nil {
			return fmt.Errorf("DecodeMessageV4: %v", err)
		}
		if d.Op != 0 {
			return fmt.Errorf("DecodeMessageV4: op %d", d.Op)
		}
		if err := hdr("DecodeMessageV4", d.SubWalletId, d.ValidUntil, d.Seqno); err != nil {
			return err
		}
		return sameRaw("DecodeMessageV4", d.RawMessages)
	case walletref.FamHighloadV2:
		d, err := wallet.DecodeHighloadV2Message(fresh())
		if err != nil {
			return fmt.Errorf("DecodeHighloadV2Message: %v", err)
		}
		if d.SubWalletId != e.ids.SubWallet {
			return fmt.Errorf("DecodeHighloadV2Message: sub-wallet id %d, expected %d", d.SubWalletId, e.ids.SubWallet)
		}
		if d.BoundedQueryID != dec.QueryID || !inWindow(uint32(d.BoundedQueryID>>32)) {
			return fmt.Errorf("DecodeHighloadV2Message: query id %016x, body holds %016x, expiry requested %d..%d", d.BoundedQueryID, dec.QueryID, x.vuLo, x.vuHi)
		}
		return sameRaw("DecodeHighloadV2Message", d.RawMessages)
	case walletref.FamV5Beta:
		d, err := wallet.DecodeMessageV5Beta(fresh())
		if err != nil {
			return fmt.Errorf("DecodeMessageV5Beta: %v", err)
		}
		var id tlb.Bits80
		var vu, seq uint32
		switch {
		case x.opcode == walletref.OpV5SignedExternal && d.SumType == "SignedExternal":
			id, vu, seq = d.SignedExternal.WalletId, d.SignedExternal.ValidUntil, d.SignedExternal.Seqno
		case x.opcode == walletref.OpV5SignedInternal && d.SumType == "SignedInternal":
			id, vu, seq = d.SignedInternal.WalletId, d.SignedInternal.ValidUntil, d.SignedInternal.Seqno
		default:
			return fmt.Errorf("DecodeMessageV5Beta: variant %q for opcode %08x", d.SumType, x.opcode)
		}
		if !sameU80(id, e.ids) {
			return fmt.Errorf("DecodeMessageV5Beta: wallet id %x, expected network %d workchain %d subwallet %d", id[:], e.ids.NetworkID, e.ids.Workchain, e.ids.SubWallet)
		}
		if vu != dec.ValidUntil || (x.checkSeqno && seq != x.seqno) {
			return fmt.Errorf("DecodeMessageV5Beta: expiry %d seqno %d, expected %d %d", vu, seq, dec.ValidUntil, x.seqno)
		}
		return sameRaw("DecodeMessageV5Beta", d.RawMessages())
	case walletref.FamV5R1:
		d, err := wallet.DecodeMessageV5(fresh())
		if err != nil {
			return fmt.Errorf("DecodeMessageV5: %v", err)
		}
		var id, vu, seq uint32
		switch {
		case x.opcode == walletref.OpV5SignedExternal && d.SumType == "SignedExternal" && d.SignedExternal != nil:
			id, vu, seq = d.SignedExternal.WalletId, d.SignedExternal.ValidUntil, d.SignedExternal.Seqno
		case x.opcode == walletref.OpV5SignedInternal && d.SumType == "SignedInternal" && d.SignedInternal != nil:
			id, vu, seq = d.SignedInternal.WalletId, d.SignedInternal.ValidUntil, d.SignedInternal.Seqno
		default:
			return fmt.Errorf("DecodeMessageV5: variant %q for opcode %08x", d.SumType, x.opcode)
		}
		if id != e.ids.WalletID {
			return fmt.Errorf("DecodeMessageV5: wallet id %d, expected %d", id, e.ids.WalletID)
		}
		if vu != dec.ValidUntil || (x.checkSeqno && seq != x.seqno) {
			return fmt.Errorf("DecodeMessageV5: expiry %d seqno %d, expected %d %d", vu, seq, dec.ValidUntil, x.seqno)
		}
		return sameRaw("DecodeMessageV5", d.RawMessages())
	}
	return nil
}

// checkExternal: the captured payload is ONE external-in message to the wallet's own address. Returns its body.
func (e *env) checkExternal(payload []byte) (*walletref.Msg, error) {
	roots, err := ref.ParseBOC(payload)
	if err != nil {
		return nil, fmt.Errorf("payload %x is not a well-formed bag of cells: %v", payload, err)
	}
	if len(roots) != 1 {
		return nil, fmt.Errorf("payload has %d roots, want one message", len(roots))
	}
	troot, err := parseOne(payload)
	if err != nil {
		return nil, fmt.Errorf("the library cannot read the payload it sent: %v", err)
	}
	if err := gen.SameCell(troot, roots[0]); err != nil {
		return nil, fmt.Errorf("library and reference read the payload differently: %v", err)
	}
	m, err := walletref.ParseMessage(roots[0])
	if err != nil {
		return nil, fmt.Errorf("payload root %s does not parse as a message: %v", roots[0].Bits().FiftHex(), err)
	}
	if m.Kind != walletref.KindExtIn {
		return nil, fmt.Errorf("payload is not an external-in message (kind %d)", m.Kind)
	}
	if !m.Src.None {
		return nil, fmt.Errorf("external message has source %v", m.Src)
	}
	if m.Dest != e.addr {
		return nil, fmt.Errorf("external message is addressed to %v, the wallet's address (reference) is %v", m.Dest, e.addr)
	}
	return m, nil
}

// ---------------------------------------------------------------------------------------------
// the main check

const (
	pathRawSend = iota
	pathRawSendInit
	pathSend
	pathSendV2
	pathCreateBody
	numPaths
)

var pathNames = [...]string{"RawSend", "RawSend with init", "Send", "SendV2(no wait)", "CreateMessageBody"}

var buildCheck = &core.Check{Name: "c14/build", Quick: 1400, Thorough: 60000, Fn: func(c *core.Ctx) error {
	if err := walletref.CheckCodes(); err != nil {
		return fmt.Errorf("HARNESS-SELF-CHECK: %v", err)
	}
	vp := wtest.SendVersions[c.Choose("version", len(wtest.SendVersions))]
	key := wtest.DrawKey(c, "key")
	opts := wtest.DrawOpts(c)
	seqno := wtest.DrawU32(c, "seqno")
	validUntil := wtest.DrawU32(c, "valid_until")
	path := c.Weighted("path", 4, 2, 3, 2, 3)
	max := vp.Ref.MaxMessages()
	// number of messages: 0, 1, a few, the limit, one over the limit, many (slow, low weight)
	var n int
	over := false
	switch c.Weighted("count.k", 2, 5, 6, 3, 2, 1) {
	case 0:
		n = 0
	case 1:
		n = 1
	case 2:
		n = c.Range("count", 2, 4)
	case 3:
		n = max
		if max > 4 { // the limit of the big versions belongs to the slow class; here: a medium count
			n = c.Range("count.medium", 5, 24)
		}
	case 4:
		n, over = max+1, true
	default:
		if max > 4 {
			n = c.Range("count.large", 100, max)
			if c.Intn("count.atmax", 3) == 0 {
				n = max
			}
		} else {
			n = max
		}
	}
	c.Note("version", vp.Ref.String())
	c.Note("options", opts.String())
	c.Note("path", pathNames[path])
	c.Note("messages", n)
	c.Class(vp.Ref.String())
	c.Class("path: " + pathNames[path])

	e, err := newEnv(c, vp, key, opts)
	if err != nil {
		return err
	}
	rawPath := path == pathRawSend || path == pathRawSendInit
	var r rnd = ctxRnd{c}
	if n > 8 {
		r = seedRnd{core.NewSplitMix(c.U64("messages.seed"))}
	}
	msgs := make([]reqMsg, n)
	var descr []string
	for i := range msgs {
		msgs[i] = drawMsg(r, rawPath)
		if i < 6 {
			descr = append(descr, msgs[i].describe())
		}
	}
	c.Note("requests", descr)
	var raws []wallet.RawMessage
	var sendables []wallet.Sendable
	readFirst := rawPath && c.Intn("readfirst", 3) == 0
	if readFirst {
		c.Class("message cells were read before the send")
	}
	// the same object several times in one list: a message cell (RawSend paths) or a payload / code / data
	// cell (Sendables) that the caller built once and uses for several messages, each with a mode (and, for
	// Sendables, destination, amount, bounce flag) of its own. Each entry of the list is a request of its own.
	var sharedOf []int // sharedOf[i] = j: request i reuses the cell object(s) of request j (j < i), -1: none
	if n >= 2 && c.Weighted("same cell object twice", 3, 2) == 1 {
		sharedOf = make([]int, n)
		for i := range sharedOf {
			sharedOf[i] = -1
		}
		for k := 1 + r.intn("shared.count", 3); k > 0; k-- {
			i := 1 + r.intn("shared.i", n-1)
			j := r.intn("shared.j", i)
			mode := msgs[i].mode
			if rawPath {
				if mode == msgs[j].mode { // a different mode, so that the two entries are distinguishable
					mode ^= 1 << uint(r.intn("shared.bit", 8))
				}
				msgs[i] = reqMsg{kind: kindRaw, raw: msgs[j].raw, mode: mode}
			} else if msgs[j].kind == kindMessage {
				cp := msgs[j]
				cp.dest, cp.amount, cp.bounce, cp.mode = drawAddr(r), drawAmount(r), r.intn("bounce", 2) == 1, uint8(drawMode(r))
				msgs[i] = cp
			} else {
				continue
			}
			sharedOf[i] = j
			if i < len(descr) {
				descr[i] = msgs[i].describe() + fmt.Sprintf(" (same cell object as request %d)", j)
			}
		}
		c.Note("requests sharing a cell object", descr)
	}
	sharedCells := map[*ref.RCell]*boc.Cell{}
	for i := range msgs {
		if rawPath && sharedOf != nil {
			// requests holding the same reference cell (same *ref.RCell) hand over the same *boc.Cell object
			if mc, ok := sharedCells[msgs[i].raw]; ok {
				raws = append(raws, wallet.RawMessage{Message: mc, Mode: msgs[i].mode})
				c.Class("one message cell object used for several entries, different modes")
				continue
			}
		}
		if rawPath {
			mc := wtest.MustCell(msgs[i].raw)
			if readFirst {
				// the caller has looked into the message cell before handing it over (the read position of a
				// cell is not part of its value: hash, AddRef and serialisation ignore it)
				mc.ReadUint(int(r.intn("readfirst.bits", 65)))
				mc.NextRef()
			}
			sharedCells[msgs[i].raw] = mc
			raws = append(raws, wallet.RawMessage{Message: mc, Mode: msgs[i].mode})
		} else {
			if sharedOf != nil {
				if sharedOf[i] >= 0 && (msgs[i].body != nil || msgs[i].code != nil) {
					c.Class("one payload / code / data cell object used in several Sendables")
				}
				sendables = append(sendables, msgs[i].sendableSharing(sharedCells))
			} else {
				sendables = append(sendables, msgs[i].sendable())
			}
		}
	}
	ctx := context.Background()
	x := expect{seqno: seqno, checkSeqno: true, vuLo: validUntil, vuHi: validUntil, opcode: walletref.OpV5SignedExternal, msgs: msgs}

	// account state for the Send paths: the seqno comes from the chain
	var wantInit bool
	lifetime := wallet.DefaultMessageLifetime
	if path == pathSend || path == pathSendV2 {
		acc := ton.AccountID{Workchain: int32(e.addr.Workchain), Address: e.addr.Hash}
		switch c.Weighted("account", 2, 1, 4) {
		case 0:
			e.chain.State, wantInit = wtest.StateNone(), true
			x.seqno = 0
		case 1:
			e.chain.State, wantInit = wtest.StateUninit(acc, 5), true
			x.seqno = 0
		default:
			code := wtest.MustCell(walletref.NewBuilder().U(0xff00, 16).Cell())
			data := wtest.MustCell(walletref.DataCell(vp.Ref, uint64(seqno), e.pub, e.ids))
			e.chain.State = wtest.StateActive(acc, 5, code, data)
		}
		if c.Bool("lifetime option") {
			lifetime = time.Duration(c.Range("lifetime s", 1, 7200)) * time.Second
			w, err := wallet.New(key, vp.Lib, e.chain, append(append([]wallet.Option{}, opts.Lib...), wallet.WithMessageLifetime(lifetime))...)
			if err != nil {
				return fmt.Errorf("wallet.New with lifetime: %v", err)
			}
			e.w = w
		}
	}

	// the wallet value has been used before: a body made earlier through the same value, for a later expiry and
	// another seqno, is no part of this request and must leave no trace in it
	if c.Intn("used before", 4) == 0 {
		later := uint64(validUntil) + uint64(c.OneOf("used before.later", 1, 60, 3600, 1<<20, 1<<30))
		if later > 0xffffffff {
			later = 0xffffffff
		}
		prev := wallet.MessageConfig{Seqno: seqno + uint32(c.Range("used before.seqno", 1, 9)), ValidUntil: time.Unix(int64(later), 0), V5MsgType: wallet.V5MsgTypeSignedExternal}
		_, _ = e.w.CreateMessageBody(prev, wallet.SimpleTransfer{Amount: 1, Address: ton.AccountID{Workchain: 0}})
		c.Class("wallet value used before for a later expiry")
	}
	var body walletref.Slice
	t0 := time.Now()
	switch path {
	case pathRawSend, pathRawSendInit:
		var init *tlb.StateInit
		if path == pathRawSendInit {
			if init, err = e.w.StateInit(); err != nil {
				return fmt.Errorf("StateInit: %v", err)
			}
			wantInit = true
		}
		err = e.w.RawSend(ctx, seqno, time.Unix(int64(validUntil), 0), raws, init)
	case pathSend:
		err = e.w.Send(ctx, sendables...)
	case pathSendV2:
		_, err = e.w.SendV2(ctx, 0, sendables...)
	case pathCreateBody:
		if over { // CreateMessageBody is not a send; the limit is a property of sending
			over, n = false, max
			msgs, sendables = msgs[:max], sendables[:max]
			x.msgs = msgs
		}
		cfg := wallet.MessageConfig{Seqno: seqno, ValidUntil: time.Unix(int64(validUntil), 0), V5MsgType: wallet.V5MsgTypeSignedExternal}
		if e.isV5() && c.Intn("v5 internal", 4) == 0 {
			cfg.V5MsgType, x.opcode = wallet.V5MsgTypeSignedInternal, walletref.OpV5SignedInternal
			c.Class("v5 signed-internal request")
		}
		var bc *boc.Cell
		bc, err = e.w.CreateMessageBody(cfg, sendables...)
		if err == nil {
			img, ierr := wtest.FromCell(bc)
			if ierr != nil {
				return fmt.Errorf("CreateMessageBody result: %v", ierr)
			}
			body = walletref.SliceOf(img)
		}
	}
	t1 := time.Now()
	sent, _ := e.chain.Snapshot()
	if over {
		c.Class("one message over the limit")
		if err == nil {
			return fmt.Errorf("%s with %d messages (limit %d) returned no error", pathNames[path], n, max)
		}
		if len(sent) != 0 {
			return fmt.Errorf("%s with %d messages (limit %d) returned %v but sent %d payloads", pathNames[path], n, max, err, len(sent))
		}
		return nil
	}
	if err != nil {
		return fmt.Errorf("%s with %d messages (limit %d): %v", pathNames[path], n, max, err)
	}
	if path == pathSend || path == pathSendV2 {
		x.vuLo, x.vuHi = uint32(t0.Add(lifetime).Unix()), uint32(t1.Add(lifetime).Unix())
	}
	if path != pathCreateBody {
		if len(sent) != 1 {
			return fmt.Errorf("%s handed %d payloads to SendMessage, want 1", pathNames[path], len(sent))
		}
		m, err := e.checkExternal(sent[0])
		if err != nil {
			return err
		}
		if (m.Init != nil) != wantInit {
			c.Class(fmt.Sprintf("init attached=%v, expected by C15 rule=%v", m.Init != nil, wantInit))
		}
		if m.Init != nil {
			c.Class("external message with init")
		}
		body = m.Body
	}
	signed, err := e.checkSignature(body, c.U64("flip seed"), false)
	if err != nil {
		return err
	}
	if err := e.checkContent(signed, body, x); err != nil {
		return err
	}
	// classification
	cnt := "100..255 messages"
	switch {
	case n == 0:
		cnt = "0 messages"
	case n == 1:
		cnt = "1 message"
	case n <= 4:
		cnt = "2..4 messages"
	case n < 100:
		cnt = "5..99 messages"
	}
	c.Class(cnt)
	c.Class(vp.Ref.String() + " / " + cnt)
	if n == max {
		c.Class("exactly the limit")
	}
	special, longComment, withInit := false, false, false
	for i := range msgs {
		special = special || msgs[i].special()
		longComment = longComment || len(msgs[i].comment) > 123
		withInit = withInit || msgs[i].code != nil
	}
	if longComment {
		c.Class("multi-cell comment")
	}
	if withInit {
		c.Class("message with state-init")
	}
	if opts.NonDefault() {
		c.Class("non-default options")
	}
	c.Note("signed_cell", hex.EncodeToString(signed.ReprHash()))
	if n >= 2 || special {
		c.NonTrivial(vp.Ref.String(), signed.ReprHash())
	}
	return nil
}}

// ---------------------------------------------------------------------------------------------
// exhaustive single-bit changes on small bodies.  tape: version index, number of messages (0..2), key index

var flipCheck = &core.Check{Name: "c14/allflips", Fn: func(c *core.Ctx) error {
	vp := wtest.SendVersions[c.Intn("version", len(wtest.SendVersions))]
	n := c.Intn("messages", 3)
	k := c.Intn("key", 4)
	seed := make([]byte, 32)
	core.NewSplitMix(uint64(1000 + k)).Fill(seed)
	key := ed25519.NewKeyFromSeed(seed)
	c.Note("version", vp.Ref.String())
	c.Note("messages", n)
	c.Note("key", k)
	e, err := newEnv(c, vp, key, wtest.MakeOpts(int8(-k%2), nil, nil, false))
	if err != nil {
		return err
	}
	r := seedRnd{core.NewSplitMix(uint64(77 + 10*k + n))}
	msgs := make([]reqMsg, n)
	var raws []wallet.RawMessage
	for i := range msgs {
		msgs[i] = drawMsg(r, true)
		raws = append(raws, wallet.RawMessage{Message: wtest.MustCell(msgs[i].raw), Mode: msgs[i].mode})
	}
	seqno, vu := uint32(5+k), uint32(1700000000+k)
	if err := e.w.RawSend(context.Background(), seqno, time.Unix(int64(vu), 0), raws, nil); err != nil {
		return fmt.Errorf("RawSend: %v", err)
	}
	sent, _ := e.chain.Snapshot()
	if len(sent) != 1 {
		return fmt.Errorf("%d payloads", len(sent))
	}
	m, err := e.checkExternal(sent[0])
	if err != nil {
		return err
	}
	signed, err := e.checkSignature(m.Body, uint64(k), true)
	if err != nil {
		return err
	}
	if err := e.checkContent(signed, m.Body, expect{seqno: seqno, checkSeqno: true, vuLo: vu, vuHi: vu, opcode: walletref.OpV5SignedExternal, msgs: msgs}); err != nil {
		return err
	}
	c.Class(vp.Ref.String())
	if n >= 2 {
		c.NonTrivial(vp.Ref.String(), signed.ReprHash())
	}
	return nil
}}

func TestProp(t *testing.T) {
	t.Run("build", func(t *testing.T) { core.Run(t, buildCheck) })
}

func TestEnum(t *testing.T) {
	keys := core.Scale(1, 4)
	core.RunEnum(t, flipCheck, fmt.Sprintf("every single-bit change of the whole body (signed bits and signature) of RawSend messages: 7 versions x 0..2 messages x %d keys", keys), func(yield func(...uint64) bool) {
		for v := range wtest.SendVersions {
			for n := 0; n < 3; n++ {
				for k := 0; k < keys; k++ {
					if !yield(uint64(v), uint64(n), uint64(k)) {
						return
					}
				}
			}
		}
	})
}

func TestReplay(t *testing.T) { core.Replay(t, buildCheck, flipCheck, concurrentCheck) }
