// C13 — the pool picks a healthy, current server and its waits never hang.
//
// This file: the selection part (updateBest over an exhaustively enumerated grid of pool configurations).
// sched_test.go: the schedule part (concurrent head updates, waiters, switches) and the burst stress.
// concurrent_test.go: several goroutines reporting different heads of ONE connection at the same time.
package c13

import (
	"context"
	"fmt"
	"strings"
	"testing"
	"time"

	"github.com/tonkeeper/tongo/liteapi/pool"
	"github.com/tonkeeper/tongo/liteclient"
	"github.com/tonkeeper/tongo/ton"

	"verifharness/internal/core"
)

func TestMain(m *testing.M) { core.Main(m, "C13") }

// fake is a pool member with a fixed state. It implements pool.VerifConn (the pool's conn interface).
type fake struct {
	id  int
	seq uint32
	ok  bool
	rtt time.Duration
}

func (f *fake) ID() int { return f.id }
func (f *fake) MasterHead() ton.BlockIDExt {
	return ton.BlockIDExt{BlockID: ton.BlockID{Workchain: -1, Shard: 0x8000000000000000, Seqno: f.seq}}
}
func (f *fake) SetMasterHead(ton.BlockIDExt)    {}
func (f *fake) IsOK() bool                      { return f.ok }
func (f *fake) Client() *liteclient.Client      { return nil }
func (f *fake) Run(context.Context, bool)       {}
func (f *fake) IsArchiveNode() bool             { return false }
func (f *fake) AverageRoundTrip() time.Duration { return f.rtt }
func (f *fake) Status() pool.ConnStatus         { return pool.ConnStatus{} }

var (
	gridSeqnos = [7]uint32{0, 1, 2, 3, 1000, 1001, 1002}
	gridRtts   = [4]time.Duration{0, 1100 * time.Microsecond, 1100 * time.Microsecond, 1900 * time.Microsecond} // a round trip below the clock resolution (0: the fastest there is), two equal, two that differ by less than a millisecond
	strategies = [2]pool.Strategy{pool.BestPingStrategy, pool.FirstWorkingConnection}
	// connection ids by position in the list handed to the pool: variant 0 = configuration order,
	// variant 1 = permuted and non-contiguous ids (the pool orders its members by id).
	idVariants = [2][4][4]int{
		{{0}, {0, 1}, {0, 1, 2}, {0, 1, 2, 3}},
		{{7}, {5, 2}, {4, 9, 1}, {6, 2, 9, 4}},
	}
)

const nStates = 56 // alive(2) x seqno(7) x rtt(4)

func (f *fake) setState(s int) {
	f.ok = s/28 == 1
	f.seq = gridSeqnos[(s/4)%7]
	f.rtt = gridRtts[s%4]
}

func (f *fake) String() string {
	return fmt.Sprintf("{id %d alive %v seqno %d rtt %v}", f.id, f.ok, f.seq, f.rtt)
}

// verdict of the oracle for one configuration.
type expectation struct {
	eligible uint8 // bit i: member at position i is alive and at most one block behind the newest head
	allowed  uint8 // bit i: member at position i is an acceptable choice (meaningful when eligible != 0)
	tie      bool  // more than one acceptable choice (equal round-trip times)
}

// oracle is the property text, written without looking at the pool's loops: M = newest head known to
// the pool (over all members), E = alive members with seqno+1 >= M; best-ping: any member of E with the
// smallest round-trip; first-working: the member of E with the smallest id.
func oracle(strategy int, fs []*fake) expectation {
	var m uint32
	for _, f := range fs {
		if f.seq > m {
			m = f.seq
		}
	}
	var e expectation
	for i, f := range fs {
		if f.ok && uint64(f.seq)+1 >= uint64(m) {
			e.eligible |= 1 << uint(i)
		}
	}
	if e.eligible == 0 {
		return e
	}
	if strategy == 0 {
		min := time.Duration(-1)
		for i, f := range fs {
			if e.eligible>>uint(i)&1 == 1 && (min < 0 || f.rtt < min) {
				min = f.rtt
			}
		}
		cnt := 0
		for i, f := range fs {
			if e.eligible>>uint(i)&1 == 1 && f.rtt == min {
				e.allowed |= 1 << uint(i)
				cnt++
			}
		}
		e.tie = cnt > 1
	} else {
		best := -1
		for i, f := range fs {
			if e.eligible>>uint(i)&1 == 1 && (best < 0 || f.id < fs[best].id) {
				best = i
			}
		}
		e.allowed = 1 << uint(best)
	}
	return e
}

// judge compares the pool's choice with the expectation. prev < 0: no previous choice.
func judge(e expectation, fs []*fake, prev int, got pool.VerifConn) error {
	pos := -1
	if got != nil {
		for i, f := range fs {
			if got == pool.VerifConn(f) {
				pos = i
			}
		}
		if pos < 0 {
			return fmt.Errorf("the pool's best connection is not a member of the pool: %v", got)
		}
	}
	if e.eligible == 0 {
		if pos != prev {
			return fmt.Errorf("no member is alive and current, the previous choice (%s) must be kept, but the pool switched to %s", posName(fs, prev), posName(fs, pos))
		}
		return nil
	}
	if pos < 0 || e.allowed>>uint(pos)&1 == 0 {
		var want []string
		for i := range fs {
			if e.allowed>>uint(i)&1 == 1 {
				want = append(want, posName(fs, i))
			}
		}
		return fmt.Errorf("the pool chose %s, expected %s", posName(fs, pos), strings.Join(want, " or "))
	}
	return nil
}

func posName(fs []*fake, i int) string {
	if i < 0 {
		return "none"
	}
	return fs[i].String()
}

func describe(strategy int, fs []*fake, prev int) string {
	var sb strings.Builder
	fmt.Fprintf(&sb, "strategy %s, members (in the order given to the pool):", strategies[strategy])
	for _, f := range fs {
		sb.WriteString(" " + f.String())
	}
	fmt.Fprintf(&sb, ", previous best %s", posName(fs, prev))
	return sb.String()
}

// ---------------------------------------------------------------------------------------------
// one configuration (sampled with rapid, and the replay vehicle for a failure of the grid)

// tape: strategy, n-1, id variant, previous best (0 = none, k = member k-1), state of member 0..3
var selectOne = &core.Check{Name: "c13/select-one", Quick: 20000, Thorough: 400000, Fn: func(c *core.Ctx) error {
	strategy := c.Choose("strategy", 2)
	n := 1 + c.Choose("n-1", 4)
	variant := c.Choose("ids", 2)
	prev := c.Choose("prev", 5)%(n+1) - 1
	fs := make([]*fake, n)
	conns := make([]pool.VerifConn, n)
	for i := 0; i < 4; i++ {
		s := c.Choose("state", nStates)
		if i < n {
			fs[i] = &fake{id: idVariants[variant][n-1][i]}
			fs[i].setState(s)
			conns[i] = fs[i]
		}
	}
	c.Note("configuration", describe(strategy, fs, prev))
	var prevConn pool.VerifConn
	if prev >= 0 {
		prevConn = fs[prev]
	}
	e := oracle(strategy, fs)
	classify(c, e, n, prev)
	p := pool.VerifNewPool(strategies[strategy], conns, prevConn)
	p.VerifUpdateBest()
	if err := judge(e, fs, prev, p.VerifBest()); err != nil {
		return fmt.Errorf("%s: %v", describe(strategy, fs, prev), err)
	}
	// a second refresh of an unchanged pool changes nothing unless there is a tie
	first := p.VerifBest()
	p.VerifUpdateBest()
	if second := p.VerifBest(); second != first && !e.tie {
		return fmt.Errorf("%s: a second refresh of the unchanged pool moved the choice from %v to %v", describe(strategy, fs, prev), first, second)
	}
	if e.eligible != 0 && int(e.eligible) != 1<<uint(n)-1 {
		c.NonTrivial(strategy, n, variant, prev, fmt.Sprint(fs))
	}
	return nil
}}

func classify(c *core.Ctx, e expectation, n, prev int) {
	switch {
	case e.eligible == 0:
		c.Class("no member eligible (choice kept)")
	case int(e.eligible) == 1<<uint(n)-1:
		c.Class("every member eligible")
	default:
		c.Class("some members eligible")
	}
	if e.tie {
		c.Class("tie on the smallest round-trip")
	}
	if prev >= 0 && e.eligible != 0 && e.eligible>>uint(prev)&1 == 0 {
		c.Class("previous best no longer eligible")
	}
}

// ---------------------------------------------------------------------------------------------
// the grid: one check execution = one slice (strategy, n, id variant, state of member 0), inside it a
// plain loop over the states of the other members and the previous choice.

type gridTotals struct {
	configs, nonTrivial, none, all, some, ties, prevGone int64
}

var totals gridTotals

// tape: strategy, n-1, id variant, state of member 0
var selectGrid = &core.Check{Name: "c13/select-grid", Fn: func(c *core.Ctx) error {
	strategy := c.Choose("strategy", 2)
	n := 1 + c.Choose("n-1", 4)
	variant := c.Choose("ids", 2)
	s0 := c.Choose("state0", nStates)
	fs := make([]*fake, n)
	conns := make([]pool.VerifConn, n)
	for i := range fs {
		fs[i] = &fake{id: idVariants[variant][n-1][i]}
		conns[i] = fs[i]
	}
	fs[0].setState(s0)
	c.Note("slice", fmt.Sprintf("strategy %s, %d members, ids %v, member 0 = %s, all states of the others, all previous choices", strategies[strategy], n, idVariants[variant][n-1], fs[0]))
	p := pool.VerifNewPool(strategies[strategy], conns, nil)
	st := make([]int, n) // odometer over members 1..n-1
	var t gridTotals
	full := uint8(1<<uint(n) - 1)
	for {
		for i := 1; i < n; i++ {
			fs[i].setState(st[i])
		}
		e := oracle(strategy, fs)
		for prev := -1; prev < n; prev++ {
			if prev < 0 {
				p.VerifSetBest(nil)
			} else {
				p.VerifSetBest(fs[prev])
			}
			p.VerifUpdateBest()
			if err := judge(e, fs, prev, p.VerifBest()); err != nil {
				tape := []uint64{uint64(strategy), uint64(n - 1), uint64(variant), uint64(prev + 1), uint64(s0), 0, 0, 0}
				for i := 1; i < n; i++ {
					tape[4+i] = uint64(st[i])
				}
				// leave a replay file of the single configuration next to the one of the slice
				core.RunTape(selectOne, tape)
				return fmt.Errorf("%s: %v (single configuration: check c13/select-one, tape %v)", describe(strategy, fs, prev), err, tape)
			}
			t.configs++
			switch {
			case e.eligible == 0:
				t.none++
			case e.eligible == full:
				t.all++
			default:
				t.some++
				t.nonTrivial++
			}
			if e.tie {
				t.ties++
			}
			if prev >= 0 && e.eligible != 0 && e.eligible>>uint(prev)&1 == 0 {
				t.prevGone++
			}
		}
		i := 1
		for ; i < n; i++ {
			st[i]++
			if st[i] < nStates {
				break
			}
			st[i] = 0
		}
		if i >= n {
			break
		}
	}
	totals.configs += t.configs
	totals.nonTrivial += t.nonTrivial
	totals.none += t.none
	totals.all += t.all
	totals.some += t.some
	totals.ties += t.ties
	totals.prevGone += t.prevGone
	if t.nonTrivial > 0 {
		c.NonTrivial(strategy, n, variant, s0)
	}
	c.Class(fmt.Sprintf("slice of %d-member pools", n))
	return nil
}}

func TestEnum(t *testing.T) {
	maxN := core.Scale(3, 4)
	core.Register(selectOne)
	what := fmt.Sprintf("updateBest on every pool of 1..%d members x 56 member states (alive x seqno {0,1,2,3,1000,1001,1002} x round-trip {1,2,2,5} ms) x 2 strategies x previous best none/any member x 2 id assignments", maxN)
	core.RunEnum(t, selectGrid, what, func(yield func(...uint64) bool) {
		for n := maxN; n >= 1; n-- {
			for strategy := 0; strategy < 2; strategy++ {
				for variant := 0; variant < 2; variant++ {
					for s0 := 0; s0 < nStates; s0++ {
						if !yield(uint64(strategy), uint64(n-1), uint64(variant), uint64(s0)) {
							return
						}
					}
				}
			}
		}
	})
	core.Extra(selectGrid.Name, "configurations", totals.configs)
	core.Extra(selectGrid.Name, "configurations_nontrivial", totals.nonTrivial)
	core.Extra(selectGrid.Name, "configurations_no_member_eligible", totals.none)
	core.Extra(selectGrid.Name, "configurations_every_member_eligible", totals.all)
	core.Extra(selectGrid.Name, "configurations_some_members_eligible", totals.some)
	core.Extra(selectGrid.Name, "configurations_tie_on_round_trip", totals.ties)
	core.Extra(selectGrid.Name, "configurations_previous_best_not_eligible", totals.prevGone)

	stressEnum(t)
}

func TestProp(t *testing.T) {
	t.Run("select-one", func(t *testing.T) { core.Run(t, selectOne) })
	t.Run("schedule", func(t *testing.T) { core.Run(t, schedule) })
}

func TestReplay(t *testing.T) {
	core.Replay(t, selectOne, selectGrid, schedule, stress, earlyWaiters, headAtRead, headOrder, switchCatchUp, undrainedHeads, runIdle, concurrentHeads, refreshMoving, refreshGrid, refreshConcurrent, reachedShort, registrationOrder, selectWaiters, selectWaitersGrid, refreshTraffic, timeoutUnderDeadline, comeAndGo)
}
