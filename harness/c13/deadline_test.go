package c13

import (
	"context"
	"fmt"
	"testing"
	"time"

	"github.com/tonkeeper/tongo/liteapi/pool"

	"verifharness/internal/core"
)

// c13/timeout-under-deadline: a caller whose context carries a deadline far behind its timeout still
// "returns an error once its timeout has elapsed": the call for a seqno the best connection never reaches
// comes back with an error while the context is still live. The oracle does not read a clock: it asks the
// context itself whether it had ended when the call returned. The deadline lies 6 s behind the timeout
// (at most 40 ms), and a case is only reported when three calls in a row came back with the context ended.
// tape: timeout in microseconds, whether a second connection reports heads, whether heads below the target arrive.
var timeoutUnderDeadline = &core.Check{Name: "c13/timeout-under-deadline", Hang: caseHang, Fn: func(c *core.Ctx) error {
	caseStart()
	timeout := time.Duration(1+c.Intn("timeout us", 40_000)) * time.Microsecond
	withOther := c.Intn("other", 2) == 1
	lowHeads := c.Intn("low heads", 2) == 1
	p := pool.VerifNewPool(pool.FirstWorkingConnection, nil, nil)
	p.VerifSetUpdateInterval(time.Hour)
	best := p.VerifNewConnection(0)
	if err := setBest(p, best, "conn0"); err != nil {
		return err
	}
	other := p.VerifNewConnection(1)
	runCtx, cancel := context.WithCancel(context.Background())
	defer cancel()
	go p.Run(runCtx)
	const head = 1000
	if err := poolCall("SetMasterHead on the best connection", func() { best.SetMasterHead(pool.VerifHead(head)) }); err != nil {
		return err
	}
	if withOther {
		if err := poolCall("SetMasterHead on conn1", func() { other.SetMasterHead(pool.VerifHead(head + 50)) }); err != nil {
			return err
		}
	}
	c.Note("timeout", timeout.String())
	c.NonTrivial(int64(timeout), withOther, lowHeads)
	const deadline = 6 * time.Second
	var last string
	for attempt := 1; attempt <= 3; attempt++ {
		ctx, done := context.WithTimeout(context.Background(), deadline)
		var err error
		var ended error
		if lowHeads {
			go func() {
				for i := 1; i <= 3; i++ {
					select {
					case <-ctx.Done():
						return
					case <-time.After(timeout / 4):
					}
					best.SetMasterHead(pool.VerifHead(head + uint32(i)))
				}
			}()
		}
		perr := poolCall("WaitMasterchainSeqno for a head that never comes", func() {
			err = p.WaitMasterchainSeqno(ctx, head+40, timeout)
			ended = ctx.Err()
		})
		done()
		if perr != nil {
			return perr
		}
		if err == nil {
			return fmt.Errorf("WaitMasterchainSeqno(%d, %v) under a context with a %v deadline returned success although the best connection never reported a head above %d", head+40, timeout, deadline, head+3)
		}
		if ended == nil {
			return nil
		}
		last = fmt.Sprintf("%v", err)
	}
	return fmt.Errorf("three calls of WaitMasterchainSeqno(%d, %v) under a context with a %v deadline came back (with %q) only when the context had ended: the timeout, elapsed long before, did not end the wait", head+40, timeout, deadline, last)
}}

func TestTimeoutUnderDeadline(t *testing.T) {
	core.RunEnum(t, timeoutUnderDeadline, "timeouts 1 us .. 40 ms under a 6 s context deadline x second connection x heads below the target", func(yield func(...uint64) bool) {
		for _, us := range []uint64{0, 99, 999, 4_999, 39_999} {
			for other := uint64(0); other < 2; other++ {
				for low := uint64(0); low < 2; low++ {
					if !yield(us, other, low) {
						return
					}
				}
			}
		}
	})
}
