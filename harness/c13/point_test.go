package c13

import (
	"context"
	"fmt"
	"runtime"
	"sync"
	"testing"
	"time"

	"github.com/tonkeeper/tongo/liteapi/pool"
	"github.com/tonkeeper/tongo/ton"

	"verifharness/internal/core"
)

// c13/head-at-read: the one interleaving the real-time scripts cannot aim at. The best connection is the
// pool's real connection behind a thin wrapper whose MasterHead() is a scheduling point: the k-th time the
// pool reads the head of its best connection on behalf of the waiting call, the connection learns the
// head the caller waits for (SetMasterHead, i.e. the normal update channel), the reader stays descheduled
// for a few milliseconds so that Run can handle the update, and the read then returns the value it had
// taken before (the old head). No further head follows. The property obliges the call to succeed: the
// best connection reported a head at or beyond the target seconds before the deadline.
//
// Timeline of one case: t=0 the call starts (timeout 4 s); a few ms later at the latest the target head
// has been published and SetMasterHead has returned; the call must return success. A failure is reported
// only when the publication was complete >= 2 s before the call's deadline and a 1 ms sleeper never
// overslept by more than 300 ms during the case; otherwise the case is inconclusive.

const (
	pointTimeout = 4000 * ms // timeout / context deadline of every waiting call of a case
	pointMargin  = 2000 * ms // the head must have been published this long before a deadline to oblige success
	pointLag     = 300 * ms  // scheduler lag above which no verdict is drawn
)

// pointConn wraps the pool's real connection. Everything but MasterHead is the real thing (embedded).
type pointConn struct {
	pool.VerifConn

	t0    time.Time
	dwell time.Duration
	heads []uint32 // published back to back, in this order, when the point fires
	also  pool.VerifConn

	mu      sync.Mutex
	armed   bool
	trigger int // the trigger-th read after arming fires (0: only the fallback does)
	reads   int
	fired   bool
	inRead  bool // fired from inside a read of the pool (not by the fallback)
	pubT0   time.Duration
	pubT1   time.Duration
	pubCall bool // SetMasterHead is about to be called (pubT0 is set)
	pubDone bool // SetMasterHead has returned (pubT1 is set)
}

func (s *pointConn) arm(trigger int) {
	s.mu.Lock()
	s.armed, s.trigger, s.reads = true, trigger, 0
	s.mu.Unlock()
}

// claim returns true for exactly one caller per case.
func (s *pointConn) claim(fromRead bool) bool {
	s.mu.Lock()
	defer s.mu.Unlock()
	if fromRead {
		if !s.armed {
			return false
		}
		s.reads++
		if s.reads != s.trigger {
			return false
		}
	}
	if s.fired {
		return false
	}
	s.fired, s.inRead = true, fromRead
	return true
}

// publish hands the heads to the real connection from a goroutine of its own (like the connection's Run
// loop would) and waits until SetMasterHead has returned, at most 2 s (the caller may hold the pool lock:
// it must not wait for ever on something that could need that lock).
func (s *pointConn) publish() {
	done := make(chan struct{})
	go func() {
		defer close(done)
		s.mu.Lock()
		s.pubT0, s.pubCall = time.Since(s.t0), true
		s.mu.Unlock()
		for _, h := range s.heads {
			s.VerifConn.SetMasterHead(pool.VerifHead(h))
			if s.also != nil {
				s.also.SetMasterHead(pool.VerifHead(h))
			}
		}
		s.mu.Lock()
		s.pubT1, s.pubDone = time.Since(s.t0), true
		s.mu.Unlock()
	}()
	select {
	case <-done:
	case <-time.After(2 * time.Second):
	}
}

func (s *pointConn) MasterHead() ton.BlockIDExt {
	head := s.VerifConn.MasterHead() // the value this read returns, taken before anything else happens
	if s.claim(true) {
		s.publish()
		time.Sleep(s.dwell) // the reader loses the CPU; Run is free to handle the update
	}
	return head
}

type pointResult struct {
	who  string
	api  string
	err  error
	head ton.BlockIDExt
	t0   time.Duration
	t1   time.Duration
}

// tape: gomaxprocs, api, trigger, pattern, dwell, initial, registered, other, fallback
var headAtRead = &core.Check{Name: "c13/head-at-read", Quick: 40, Thorough: 4000, Hang: caseHang, Fn: func(c *core.Ctx) error {
	caseStart()
	gmp := c.OneOf("gomaxprocs", 1, 2, 16)
	api := c.Weighted("api", 3, 2) // 0 WaitMasterchainSeqno, 1 BestMasterchainClient on a connection without a head
	// which read of the best connection's head, counted from the start of the call, is the scheduling
	// point (WaitMasterchainSeqno reads it once, BestMasterchainClient twice); 0 and reads that never
	// happen: the head is published by the test a little after the call has started (plain wake-up)
	trigger := c.Weighted("trigger", 1, 5, 5, 1)
	pattern := c.Choose("pattern", 3) // 0 exactly the target, 1 beyond the target, 2 target-1 and target back to back
	dwell := time.Duration(c.OneOf("dwell.ms", 5, 20, 60, 1)) * ms
	initialised := c.Weighted("initialised", 1, 3) == 1
	nReg := c.Range("registered", 0, 2) // waiters for the same head that are registered before the call starts
	withOther := c.Bool("other")        // a second, non-best connection announces the same heads right behind
	fallback := time.Duration(c.OneOf("fallback.ms", 30, 5, 100)) * ms

	var initial, target uint32 = 0, 1
	if api == 0 {
		target = baseSeqno + 1
		if initialised {
			initial = baseSeqno
		} else if pattern == 2 {
			target = 2
		}
	} else if pattern == 2 {
		pattern = 0 // there is no head below 1
	}
	var heads []uint32
	switch pattern {
	case 0:
		heads = []uint32{target}
	case 1:
		heads = []uint32{target + 3}
	default:
		heads = []uint32{target - 1, target}
		if target-1 <= initial {
			heads = []uint32{target}
		}
	}
	apiName := [...]string{"WaitMasterchainSeqno", "BestMasterchainClient"}[api]
	c.Note("gomaxprocs", gmp)
	c.Note("call", fmt.Sprintf("%s, target %d, deadline %v; best connection starts at head %d; %d waiters for the same head registered before; second connection: %v", apiName, target, pointTimeout, initial, nReg, withOther))
	c.Note("scheduling point", fmt.Sprintf("read %d of the best connection's head during the call: heads %v are published, the reader sleeps %v and returns the head it had read before (0 or a read that does not happen: published by the test %v after the call started)", trigger, heads, dwell, fallback))

	old := runtime.GOMAXPROCS(gmp)
	defer runtime.GOMAXPROCS(old)

	p := pool.VerifNewPool(pool.FirstWorkingConnection, nil, nil)
	p.VerifSetUpdateInterval(time.Hour)
	best := &pointConn{VerifConn: p.VerifNewConnection(0), dwell: dwell, heads: heads, t0: time.Now()}
	if withOther {
		best.also = p.VerifNewConnection(1)
	}
	if err := setBest(p, best, "conn0 (fresh pool)"); err != nil {
		return err
	}
	ctx, stopRun := context.WithCancel(context.Background())
	defer stopRun()
	go p.Run(ctx)
	if initial > 0 {
		if err := setHead(best.VerifConn, "the best connection conn0 (fresh pool, Run active)", initial); err != nil {
			c.Class("pool blocked")
			return err
		}
		if withOther {
			if err := setHead(best.also, "conn1 (fresh pool, Run active)", initial); err != nil {
				c.Class("pool blocked")
				return err
			}
		}
	}
	probe := startLagProbe()

	out := make(chan pointResult, nReg+1)
	var wg sync.WaitGroup
	call := func(who string, kind int) {
		wg.Add(1)
		go func() {
			defer wg.Done()
			r := pointResult{who: who, api: [...]string{"WaitMasterchainSeqno", "BestMasterchainClient"}[kind], t0: time.Since(best.t0)}
			if kind == 0 {
				r.err = p.WaitMasterchainSeqno(context.Background(), target, pointTimeout)
			} else {
				cctx, cancel := context.WithTimeout(context.Background(), pointTimeout)
				_, r.head, r.err = p.BestMasterchainClient(cctx)
				cancel()
			}
			r.t1 = time.Since(best.t0)
			out <- r
		}()
	}
	for i := 0; i < nReg; i++ {
		call(fmt.Sprintf("waiter %d, registered before the call", i), 0)
	}
	registered, err := waitersSeen(p, nReg, nil) // let them register (the point is not armed yet)
	if err != nil {
		probe.finish()
		c.Class("pool blocked")
		return err
	}
	best.arm(trigger)
	call("the call", api)
	// fallback publisher: if no read of the pool has fired the point by then, the test publishes the head
	time.Sleep(fallback)
	if best.claim(false) {
		best.publish()
	}

	if h := awaitGroup(&wg, pointTimeout+20*time.Second); h != nil {
		probe.finish()
		c.Class("pool blocked")
		return fmt.Errorf("the pool is blocked: %s(target %d, deadline %v) and %d earlier waiters not all back %s\ngoroutines inside the pool package:\n%s", apiName, target, pointTimeout, nReg, h, h.dump.text)
	}
	lag := probe.finish()
	close(out)
	c.Note("scheduler lag", lag.String())

	best.mu.Lock()
	inRead, pubT0, pubT1, pubCall, pubDone := best.inRead, best.pubT0, best.pubT1, best.pubCall, best.pubDone
	best.mu.Unlock()
	c.Class("call: " + apiName)
	if inRead {
		c.Class(fmt.Sprintf("head published inside read %d of the call", trigger))
	} else {
		c.Class("head published by the test after the call started")
	}
	if registered < nReg {
		c.Class("earlier waiters not all registered in 2 s (slow machine)")
	}

	var problems []string
	inconclusive := ""
	for r := range out {
		if r.err == nil {
			if r.who == "the call" && api == 1 && r.head.Seqno < 1 {
				problems = append(problems, fmt.Sprintf("BestMasterchainClient returned success with a head of seqno %d", r.head.Seqno))
			}
			if !pubCall || pubT0 > r.t1 {
				problems = append(problems, fmt.Sprintf("%s: %s(target %d) returned success at %v, before any head above %d was handed to the best connection (SetMasterHead called: %v, at %v)", r.who, r.api, target, r.t1, initial, pubCall, pubT0))
			}
			continue
		}
		deadline := r.t0 + pointTimeout
		switch {
		case lag > pointLag:
			inconclusive = fmt.Sprintf("scheduler lag %v", lag)
		case !pubDone:
			// SetMasterHead of the target head has not returned: the pool's update channel is not drained
			problems = append(problems, fmt.Sprintf("%s: %s returned %s at %v; SetMasterHead(%v) on the best connection, called at %v, has not returned", r.who, r.api, errText(r.err), r.t1, heads, pubT0))
		case pubT1 > deadline-pointMargin:
			inconclusive = fmt.Sprintf("the head was published only at %v, less than %v before the deadline %v", pubT1, pointMargin, deadline)
		default:
			how := fmt.Sprintf("published by the test %v after the call started", fallback)
			if inRead {
				how = fmt.Sprintf("published while the pool was reading the best connection's head for the call (read %d; the read returned the old head %v later)", trigger, dwell)
			}
			problems = append(problems, fmt.Sprintf("%s: %s(target %d) started at %v returned %s at %v although the best connection reported head %d at %v (SetMasterHead returned at %v), %v before the deadline; the head was %s; no later head follows",
				r.who, r.api, target, r.t0, errText(r.err), r.t1, heads[len(heads)-1], pubT0, pubT1, deadline-pubT1, how))
		}
	}
	if len(problems) > 0 {
		return fmt.Errorf("%s", joinLines(problems))
	}
	if inconclusive != "" {
		c.Class("inconclusive: " + map[bool]string{true: "scheduler lag", false: "head published late"}[lag > pointLag])
		return nil
	}
	// after the case the pool still serves a fresh waiter (nobody is left holding the pool lock)
	if ok, why := sentinelDelivered(p, best, sentinel, 20*time.Second); !ok {
		c.Class("pool blocked")
		_, d := verifiablyStuck(func() int64 { return 0 })
		return fmt.Errorf("after the case the pool does not deliver a fresh head to a fresh waiter within 20 s: %s\ngoroutines inside the pool package:\n%s", why, d.text)
	}
	if inRead {
		c.NonTrivial(gmp, api, trigger, pattern, int(dwell/ms), initial, nReg, withOther)
	}
	return nil
}}

func joinLines(s []string) string {
	out := ""
	for i, l := range s {
		if i > 0 {
			out += "\n"
		}
		out += l
	}
	return out
}

func TestHeadAtRead(t *testing.T) { core.Run(t, headAtRead) }
