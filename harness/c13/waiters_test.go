package c13

import (
	"context"
	"errors"
	"fmt"
	"sync"
	"sync/atomic"
	"testing"
	"time"

	"github.com/tonkeeper/tongo/liteapi/pool"
	"github.com/tonkeeper/tongo/liteclient"
	"github.com/tonkeeper/tongo/ton"

	"verifharness/internal/core"
)

// The two halves of the property meet: the sentence about the refresh ("whenever at least one pooled
// connection is alive and at most one block behind the newest head known to the pool, the connection chosen
// as best after a refresh is such a connection ... otherwise the previous choice is kept") has no exception
// for moments at which callers are waiting for a masterchain seqno, and none for stretches in which the
// connections report heads more often than the pool refreshes its choice.
//
//   - c13/select-waiters-grid, c13/select-waiters: the selection oracle of c13_test.go, applied to refreshes
//     that run while 1..3 callers of WaitMasterchainSeqno are registered (target never reported, timeout one
//     hour, context cancelled when the case is over). No clock in any verdict about the choice.
//   - c13/refresh-under-traffic: the refresh that Run makes on its own (period 20..50 ms) happens within a
//     bounded number of periods whatever the head traffic is.

// ---------------------------------------------------------------------------------------------
// waiters whose target nobody reports

const farTimeout = time.Hour

type farWaiters struct {
	p      *pool.ConnPool
	n      int
	cancel context.CancelFunc
	res    chan error
	t0     time.Time
}

// subscribeFar starts n callers of WaitMasterchainSeqno(farSeqno, one hour) and returns when all of them
// are registered. The pool's best connection must be set and its head below farSeqno. (nil, nil): the
// callers did not get registered within 2 s (slow machine), the case draws no verdict.
func subscribeFar(p *pool.ConnPool, n int) (*farWaiters, error) {
	ctx, cancel := context.WithCancel(context.Background())
	w := &farWaiters{p: p, n: n, cancel: cancel, res: make(chan error, n), t0: time.Now()}
	for i := 0; i < n; i++ {
		go func() { w.res <- p.WaitMasterchainSeqno(ctx, farSeqno, farTimeout) }()
	}
	seen, err := waitersSeen(p, n, func() bool { return len(w.res) > 0 })
	if err != nil {
		cancel()
		return nil, err
	}
	if len(w.res) > 0 {
		e := <-w.res
		after := time.Since(w.t0)
		cancel()
		return nil, fmt.Errorf("WaitMasterchainSeqno(%d, %v) returned %s after %v: nobody has reported that head, the timeout has not elapsed and the context is not cancelled", farSeqno, farTimeout, errText(e), after)
	}
	if seen < n {
		cancel()
		return nil, nil
	}
	return w, nil
}

// release cancels the callers' context and judges what they return: the context's error, not before the
// cancellation. stillRegistered: all n were still registered right before the cancellation (the refreshes
// of the case ran with n registered waiters).
func (w *farWaiters) release() (stillRegistered bool, err error) {
	registered := -1
	if err := poolCall("reading the number of registered waiters (pool read lock)", func() { registered = w.p.VerifWaiters() }); err != nil {
		w.cancel()
		return false, err
	}
	early := len(w.res)
	elapsed := time.Since(w.t0)
	w.cancel()
	done := make(chan struct{})
	errs := make([]error, 0, w.n)
	go func() {
		defer close(done)
		for i := 0; i < w.n; i++ {
			errs = append(errs, <-w.res)
		}
	}()
	if h := await(done, callLimit, nil); h != nil {
		return false, blockedError(fmt.Sprintf("%d callers of WaitMasterchainSeqno(%d, %v) whose context was cancelled", w.n, farSeqno, farTimeout), h)
	}
	for _, e := range errs {
		if e == nil {
			return false, fmt.Errorf("WaitMasterchainSeqno(%d, %v) returned success although nobody has reported that head", farSeqno, farTimeout)
		}
		if !errors.Is(e, context.Canceled) {
			return false, fmt.Errorf("WaitMasterchainSeqno(%d, %v) returned %s %v (at most) after its start: the timeout has not elapsed", farSeqno, farTimeout, errText(e), elapsed)
		}
	}
	if early > 0 {
		return false, fmt.Errorf("%d of %d callers of WaitMasterchainSeqno(%d, %v) returned the context's error before the context was cancelled", early, w.n, farSeqno, farTimeout)
	}
	return registered == w.n, nil
}

// ---------------------------------------------------------------------------------------------
// selection with registered waiters, sampled: 1..3 refreshes of a pool whose members change state in between

// tape: strategy, n-1, id variant, waiters-1, previous best (0 = none, k = member k-1), rounds-1,
// then per round the state of member 0..3
var selectWaiters = &core.Check{Name: "c13/select-waiters", Quick: 4000, Thorough: 100000, Hang: caseHang, Fn: func(c *core.Ctx) error {
	caseStart()
	strategy := c.Choose("strategy", 2)
	n := 1 + c.Choose("n-1", 4)
	variant := c.Choose("ids", 2)
	nw := 1 + c.Choose("waiters-1", 3)
	prev := c.Choose("prev", 5)%(n+1) - 1
	rounds := 1 + c.Choose("rounds-1", 3)
	states := make([][4]int, rounds)
	for r := range states {
		for i := 0; i < 4; i++ {
			states[r][i] = c.Choose("state", nStates)
		}
	}
	fs := make([]*fake, n)
	conns := make([]pool.VerifConn, n)
	for i := range fs {
		fs[i] = &fake{id: idVariants[variant][n-1][i]}
		fs[i].setState(states[0][i])
		conns[i] = fs[i]
	}
	c.Note("waiters", fmt.Sprintf("%d callers of WaitMasterchainSeqno(%d, %v) are registered during every refresh", nw, farSeqno, farTimeout))
	c.Note("first configuration", describe(strategy, fs, prev))
	c.Class(fmt.Sprintf("%d registered waiters", nw))

	// a caller can subscribe only while the pool has a best connection
	p := pool.VerifNewPool(strategies[strategy], conns, fs[0])
	wt, err := subscribeFar(p, nw)
	if err != nil {
		return err
	}
	if wt == nil {
		c.Class("inconclusive: waiters not registered within 2 s")
		return nil
	}
	if prev < 0 {
		p.VerifSetBest(nil)
	} else {
		p.VerifSetBest(fs[prev])
	}
	var verdict error
	obliged := false
	for r := 0; r < rounds && verdict == nil; r++ {
		for i := range fs {
			fs[i].setState(states[r][i])
		}
		e := oracle(strategy, fs)
		if r == 0 {
			classify(c, e, n, prev)
		}
		if e.eligible != 0 && (prev < 0 || e.allowed>>uint(prev)&1 == 0) {
			obliged = true
		}
		p.VerifUpdateBest()
		got := p.VerifBest()
		if err := judge(e, fs, prev, got); err != nil {
			verdict = fmt.Errorf("refresh %d of %d while %d callers of WaitMasterchainSeqno are registered (target not reached): %s: %v", r+1, rounds, nw, describe(strategy, fs, prev), err)
			break
		}
		prev = -1
		for i, f := range fs {
			if got == pool.VerifConn(f) {
				prev = i
			}
		}
	}
	still, err := wt.release()
	if verdict != nil {
		return verdict
	}
	if err != nil {
		return err
	}
	if !still {
		c.Class("inconclusive: a waiter was no longer registered at the end")
		return nil
	}
	if obliged {
		c.Class("a refresh had to leave the previous choice")
		c.NonTrivial(strategy, n, variant, nw, fmt.Sprint(states[:rounds]))
	}
	return nil
}}

// ---------------------------------------------------------------------------------------------
// selection with registered waiters, enumerated: the slices of c13/select-grid, run with 1..3 waiters

type waiterGridTotals struct{ configs, obliged int64 }

var wgTotals waiterGridTotals

// tape: strategy, n-1, id variant, state of member 0, waiters-1
var selectWaitersGrid = &core.Check{Name: "c13/select-waiters-grid", Hang: caseHang, Fn: func(c *core.Ctx) error {
	caseStart()
	strategy := c.Choose("strategy", 2)
	n := 1 + c.Choose("n-1", 4)
	variant := c.Choose("ids", 2)
	s0 := c.Choose("state0", nStates)
	nw := 1 + c.Choose("waiters-1", 3)
	fs := make([]*fake, n)
	conns := make([]pool.VerifConn, n)
	for i := range fs {
		fs[i] = &fake{id: idVariants[variant][n-1][i]}
		conns[i] = fs[i]
	}
	fs[0].setState(s0)
	c.Note("slice", fmt.Sprintf("strategy %s, %d members, ids %v, member 0 = %s, all states of the others, all previous choices; %d callers of WaitMasterchainSeqno(%d, %v) registered during every refresh", strategies[strategy], n, idVariants[variant][n-1], fs[0], nw, farSeqno, farTimeout))
	p := pool.VerifNewPool(strategies[strategy], conns, fs[0])
	wt, err := subscribeFar(p, nw)
	if err != nil {
		return err
	}
	if wt == nil {
		c.Class("inconclusive: waiters not registered within 2 s")
		return nil
	}
	st := make([]int, n)
	var t waiterGridTotals
	var verdict error
loop:
	for {
		for i := 1; i < n; i++ {
			fs[i].setState(st[i])
		}
		e := oracle(strategy, fs)
		for prev := -1; prev < n; prev++ {
			if prev < 0 {
				p.VerifSetBest(nil)
			} else {
				p.VerifSetBest(fs[prev])
			}
			p.VerifUpdateBest()
			if err := judge(e, fs, prev, p.VerifBest()); err != nil {
				tape := []uint64{uint64(strategy), uint64(n - 1), uint64(variant), uint64(nw - 1), uint64(prev + 1), 0, uint64(s0), 0, 0, 0}
				for i := 1; i < n; i++ {
					tape[6+i] = uint64(st[i])
				}
				verdict = fmt.Errorf("refresh while %d callers of WaitMasterchainSeqno are registered (target not reached): %s: %v (single configuration: check c13/select-waiters, tape %v)", nw, describe(strategy, fs, prev), err, tape)
				wt.release()
				wt = nil
				core.RunTape(selectWaiters, tape) // leaves a replay file of the single configuration
				break loop
			}
			t.configs++
			if e.eligible != 0 && (prev < 0 || e.allowed>>uint(prev)&1 == 0) {
				t.obliged++
			}
		}
		i := 1
		for ; i < n; i++ {
			st[i]++
			if st[i] < nStates {
				break
			}
			st[i] = 0
		}
		if i >= n {
			break
		}
	}
	if verdict != nil {
		return verdict
	}
	still, err := wt.release()
	if err != nil {
		return err
	}
	if !still {
		c.Class("inconclusive: a waiter was no longer registered at the end")
		return nil
	}
	wgTotals.configs += t.configs
	wgTotals.obliged += t.obliged
	c.Class(fmt.Sprintf("slice of %d-member pools, %d waiters", n, nw))
	if t.obliged > 0 {
		c.NonTrivial(strategy, n, variant, s0, nw)
	}
	return nil
}}

func TestSelectWaiters(t *testing.T) {
	t.Run("grid", func(t *testing.T) {
		core.Register(selectWaiters)
		what := "updateBest with 1..3 registered waiters (target not reached) on every pool of 1..2 members (1, 2 and 3 waiters) and of 3 members (one waiter count per slice; thorough tier all three, plus one slice in seven of the 4-member pools) x 56 member states x 2 strategies x previous best none/any member x 2 id assignments"
		core.RunEnum(t, selectWaitersGrid, what, func(yield func(...uint64) bool) {
			maxN := core.Scale(3, 4)
			for n := maxN; n >= 1; n-- {
				for strategy := 0; strategy < 2; strategy++ {
					for variant := 0; variant < 2; variant++ {
						for s0 := 0; s0 < nStates; s0++ {
							if n == 4 && s0%7 != 3 {
								continue
							}
							for nw := 1; nw <= 3; nw++ {
								if (n == 4 || (n == 3 && !core.Thorough())) && nw != 1+(s0+strategy+variant)%3 {
									continue
								}
								if !yield(uint64(strategy), uint64(n-1), uint64(variant), uint64(s0), uint64(nw-1)) {
									return
								}
							}
						}
					}
				}
			}
		})
		core.Extra(selectWaitersGrid.Name, "refreshes_with_registered_waiters", wgTotals.configs)
		core.Extra(selectWaitersGrid.Name, "refreshes_that_had_to_leave_the_previous_choice", wgTotals.obliged)
	})
	t.Run("sampled", func(t *testing.T) { core.Run(t, selectWaiters) })
}

// ---------------------------------------------------------------------------------------------
// the periodic refresh of Run under head traffic

// trackConn is a pool member with fixed alive/round-trip and a head that the check advances.
type trackConn struct {
	id   int
	seq  atomic.Uint32
	ok   bool
	rtt  time.Duration
	what string
}

func (f *trackConn) ID() int { return f.id }
func (f *trackConn) MasterHead() ton.BlockIDExt {
	return pool.VerifHead(f.seq.Load())
}
func (f *trackConn) SetMasterHead(ton.BlockIDExt)    {}
func (f *trackConn) IsOK() bool                      { return f.ok }
func (f *trackConn) Client() *liteclient.Client      { return nil }
func (f *trackConn) Run(context.Context, bool)       {}
func (f *trackConn) IsArchiveNode() bool             { return false }
func (f *trackConn) AverageRoundTrip() time.Duration { return f.rtt }
func (f *trackConn) Status() pool.ConnStatus         { return pool.ConnStatus{} }
func (f *trackConn) String() string {
	return fmt.Sprintf("{id %d %s, alive %v, round-trip %v}", f.id, f.what, f.ok, f.rtt)
}

const (
	trafficBurst2 = -2 // two reporters hand heads to SetMasterHead back to back (the head channel is never empty for long)
	trafficBurst1 = -3 // one reporter does
	trafficThird  = -1 // a head every third of a period
	trafficNone   = 0  // no heads at all (control)

	// count-based verdict: that many heads were taken by Run after its first refresh was certainly due
	trafficHeadsForVerdict = 1000
)

var (
	trafficPeriods = [...]int{20, 30, 50}                                                                                                    // refresh period, ms
	trafficGaps    = [...]int{trafficBurst2, trafficBurst2, trafficBurst1, 1, 2, 5, trafficBurst2, trafficThird, trafficBurst1, trafficNone} // > 0: pause between two heads, ms
	trafficLengths = [...]int{15, 20, 30}                                                                                                    // periods until the verdict
	trafficIDs     = [3][4]int{{0, 1, 2, 3}, {7, 2, 5, 9}, {1, 2, 3, 0}}                                                                     // ids of: previous best, good, second good, reporter
)

type trafficLook struct {
	t       time.Duration
	reports int64
	good    bool // the best connection, read after the number of reports, was "good"
}

// c13/refresh-under-traffic. Pool: the previous best connection, which is not alive (a fake, or the pool's
// real connection type with a lite client that was never connected) or alive but three and more blocks
// behind; "good", alive, always holding the newest head of the pool; optionally a second good member (later
// in configuration order, larger round-trip, one block or more behind); 0..2 waiters whose target is never
// reported. Run is started with a refresh period of 20..50 ms; one or two reporter goroutines hand new heads
// to SetMasterHead of real connections of the pool that are not alive (other members, or the previous best
// itself) - back to back (the next head is due as soon as the pool has taken the previous one), every 1..5 ms,
// every third of a period, or never - after having advanced the good members. During 15..30 periods "good" is
// alive and current in every configuration that exists, nobody else that is eligible comes before it
// (first-working) or has a smaller round-trip (best-ping), so every refresh must choose it: when the periods
// are over (heads still arriving) the best connection is "good".
//
// A violation is reported only if the machine was demonstrably not the reason. Either (count-based, no
// scheduler assumption): the choice was read (a) when Run had taken a head (so its refresh clock had been
// started), (b) two periods or more later, and at the end, and Run took >= 1000 heads between (b) and the end:
// 1000 rounds of Run's loop in each of which the refresh was due. Or (time-based): a 1 ms sleeper that ran
// next to the case never overslept by more than lagForDelivery (40 ms) during the 15..30 periods (>= 300 ms).
// Otherwise the case is inconclusive. A blocked pool (reporter or waiters not back after 20 s) is a violation.
//
// tape: strategy, period, traffic, length, previous best (0 dead fake, 1 stale fake, 2 dead real connection that
// is also a reporter), ids, second good member, waiters
var refreshTraffic = &core.Check{Name: "c13/refresh-under-traffic", Quick: 4, Thorough: 160, Hang: caseHang, Fn: func(c *core.Ctx) error {
	caseStart()
	strategy := c.Choose("strategy", 2)
	period := time.Duration(trafficPeriods[c.Choose("period", len(trafficPeriods))]) * ms
	gapMs := trafficGaps[c.Choose("traffic", len(trafficGaps))]
	length := trafficLengths[c.Choose("periods", len(trafficLengths))]
	badKind := c.Choose("previous best", 3)
	ids := trafficIDs[c.Choose("ids", len(trafficIDs))]
	withSecond := c.Choose("second good member", 2) == 1
	nw := c.Choose("waiters", 3)
	var gap time.Duration
	nRep := 1
	switch gapMs {
	case trafficBurst2:
		nRep = 2
	case trafficBurst1:
	case trafficThird:
		gap = period / 3
	case trafficNone:
		nRep = 0
	default:
		gap = time.Duration(gapMs) * ms
	}
	burst := gapMs == trafficBurst1 || gapMs == trafficBurst2
	window := time.Duration(length) * period

	const base = uint32(baseSeqno)
	good := &trackConn{id: ids[1], ok: true, rtt: 2 * ms, what: "good: always holds the newest head"}
	good.seq.Store(base)
	second := &trackConn{id: ids[2], ok: true, rtt: 3 * ms, what: "second good: a block or more behind"}
	second.seq.Store(base - 1)
	members := []pool.VerifConn{good}
	if withSecond {
		members = append(members, second)
	}
	var bad pool.VerifConn
	var badName string
	switch badKind {
	case 0:
		f := &trackConn{id: ids[0], ok: false, rtt: ms / 2, what: fmt.Sprintf("previous best: not alive, head %d", base)}
		f.seq.Store(base)
		bad, badName = f, f.String()
		members = append(members, f)
	case 1:
		f := &trackConn{id: ids[0], ok: true, rtt: ms / 2, what: fmt.Sprintf("previous best: head %d, three blocks behind from the start", base-3)}
		f.seq.Store(base - 3)
		bad, badName = f, f.String()
		members = append(members, f)
	}
	p := pool.VerifNewPool(strategies[strategy], members, nil)
	p.VerifSetUpdateInterval(period)
	var reporters []pool.VerifConn
	var reporterNames []string
	if err := poolCall("registering connections", func() {
		if badKind == 2 {
			bad = p.VerifAddConnection(ids[0], "previous-best")
			badName = fmt.Sprintf("{id %d previous best: the pool's connection type, lite client never connected (not alive)}", ids[0])
			reporters, reporterNames = append(reporters, bad), append(reporterNames, "the previous best connection")
		}
		for k := 0; len(reporters) < 2; k++ {
			id := ids[3] + 20*k
			reporters = append(reporters, p.VerifAddConnection(id, fmt.Sprintf("reporter-%d", k)))
			reporterNames = append(reporterNames, fmt.Sprintf("member id %d (the pool's connection type, lite client never connected: not alive)", id))
		}
	}); err != nil {
		return err
	}
	if err := setBest(p, bad, "the previous best connection"); err != nil {
		return err
	}
	traffic := "no heads are reported (control)"
	switch {
	case burst && nRep == 2:
		traffic = fmt.Sprintf("new heads back to back on %s and on %s", reporterNames[0], reporterNames[1])
	case burst:
		traffic = fmt.Sprintf("new heads back to back on %s", reporterNames[0])
	case gap > 0:
		traffic = fmt.Sprintf("a new head every %v on %s", gap, reporterNames[0])
	}
	setup := fmt.Sprintf("strategy %s, refresh period %v, members: %s, %s", strategies[strategy], period, badName, good)
	if withSecond {
		setup += ", " + second.String()
	}
	for k, name := range reporterNames {
		if badKind != 2 || k > 0 {
			setup += ", " + name
		}
	}
	setup += fmt.Sprintf("; %d waiters for a head nobody reports; %s", nw, traffic)
	c.Note("case", setup)
	c.Note("verdict after", fmt.Sprintf("%d periods (%v)", length, window))
	switch {
	case burst:
		c.Class("heads back to back")
	case gap > 0:
		c.Class("heads at intervals shorter than the refresh period")
	default:
		c.Class("no head traffic (control)")
	}
	c.Class(fmt.Sprintf("%d registered waiters", nw))

	var wt *farWaiters
	if nw > 0 {
		var err error
		if wt, err = subscribeFar(p, nw); err != nil {
			return err
		}
		if wt == nil {
			c.Class("inconclusive: waiters not registered within 2 s")
			return nil
		}
	}

	probe := startLagProbe()
	ctx, stopRun := context.WithCancel(context.Background())
	defer stopRun()
	t0 := time.Now()
	go p.Run(ctx)

	var stop atomic.Bool
	var next atomic.Uint32
	next.Store(base)
	var reports, longestPause atomic.Int64
	var repWG sync.WaitGroup
	for k := 0; k < nRep; k++ {
		repWG.Add(1)
		go func(cn pool.VerifConn) {
			defer repWG.Done()
			last := time.Now()
			for !stop.Load() {
				s := next.Add(1)
				atomicMax(&good.seq, s) // before anybody else has the head
				atomicMax(&second.seq, s-1)
				cn.SetMasterHead(pool.VerifHead(s))
				reports.Add(1)
				now := time.Now()
				if d := int64(now.Sub(last)); d > longestPause.Load() && !stop.Load() {
					longestPause.Store(d)
				}
				last = now
				if gap > 0 {
					time.Sleep(gap)
				}
			}
		}(reporters[k])
	}
	reportersDone := make(chan struct{})
	go func() { repWG.Wait(); close(reportersDone) }()

	// watch the choice until the periods are over; the verdict is the last look, taken while heads still arrive
	var firstGood time.Duration
	var looks []trafficLook
	var look pool.VerifConn
	var pause time.Duration
	watchErr := poolCall("reading the best connection (pool read lock)", func() {
		for {
			time.Sleep(period / 2)
			lk := trafficLook{t: time.Since(t0), reports: reports.Load()}
			best := p.VerifBest()
			lk.good = best == pool.VerifConn(good)
			looks = append(looks, lk)
			if firstGood == 0 && lk.good {
				firstGood = lk.t
			}
			if lk.t >= window {
				look = best
				break
			}
		}
		pause = time.Duration(longestPause.Load())
	})
	stop.Store(true)
	lag := probe.finish()
	var h *hang
	if watchErr == nil {
		h = await(reportersDone, callLimit, nil)
	}
	stopRun()
	var relErr error
	if wt != nil {
		_, relErr = wt.release()
	}
	if watchErr != nil {
		c.Class("pool blocked")
		return watchErr
	}
	if h != nil {
		c.Class("pool blocked")
		return fmt.Errorf("%s\n%v", setup, blockedError("the reporters' SetMasterHead calls (Run is active)", h))
	}
	last := looks[len(looks)-1]
	// (a) Run has taken a head (the channel holds 10): its ticker exists; (b) two periods later: the refresh is
	// due; (c) the first look by which Run has taken 1000 more heads: the refresh has happened
	judged, taken, sinceB := last, int64(-1), time.Duration(0)
	byCount := false
search:
	for i, a := range looks {
		if a.reports < 11 {
			continue
		}
		for j, b := range looks[i:] {
			if b.t < a.t+2*period {
				continue
			}
			for _, cl := range looks[i+j+1:] {
				if n := cl.reports - b.reports - 10; n >= trafficHeadsForVerdict {
					byCount = true
					if !cl.good || cl == last {
						judged, taken, sinceB = cl, n, cl.t-b.t
						break search
					}
				}
			}
			break search
		}
		break
	}
	byTime := lag <= lagForDelivery && (nRep == 0 || last.reports >= 12)
	if !judged.good {
		if !byCount && !byTime {
			c.Class("inconclusive: scheduler lag")
			return nil
		}
		lookName := "none"
		switch {
		case judged != last:
			lookName = "not " + good.String()
		case look == bad:
			lookName = "the previous best connection"
		case look != nil:
			lookName = fmt.Sprintf("the member with id %d", look.ID())
		}
		evidence := fmt.Sprintf("a 1 ms sleeper never overslept by more than %v meanwhile", lag.Round(ms/10))
		if byCount {
			evidence = fmt.Sprintf("Run took at least %d heads during the last %v before that look, i.e. went that many times round its loop while the refresh was due (the largest oversleep of a 1 ms sleeper during the case was %v)", taken, sinceB.Round(ms), lag.Round(ms/10))
		}
		return fmt.Errorf("%s\nRun was started with a refresh period of %v; %v (%d periods) later the best connection is still %s although %s has been alive and holding the newest head of the pool all the time (no refresh has chosen it: the choice was read every %v). %d heads had been reported by then; the longest pause between two reports during the case was %v; %s",
			setup, period, judged.t.Round(ms), int(judged.t/period), lookName, good, period/2, judged.reports, pause.Round(ms/10), evidence)
	}
	if relErr != nil {
		return relErr
	}
	switch k := int(firstGood / period); {
	case k <= 2:
		c.Class("switch seen within 2 periods")
	case k <= 5:
		c.Class("switch seen within 5 periods")
	default:
		c.Class("switch seen later than 5 periods")
	}
	switch {
	case burst && byCount:
		c.Class("back-to-back heads: enough taken for a count-based verdict")
		c.NonTrivial(strategy, int(period/ms), gapMs, length, badKind, fmt.Sprint(ids), withSecond, nw)
	case gap > 0 && pause < period && last.reports >= 12 && byTime:
		c.Class("no pause between two heads as long as a period")
		c.NonTrivial(strategy, int(period/ms), gapMs, length, badKind, fmt.Sprint(ids), withSecond, nw)
	case !byCount && !byTime:
		c.Class("a violation could not have been called (scheduler lag)")
	}
	return nil
}}

func TestRefreshTraffic(t *testing.T) {
	t.Run("fixed", func(t *testing.T) {
		// four cases with back-to-back heads (one per quick shard): both strategies x two/one reporters x
		// reporter is another member / the previous best, period 20/30 ms, 15 periods, one waiter in two cases
		core.RunEnum(t, refreshTraffic, "", func(yield func(...uint64) bool) {
			for i := uint64(0); i < 4; i++ {
				if !yield(i%2, i/2, 2*(i%2), 0, 2*(i/2), i%3, i%2, (i+1)%2) {
					return
				}
			}
		})
	})
	t.Run("sampled", func(t *testing.T) { core.Run(t, refreshTraffic) })
}
