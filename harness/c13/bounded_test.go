package c13

import (
	"fmt"
	"runtime"
	"runtime/debug"
	"strings"
	"sync"
	"sync/atomic"
	"time"

	"github.com/tonkeeper/tongo/liteapi/pool"
)

// Bounded waits. The property says that the pool's waits never hang and that no interleaving blocks the
// pool, so a check must never wait for the pool without a bound of its own: a blocked pool is a violation
// that the check reports (replay file, goroutine dump), not something the driver finds out when its
// budget is used up. Every call into the pool that a check makes on its own goroutine (SetMasterHead,
// VerifSetBest, VerifWaiters, a quick WaitMasterchainSeqno ...) goes through poolCall; every wait for
// helper goroutines that are inside the pool goes through await / awaitGroup.
//
// Bounds (real time, generous): a call that needs nothing but the pool's and the connections' locks, or
// room in the head channel while Run is draining it, normally takes microseconds; it is called blocked
// when it is not back after callLimit (20 s, the package's figure for "not back long after the
// deadline"). From stuckAfter (3 s) on the matter can be settled earlier, so that a blocked pool costs
// seconds and not minutes (a failing case is re-run many times while it is shrunk): two goroutine dumps
// 500 ms apart must show the watched goroutine (or, for a group, some goroutine) waiting for a lock
// inside the pool package at the same place, no goroutine may be parked by the harness underneath a pool
// frame (the wrappers of head-at-read, head-order, undrained-heads hold the pool lock on purpose for a
// few ms), and a 1 ms sleeper that ran next to the wait must never have overslept by more than 100 ms.
// The library holds its locks for a few memory operations only, so a lock wait that lasts 500 ms on a
// machine that schedules a sleeper within 100 ms has an owner that is itself blocked. The goroutines the
// checks watch this way make one call each (nothing that loops over the same lock).

const (
	callLimit   = 20 * time.Second
	stuckAfter  = 3 * time.Second
	stuckGap    = 500 * ms
	stuckLag    = 100 * ms
	rescueAfter = 2 * time.Second

	// backstop (core.Check.Hang): no case of this package takes longer than a few seconds when the pool
	// works, and every wait of a case is bounded (a blocked pool is reported after 3..50 s); a case that
	// is still running after four minutes is stuck somewhere nobody thought of.
	caseHang = 240 * time.Second
)

// hang describes a wait that did not end.
type hang struct {
	waited   time.Duration
	verified bool // settled before the limit by two goroutine dumps
	lag      time.Duration
	dump     dumpInfo
}

func (h *hang) String() string {
	if h.verified {
		return fmt.Sprintf("after %v (two goroutine dumps %v apart show the same goroutine waiting for the same lock inside the pool package; a 1 ms sleeper never overslept by more than %v meanwhile)", h.waited.Round(ms), stuckGap, h.lag.Round(ms))
	}
	return fmt.Sprintf("after %v (scheduler lag meanwhile at most %v)", h.waited.Round(ms), h.lag.Round(ms))
}

// goid returns the id of the calling goroutine as it appears in a goroutine dump.
func goid() string {
	var buf [64]byte
	s := string(buf[:runtime.Stack(buf[:], false)])
	s = strings.TrimPrefix(s, "goroutine ")
	if k := strings.IndexByte(s, ' '); k > 0 {
		return s[:k]
	}
	return ""
}

// lockStuck takes two goroutine dumps stuckGap apart. gid != "": that goroutine waits for a lock inside
// the pool package at the same place in both; gid == "": some goroutine does. Never true while a
// goroutine is parked by the harness underneath a pool frame.
func lockStuck(gid string) (bool, dumpInfo) {
	a := dumpPoolGoroutines()
	time.Sleep(stuckGap)
	b := dumpPoolGoroutines()
	if a.parked || b.parked {
		return false, b
	}
	if gid != "" {
		sig, ok := a.lockWait[gid]
		return ok && b.lockWait[gid] == sig, b
	}
	for id, sig := range a.lockWait {
		if b.lockWait[id] == sig {
			return true, b
		}
	}
	return false, b
}

// await waits for done, at most limit. gid (optional) names the goroutine whose lock wait settles the
// matter early; without it any goroutine's does. nil: done in time.
func await(done <-chan struct{}, limit time.Duration, gid func() string) *hang {
	t0 := time.Now()
	first := 200 * ms
	if first > limit {
		first = limit
	}
	select {
	case <-done:
		return nil
	case <-time.After(first):
	}
	probe := startLagProbe()
	next := stuckAfter
	for time.Since(t0) < limit {
		until := next
		if until > limit {
			until = limit
		}
		select {
		case <-done:
			probe.finish()
			return nil
		case <-time.After(until - time.Since(t0)):
		}
		if time.Since(t0) >= limit {
			break
		}
		if time.Duration(probe.max.Load()) <= stuckLag {
			id := ""
			if gid != nil {
				id = gid()
			}
			stuck, d := lockStuck(id)
			select {
			case <-done:
				probe.finish()
				return nil
			default:
			}
			if lag := time.Duration(probe.max.Load()); stuck && lag <= stuckLag {
				probe.finish()
				return &hang{waited: time.Since(t0), verified: true, lag: lag, dump: d}
			}
		}
		next = time.Since(t0) + time.Second
	}
	select {
	case <-done:
		probe.finish()
		return nil
	default:
	}
	lag := probe.finish()
	return &hang{waited: time.Since(t0), lag: lag, dump: dumpPoolGoroutines()}
}

// awaitGroup waits until the goroutines of wg are back, at most limit.
func awaitGroup(wg *sync.WaitGroup, limit time.Duration) *hang {
	done := make(chan struct{})
	go func() { wg.Wait(); close(done) }()
	return await(done, limit, nil)
}

func blockedError(what string, h *hang) error {
	return fmt.Errorf("the pool is blocked: %s not back %s\ngoroutines inside the pool package:\n%s", what, h, h.dump.text)
}

// poolCall runs f, a call into the pool that waits for nothing but locks (or for room in the head channel
// while Run is draining it), on a goroutine of its own and reports a blocked pool when f is not back in
// time. A panic of f is re-raised on the caller's goroutine.
func poolCall(what string, f func()) error {
	_, err := poolCallRescue(what, f, nil)
	return err
}

// poolCallRescue is poolCall for SetMasterHead calls made while Run has not been started yet: they fit
// into the head channel of the unchanged library (capacity 10); should one of them not be back after
// rescueAfter, rescue (which starts Run) is called once and the call gets the usual limit from then on.
// rescued tells the check that its scenario is gone (Run was started early).
func poolCallRescue(what string, f func(), rescue func()) (rescued bool, err error) {
	done := make(chan struct{})
	var gid atomic.Value
	var pv any
	var stack string
	go func() {
		defer close(done)
		defer func() {
			if r := recover(); r != nil {
				pv, stack = r, string(debug.Stack())
			}
		}()
		gid.Store(goid())
		f()
	}()
	if rescue != nil {
		select {
		case <-done:
		case <-time.After(rescueAfter):
			rescued = true
			rescue()
		}
	}
	h := await(done, callLimit, func() string { s, _ := gid.Load().(string); return s })
	if h != nil {
		return rescued, blockedError(what, h)
	}
	if pv != nil {
		panic(fmt.Sprintf("%v\n(in %s)\n%s", pv, what, stack))
	}
	return rescued, nil
}

// setHead is SetMasterHead through poolCall.
func setHead(cn pool.VerifConn, name string, seq uint32) error {
	return poolCall(fmt.Sprintf("SetMasterHead(%d) on %s", seq, name), func() { cn.SetMasterHead(pool.VerifHead(seq)) })
}

// setBest is VerifSetBest through poolCall.
func setBest(p *pool.ConnPool, cn pool.VerifConn, name string) error {
	return poolCall("making "+name+" the best connection (pool write lock)", func() { p.VerifSetBest(cn) })
}

// waitersSeen polls the number of registered waiters for at most 2 s until it is at least n (or stop
// says that waiting is pointless) and returns the last number read.
func waitersSeen(p *pool.ConnPool, n int, stop func() bool) (int, error) {
	seen := 0
	err := poolCall("reading the number of registered waiters (pool read lock)", func() {
		t0 := time.Now()
		for {
			seen = p.VerifWaiters()
			if seen >= n || (stop != nil && stop()) || time.Since(t0) > 2*time.Second {
				return
			}
			time.Sleep(100 * time.Microsecond)
		}
	})
	return seen, err
}
