package c13

import (
	"context"
	"fmt"
	"testing"
	"time"

	"github.com/tonkeeper/tongo/liteapi/pool"

	"verifharness/internal/core"
)

// c13/reached-short: the best connection has reported head H before the call is made. A waiter for a seqno
// at or below H has its head "in time" whatever its (positive) timeout is: the call returns success, also
// when the timeout is so short that the timer has fired before the waiter looks at it.
// tape: timeout in nanoseconds, how far the target lies below the head, whether another connection reports too.
var reachedShort = &core.Check{Name: "c13/reached-short", Hang: caseHang, Fn: func(c *core.Ctx) error {
	caseStart()
	timeout := time.Duration(1 + c.Intn("timeout ns", 10_000_000))
	below := uint32(c.Intn("below", 4))
	withOther := c.Intn("other", 2) == 1
	// the caller's context may have ended before the call: the head it asks for was reported before that,
	// "in time" by any reading, and the call returns success as it does under a live context
	ctxDone := c.Intn("caller's context already cancelled", 2) == 1
	p := pool.VerifNewPool(pool.FirstWorkingConnection, nil, nil)
	p.VerifSetUpdateInterval(time.Hour)
	best := p.VerifNewConnection(0)
	if err := setBest(p, best, "conn0"); err != nil {
		return err
	}
	other := p.VerifNewConnection(1)
	ctx, cancel := context.WithCancel(context.Background())
	defer cancel()
	go p.Run(ctx)
	const head = 1000
	if err := poolCall("SetMasterHead on the best connection", func() { best.SetMasterHead(pool.VerifHead(head)) }); err != nil {
		return err
	}
	if withOther {
		if err := poolCall("SetMasterHead on conn1", func() { other.SetMasterHead(pool.VerifHead(head + 3)) }); err != nil {
			return err
		}
	}
	c.Note("timeout", timeout.String())
	c.NonTrivial(int64(timeout), below, withOther, ctxDone)
	callCtx := ctx
	if ctxDone {
		cc, done := context.WithCancel(context.Background())
		done()
		callCtx = cc
		c.Class("caller's context cancelled before the call")
	}
	const calls = 400
	failed, first := 0, error(nil)
	if err := poolCall(fmt.Sprintf("%d calls of WaitMasterchainSeqno for a head that is already there", calls), func() {
		for i := 0; i < calls; i++ {
			if err := p.WaitMasterchainSeqno(callCtx, head-below, timeout); err != nil {
				if failed == 0 {
					first = err
				}
				failed++
			}
		}
	}); err != nil {
		return err
	}
	if failed > 0 {
		return fmt.Errorf("the best connection had reported head %d before the calls were made; %d of %d calls of WaitMasterchainSeqno(%d, %v) returned an error (first: %v; caller's context cancelled before the calls: %v)", head, failed, calls, head-below, timeout, first, ctxDone)
	}
	return nil
}}

func TestReachedShort(t *testing.T) {
	core.RunEnum(t, reachedShort, "already reported heads: timeouts 1 ns .. 5 ms x target 0..3 below the head x with and without a second connection, 400 calls each", func(yield func(...uint64) bool) {
		for _, ns := range []uint64{0, 1, 9, 99, 999, 9_999, 99_999, 999_999, 4_999_999} {
			for below := uint64(0); below < 4; below++ {
				for other := uint64(0); other < 2; other++ {
					if !yield(ns, below, other, 0) {
						return
					}
				}
			}
			if !yield(ns, 0, 0, 1) || !yield(ns, 3, 1, 1) {
				return
			}
		}
	})
}
