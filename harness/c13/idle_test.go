package c13

import (
	"context"
	"errors"
	"fmt"
	"runtime"
	"strings"
	"sync"
	"sync/atomic"
	"testing"
	"time"

	"github.com/tonkeeper/tongo/liteapi/pool"
	"github.com/tonkeeper/tongo/ton"

	"verifharness/internal/core"
)

// c13/run-idle: the callers' side of the pool does not depend on the Run loop keeping up. The connections
// of a pool report heads from goroutines of their own (InitializeConnections starts them with
// context.TODO(), liteapi.NewClient starts Run only after the connections are there, and a cancelled Run
// leaves them running), so there are stretches in which nobody takes head updates out of the pool's
// channel while more of them are due than the channel holds: the connections' reporters then wait for
// room. The property's sentences about callers hold all the same: a caller whose seqno the best
// connection has already reported returns success, a caller whose seqno is never reported returns its
// error once the timeout has elapsed (not before) or its context is cancelled, BestMasterchainClient on
// a best connection that has a head returns it, and none of these calls stays inside the pool. Nothing
// here needs Run: the head of the best connection is read at subscription, timeouts and contexts are the
// caller's own.
//
// A case: pool of 1..3 real connections; Run not started yet / started, used by one waiter and cancelled
// (the check waits until Run has returned) / active (control); one reporter goroutine per connection hands
// 4..25 increasing heads to SetMasterHead back to back; when the reporters have stalled (or finished),
// 2..5 callers arrive at once: WaitMasterchainSeqno for a head the best connection's SetMasterHead had
// returned for before (must succeed), for a head nobody reports (30..150 ms timeout: error, not before
// the timeout), the same with a context cancelled after 5..40 ms (context error, not before the
// cancellation), for a head just above what the best connection had completed (either result; success
// only if such a head had been handed to the best connection, error not before the timeout),
// BestMasterchainClient (success, head >= 1), ConnectionsNumber (the number of connections). All must be
// back callLimit (20 s) after the longest timeout at the latest (earlier verdict by goroutine dumps, see
// bounded_test.go). Afterwards Run is started (again): every reporter must return and a fresh waiter must
// receive a fresh head of the best connection. No verdict depends on how fast the machine is, except "not
// back 20 s after the deadline".

type idleCaller struct {
	kind     int // 0 reached, 1 never reached, 2 never reached + cancel, 3 just above, 4 BestMasterchainClient, 5 ConnectionsNumber
	back     int // reached: target = completed head - back
	up       int // just above: target = completed head + 1 + up
	timeout  time.Duration
	cancelAt time.Duration

	target  uint32
	t0, t1  time.Duration
	cancelT time.Duration
	err     error
	head    ton.BlockIDExt
	n       int
	handed  uint32 // the highest head handed to the best connection's SetMasterHead when the call was back
	back_   atomic.Bool
}

func (a *idleCaller) String() string {
	switch a.kind {
	case 0:
		return fmt.Sprintf("WaitMasterchainSeqno(%d, %v), a head the best connection has reported", a.target, a.timeout)
	case 1:
		return fmt.Sprintf("WaitMasterchainSeqno(%d, %v), a head nobody reports", a.target, a.timeout)
	case 2:
		return fmt.Sprintf("WaitMasterchainSeqno(%d, %v), a head nobody reports, context cancelled after %v", a.target, a.timeout, a.cancelAt)
	case 3:
		return fmt.Sprintf("WaitMasterchainSeqno(%d, %v), a head just above what the best connection had completed", a.target, a.timeout)
	case 4:
		return "BestMasterchainClient(context with a 4 s deadline)"
	default:
		return "ConnectionsNumber()"
	}
}

var runIdle = &core.Check{Name: "c13/run-idle", Quick: 24, Thorough: 2400, Hang: caseHang, Fn: func(c *core.Ctx) error {
	caseStart()
	gmp := c.OneOf("gomaxprocs", 1, 2, 16)
	nconn := 1 + c.Choose("connections-1", 3)
	bestPos := c.Choose("best", 3) % nconn
	mode := c.Weighted("Run", 3, 3, 1) // 0 not started yet, 1 started, used, cancelled, 2 active (control)
	perConn := c.OneOf("heads per connection", 14, 4, 25, 11)
	nCalls := 2 + c.Choose("callers-2", 4)
	callers := make([]*idleCaller, nCalls)
	for i := range callers {
		a := &idleCaller{kind: c.Weighted("caller", 4, 4, 2, 2, 2, 1)}
		a.back = c.Range("back", 0, 2)
		a.up = c.Range("up", 0, 2)
		a.timeout = time.Duration(c.OneOf("timeout.ms", 40, 30, 80, 150)) * ms
		a.cancelAt = time.Duration(c.OneOf("cancel.ms", 10, 5, 40)) * ms
		callers[i] = a
	}
	modeName := [...]string{
		"Run has not been started yet",
		"Run was started, served a waiter, was cancelled and has returned",
		"Run active (control)",
	}[mode]
	const base = uint32(baseSeqno)
	c.Note("gomaxprocs", gmp)
	c.Note("pool", fmt.Sprintf("%d connections, best conn%d, all at head %d; %s", nconn, bestPos, base, modeName))
	c.Note("heads", fmt.Sprintf("one reporter per connection hands %d increasing heads to SetMasterHead back to back (%d in all; the head channel holds 10)", perConn, perConn*nconn))
	c.Class("Run: " + modeName)
	c.Class(fmt.Sprintf("gomaxprocs %d", gmp))

	old := runtime.GOMAXPROCS(gmp)
	defer runtime.GOMAXPROCS(old)

	blocked := func(err error) error {
		c.Class("pool blocked")
		return err
	}
	p := pool.VerifNewPool(pool.FirstWorkingConnection, nil, nil)
	p.VerifSetUpdateInterval(time.Hour)
	conns := make([]pool.VerifConn, nconn)
	for i := range conns {
		conns[i] = p.VerifNewConnection(i)
	}
	best := conns[bestPos]
	if err := setBest(p, best, fmt.Sprintf("conn%d (fresh pool)", bestPos)); err != nil {
		return blocked(err)
	}
	t0 := time.Now()
	since := func() time.Duration { return time.Since(t0) }

	var stops []context.CancelFunc
	defer func() {
		for _, stop := range stops {
			stop()
		}
	}()
	startRun := func() chan struct{} {
		done := make(chan struct{})
		ctx, stop := context.WithCancel(context.Background())
		stops = append(stops, stop)
		go func() { defer close(done); p.Run(ctx) }()
		return done
	}
	var runDone chan struct{}
	if mode != 0 {
		runDone = startRun()
	}
	for i, cn := range conns { // at most 3 updates: they fit into the channel also without Run
		if err := setHead(cn, fmt.Sprintf("conn%d (fresh pool)", i), base); err != nil {
			return blocked(err)
		}
	}
	completed := base // the highest head for which SetMasterHead on the best connection has returned
	if mode == 1 {
		// the pool works: a waiter is served; then the loop is stopped
		w := make(chan error, 1)
		go func() { w <- p.WaitMasterchainSeqno(context.Background(), base+1, pointTimeout) }()
		if _, err := waitersSeen(p, 1, func() bool { return len(w) > 0 }); err != nil {
			return blocked(err)
		}
		probe := startLagProbe()
		if err := setHead(best, fmt.Sprintf("the best connection conn%d (Run active)", bestPos), base+1); err != nil {
			probe.finish()
			return blocked(err)
		}
		pubT := since()
		completed = base + 1
		wdone := make(chan struct{})
		var werr error
		go func() { werr = <-w; close(wdone) }()
		h := await(wdone, pointTimeout+20*time.Second, nil)
		lag := probe.finish()
		if h != nil {
			return blocked(blockedError(fmt.Sprintf("WaitMasterchainSeqno(%d, %v) on a fresh pool with Run active", base+1, pointTimeout), h))
		}
		if werr != nil {
			if lag > pointLag || pubT > pointTimeout-pointMargin {
				c.Class("inconclusive: scheduler lag")
				return nil
			}
			return fmt.Errorf("warm-up: WaitMasterchainSeqno(%d, %v) on a fresh pool with Run active returned %s although the best connection conn%d reported head %d at %v", base+1, pointTimeout, errText(werr), bestPos, base+1, pubT)
		}
		stops[0]()
		if h := await(runDone, callLimit, nil); h != nil {
			return blocked(blockedError("Run, after its context was cancelled,", h))
		}
	}

	// the reporters
	total := perConn * nconn
	var returned atomic.Int64
	var handedBest, completedBest atomic.Uint32
	handedBest.Store(completed)
	completedBest.Store(completed)
	var rep sync.WaitGroup
	for i := range conns {
		rep.Add(1)
		go func(i int) {
			defer rep.Done()
			for k := 1; k <= perConn; k++ {
				seq := completed + uint32(k)
				if i == bestPos {
					handedBest.Store(seq)
				}
				conns[i].SetMasterHead(pool.VerifHead(seq))
				if i == bestPos {
					completedBest.Store(seq)
				}
				returned.Add(1)
			}
		}(i)
	}
	repDone := make(chan struct{})
	go func() { rep.Wait(); close(repDone) }()
	// until they have stalled or finished (no verdict depends on it)
	stallT := time.Now()
	for prev, same := int64(-1), 0; time.Since(stallT) < 2*time.Second && same < 5; {
		n := returned.Load()
		if n == int64(total) {
			break
		}
		if n == prev {
			same++
		} else {
			prev, same = n, 0
		}
		time.Sleep(2 * ms)
	}
	time.Sleep(3 * ms)
	stalledAt := returned.Load()
	have := completedBest.Load()
	c.Note("when the callers arrive", fmt.Sprintf("%d of %d SetMasterHead calls have returned; the best connection has completed head %d", stalledAt, total, have))

	// the callers, all at once
	var longest time.Duration
	var lines []string
	for _, a := range callers {
		switch a.kind {
		case 0:
			a.target = have - uint32(a.back)
		case 1, 2:
			a.target = farSeqno
			if a.kind == 2 {
				a.timeout = pointTimeout
			}
		case 3:
			a.target = have + 1 + uint32(a.up)
		case 4:
			a.timeout = pointTimeout
		}
		d := a.timeout
		if a.kind == 2 {
			d = a.cancelAt
		}
		if a.kind != 4 && a.kind != 0 && a.kind != 5 && d > longest {
			longest = d
		}
		lines = append(lines, a.String())
	}
	c.Note("callers", lines)
	var wg sync.WaitGroup
	for _, a := range callers {
		wg.Add(1)
		go func(a *idleCaller) {
			defer wg.Done()
			ctx, cancel := context.WithCancel(context.Background())
			defer cancel()
			a.t0 = since()
			switch a.kind {
			case 0, 1, 3:
				a.err = p.WaitMasterchainSeqno(ctx, a.target, a.timeout)
			case 2:
				var cancelT atomic.Int64
				tm := time.AfterFunc(a.cancelAt, func() { cancelT.Store(int64(since())); cancel() })
				a.err = p.WaitMasterchainSeqno(ctx, a.target, a.timeout)
				tm.Stop()
				a.cancelT = time.Duration(cancelT.Load())
			case 4:
				cctx, ccancel := context.WithTimeout(ctx, a.timeout)
				_, a.head, a.err = p.BestMasterchainClient(cctx)
				ccancel()
			default:
				a.n = p.ConnectionsNumber()
			}
			a.handed = handedBest.Load()
			a.t1 = since()
			a.back_.Store(true)
		}(a)
	}
	if h := awaitGroup(&wg, longest+callLimit); h != nil {
		var stuck []string
		for _, a := range callers {
			if !a.back_.Load() {
				stuck = append(stuck, a.String())
			}
		}
		c.Class("pool blocked")
		return fmt.Errorf("the pool is blocked: %s; %d of %d SetMasterHead calls of the connections had returned when the callers arrived; callers not back %s: %s\ngoroutines inside the pool package:\n%s",
			modeName, stalledAt, total, h, strings.Join(stuck, "; "), h.dump.text)
	}

	var problems []string
	for _, a := range callers {
		name := fmt.Sprintf("%s, started %v, back after %v", a, a.t0, a.t1-a.t0)
		switch a.kind {
		case 0:
			c.Class("caller: head already reported")
			if a.err != nil {
				problems = append(problems, fmt.Sprintf("%s: returned %s although SetMasterHead(%d) on the best connection conn%d had returned before the call", name, errText(a.err), have, bestPos))
			}
		case 1:
			c.Class("caller: head never reported")
			if a.err == nil {
				problems = append(problems, name+": returned success")
			} else if a.t1-a.t0 < a.timeout {
				problems = append(problems, fmt.Sprintf("%s: returned %s before its timeout", name, errText(a.err)))
			}
		case 2:
			c.Class("caller: cancelled")
			if a.err == nil {
				problems = append(problems, name+": returned success")
			} else if !errors.Is(a.err, context.Canceled) {
				problems = append(problems, fmt.Sprintf("%s: returned %s %v after the start, not the context's error", name, errText(a.err), a.t1-a.t0))
			} else if a.cancelT == 0 || a.cancelT > a.t1 {
				problems = append(problems, name+": returned the context's error before the context was cancelled")
			}
		case 3:
			c.Class("caller: head just above the completed one")
			if a.err == nil && a.handed < a.target {
				problems = append(problems, fmt.Sprintf("%s: returned success although the highest head handed to the best connection conn%d by then was %d", name, bestPos, a.handed))
			} else if a.err != nil && a.t1-a.t0 < a.timeout {
				problems = append(problems, fmt.Sprintf("%s: returned %s before its timeout", name, errText(a.err)))
			}
		case 4:
			c.Class("caller: BestMasterchainClient")
			if a.err != nil {
				problems = append(problems, fmt.Sprintf("%s: returned %s although the best connection conn%d has a head (%d or newer)", name, errText(a.err), bestPos, have))
			} else if a.head.Seqno < have || a.head.Seqno > a.handed {
				problems = append(problems, fmt.Sprintf("%s: returned head %d; the best connection conn%d had completed %d before the call and was handed %d at most", name, a.head.Seqno, bestPos, have, a.handed))
			}
		default:
			c.Class("caller: ConnectionsNumber")
			if a.n != nconn {
				problems = append(problems, fmt.Sprintf("%s: returned %d, the pool has %d connections", name, a.n, nconn))
			}
		}
	}
	if len(problems) > 0 {
		return fmt.Errorf("%s; %d of %d SetMasterHead calls of the connections had returned when the callers arrived\n%s", modeName, stalledAt, total, joinLines(problems))
	}

	// Run is started (again): the reporters get their room, the pool delivers
	if mode != 2 {
		startRun()
	}
	if h := await(repDone, callLimit, nil); h != nil {
		c.Class("pool blocked")
		return fmt.Errorf("the pool is blocked: the connections' SetMasterHead calls (%d of %d had returned while nobody was draining the head channel) are not all back %s, counted from the start of Run\ngoroutines inside the pool package:\n%s", stalledAt, total, h, h.dump.text)
	}
	if ok, why := sentinelDelivered(p, best, sentinel, 20*time.Second); !ok {
		c.Class("pool blocked")
		_, d := verifiablyStuck(func() int64 { return 0 })
		return fmt.Errorf("after the case (Run active) the pool does not deliver a fresh head to a fresh waiter within 20 s: %s\ngoroutines inside the pool package:\n%s", why, d.text)
	}
	if mode != 2 && stalledAt < int64(total) {
		c.Class("reporters were waiting for room in the head channel when the callers arrived")
		var kinds []int
		for _, a := range callers {
			kinds = append(kinds, a.kind, a.back, a.up, int(a.timeout/ms))
		}
		c.NonTrivial(gmp, nconn, bestPos, mode, perConn, fmt.Sprint(kinds))
	}
	return nil
}}

func TestRunIdle(t *testing.T) { core.Run(t, runIdle) }
