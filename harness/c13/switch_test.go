package c13

import (
	"context"
	"fmt"
	"runtime"
	"strings"
	"sync"
	"testing"
	"time"

	"github.com/tonkeeper/tongo/liteapi/pool"

	"verifharness/internal/core"
)

// c13/switch-catch-up: waits around best-connection switches. The property speaks about "the best
// connection" of the moment: whatever the pool remembers about heads it has handed out must not outlive a
// switch of the best connection. A case is a history of 1..3 rounds on a pool of 2..3 real connections
// with Run active:
//
//	1. the best connection B leads by 0..3 further heads (optionally a waiter for the last of them is
//	   registered before and must be served);
//	2. another connection N follows up to H-1 (H = B's head; one block behind, which is what a refresh
//	   may choose when B dies), or is left 2..3 blocks behind, or is level with B;
//	3. the best connection is switched to N (hook VerifSetBest; the refresh itself cannot be used on
//	   hook-made connections because they have no lite client to ask for liveness);
//	4. 1..3 callers wait for a seqno between N's head + 1 and H + 1 and are seen registered;
//	5. N catches up: step by step, directly to the target, or beyond it; nothing follows. Or (control) N
//	   stops one block short of the target and the callers (40..80 ms timeout) must get their error,
//	   also when the previous best connection, now an ordinary member, reports heads beyond the target.
//
// Everything is sequential: a step starts after the previous one has returned, so the best connection
// during every call is known for certain. Verdicts: a waiter of step 4 returns success (N, the best
// connection, reported the target seconds before the 4 s timeout); an error counts only if all waiters
// were registered before N reported, N's SetMasterHead had returned >= 2 s before the deadline and a
// 1 ms sleeper never overslept by more than 300 ms, else the case is inconclusive. Success before the
// best connection was handed a head >= target is a violation, so is success of a control waiter and an
// error before the timeout.

type swStepKind int

const (
	swPublish swStepKind = iota // SetMasterHead(seq) on connection conn
	swStart                     // start n waiters for target and see them registered
	swJoin                      // wait for the open group of waiters and judge them
	swSwitch                    // VerifSetBest(conn)
	swPause                     // sleep d
)

type swStep struct {
	kind    swStepKind
	conn    int
	seq     uint32
	oblige  bool // publish: the first head >= target of the open group reported by the best connection
	n       int
	target  uint32
	timeout time.Duration
	succeed bool // start: the group must succeed (else: must time out)
	d       time.Duration
	round   int
}

func (s swStep) String() string {
	switch s.kind {
	case swPublish:
		return fmt.Sprintf("conn%d reports head %d", s.conn, s.seq)
	case swStart:
		exp := "the best connection is going to report it"
		if !s.succeed {
			exp = "the best connection is not going to report it"
		}
		return fmt.Sprintf("%d x WaitMasterchainSeqno(%d, %v) start and are seen registered (%s)", s.n, s.target, s.timeout, exp)
	case swJoin:
		return "the waiters return"
	case swSwitch:
		return fmt.Sprintf("the best connection is switched to conn%d", s.conn)
	default:
		return fmt.Sprintf("pause %v", s.d)
	}
}

type swRes struct {
	err    error
	t0, t1 time.Duration
}

var switchCatchUp = &core.Check{Name: "c13/switch-catch-up", Quick: 40, Thorough: 4000, Hang: caseHang, Fn: func(c *core.Ctx) error {
	caseStart()
	gmp := c.OneOf("gomaxprocs", 1, 2, 16)
	nconn := 2 + c.Choose("connections-2", 2)
	best0 := c.Choose("best0", 3) % nconn
	rounds := 1 + c.Weighted("rounds-1", 2, 2, 1)

	const base = uint32(baseSeqno)
	heads := make([]uint32, nconn)
	for i := range heads {
		d := uint32(c.Choose("initial lag", 3))
		if i == best0 {
			d = 0
		}
		heads[i] = base - d
	}
	initial := append([]uint32(nil), heads...)

	// the plan
	var steps []swStep
	best := best0
	catchUps, behindSwitches := 0, 0
	var key []any
	for r := 1; r <= rounds; r++ {
		lead := c.Weighted("lead", 1, 2, 2, 1)
		served := c.Bool("served")
		next := c.Choose("next", 2)
		behind := []int{1, 2, 3, 0}[c.Weighted("behind", 5, 1, 1, 1)]
		tsel := c.Weighted("target", 3, 3, 1)
		pattern := c.Weighted("catch-up", 3, 2, 1, 1) // 0 step by step, 1 directly, 2 beyond, 3 never (control)
		nW := 1 + c.Choose("waiters-1", 3)
		oldAhead := c.Weighted("old best goes on", 2, 1) == 1
		gap := time.Duration(c.OneOf("gap.ms", 2, 0, 5)) * ms
		shortTimeout := time.Duration(c.OneOf("control timeout.ms", 40, 80)) * ms
		key = append(key, lead, served, next, behind, tsel, pattern, nW, oldAhead)

		b := best
		add := func(s swStep) { s.round = r; steps = append(steps, s) }
		// 1. the best connection leads
		if lead > 0 {
			if served {
				add(swStep{kind: swStart, n: 1, target: heads[b] + uint32(lead), timeout: pointTimeout, succeed: true})
			}
			for i := 1; i <= lead; i++ {
				heads[b]++
				add(swStep{kind: swPublish, conn: b, seq: heads[b], oblige: served && i == lead})
			}
			if served {
				add(swStep{kind: swJoin})
			}
		}
		if (lead == 0 || !served) && gap > 0 {
			add(swStep{kind: swPause, d: gap}) // Run gets time to hand out what the best connection has reported
		}
		h := heads[b]
		// 2. the next best connection follows
		nb := (b + 1 + next%(nconn-1)) % nconn
		if want := h - uint32(behind); heads[nb] < want {
			heads[nb] = want
			add(swStep{kind: swPublish, conn: nb, seq: want})
		}
		// 3. the switch
		add(swStep{kind: swSwitch, conn: nb})
		low := heads[nb]
		if low < h {
			behindSwitches++
		}
		// 4. the waiters
		var target uint32
		switch tsel {
		case 0:
			target = low + 1
		case 1:
			target = h
			if target <= low {
				target = low + 1
			}
		default:
			target = h + 1
			if target <= low {
				target = low + 1
			}
		}
		if pattern == 3 {
			add(swStep{kind: swStart, n: nW, target: target, timeout: shortTimeout})
		} else {
			add(swStep{kind: swStart, n: nW, target: target, timeout: pointTimeout, succeed: true})
		}
		if oldAhead {
			// the previous best connection, now an ordinary member, goes on beyond the target
			s := h
			if target > s {
				s = target
			}
			heads[b] = s + 1
			add(swStep{kind: swPublish, conn: b, seq: heads[b]})
		}
		// 5. the new best connection catches up
		switch pattern {
		case 0:
			for s := low + 1; s <= target; s++ {
				add(swStep{kind: swPublish, conn: nb, seq: s, oblige: s == target})
			}
			heads[nb] = target
		case 1:
			add(swStep{kind: swPublish, conn: nb, seq: target, oblige: true})
			heads[nb] = target
		case 2:
			add(swStep{kind: swPublish, conn: nb, seq: target + 2, oblige: true})
			heads[nb] = target + 2
		default:
			for s := low + 1; s < target; s++ {
				add(swStep{kind: swPublish, conn: nb, seq: s})
			}
			heads[nb] = target - 1
		}
		add(swStep{kind: swJoin})
		if pattern != 3 && low < h && target <= h {
			catchUps++
		}
		best = nb
	}

	var lines []string
	for i, s := range steps {
		lines = append(lines, fmt.Sprintf("%2d (round %d) %s", i, s.round, s))
	}
	c.Note("gomaxprocs", gmp)
	c.Note("pool", fmt.Sprintf("%d connections, best conn%d, initial heads %v, Run active", nconn, best0, initial))
	c.Note("history", "\n"+strings.Join(lines, "\n"))
	c.Class(fmt.Sprintf("gomaxprocs %d", gmp))
	c.Class(fmt.Sprintf("rounds: %d", rounds))

	old := runtime.GOMAXPROCS(gmp)
	defer runtime.GOMAXPROCS(old)

	p := pool.VerifNewPool(pool.FirstWorkingConnection, nil, nil)
	p.VerifSetUpdateInterval(time.Hour)
	conns := make([]pool.VerifConn, nconn)
	for i := range conns {
		conns[i] = p.VerifNewConnection(i)
	}
	// every call into the pool is bounded (bounded_test.go): with Run active none of them waits for anything
	// but locks and room in the head channel
	blocked := func(err error) error {
		c.Class("pool blocked")
		return err
	}
	if err := setBest(p, conns[best0], fmt.Sprintf("conn%d (fresh pool)", best0)); err != nil {
		return blocked(err)
	}
	ctx, stopRun := context.WithCancel(context.Background())
	defer stopRun()
	go p.Run(ctx)
	t0 := time.Now()
	since := func() time.Duration { return time.Since(t0) }
	for i, cn := range conns {
		if err := setHead(cn, fmt.Sprintf("conn%d (fresh pool, Run active)", i), initial[i]); err != nil {
			return blocked(err)
		}
	}
	time.Sleep(2 * ms)

	probe := startLagProbe()
	probeDone := false
	var lag time.Duration
	finishProbe := func() time.Duration {
		if !probeDone {
			probeDone = true
			lag = probe.finish()
		}
		return lag
	}
	defer finishProbe()

	wctx, cancelWaiters := context.WithCancel(context.Background())
	defer cancelWaiters()
	var wg sync.WaitGroup
	// the open group
	var (
		open           *swStep
		openAt         int
		out            chan swRes
		pubT0, pubT1   time.Duration
		published      bool
		obligingHead   uint32
		obligingConn   int
		curBest        = best0
		switchedAt     time.Duration
		switchedAtStep = -1
	)
	for i := range steps {
		s := &steps[i]
		switch s.kind {
		case swPause:
			time.Sleep(s.d)
		case swSwitch:
			if err := setBest(p, conns[s.conn], fmt.Sprintf("(step %d) conn%d", i, s.conn)); err != nil {
				return blocked(err)
			}
			curBest, switchedAt, switchedAtStep = s.conn, since(), i
		case swPublish:
			a := since()
			if err := setHead(conns[s.conn], fmt.Sprintf("conn%d (step %d, Run active)", s.conn, i), s.seq); err != nil {
				return blocked(err)
			}
			if s.oblige {
				pubT0, pubT1, published = a, since(), true
				obligingHead, obligingConn = s.seq, s.conn
			}
		case swStart:
			open, openAt, published = s, i, false
			out = make(chan swRes, s.n)
			for k := 0; k < s.n; k++ {
				wg.Add(1)
				go func(target uint32, timeout time.Duration, out chan swRes) {
					defer wg.Done()
					r := swRes{t0: since()}
					r.err = p.WaitMasterchainSeqno(wctx, target, timeout)
					r.t1 = since()
					out <- r
				}(s.target, s.timeout, out)
			}
			group := out
			n, err := waitersSeen(p, s.n, func() bool { return len(group) >= s.n })
			if err != nil {
				return blocked(err)
			}
			if n != s.n && s.succeed {
				// not all registered within 2 s (slow machine): nothing is published for them, no verdict
				cancelWaiters()
				if h := awaitGroup(&wg, callLimit); h != nil {
					return blocked(blockedError(fmt.Sprintf("step %d: %d x WaitMasterchainSeqno(%d) whose context was cancelled", i, s.n, s.target), h))
				}
				c.Class("inconclusive: waiters not registered in 2 s (slow machine)")
				return nil
			}
		case swJoin:
			if h := awaitGroup(&wg, open.timeout+20*time.Second); h != nil {
				c.Class("pool blocked")
				return fmt.Errorf("the pool is blocked: step %d: %d x WaitMasterchainSeqno(%d, %v) not all back %s\ngoroutines inside the pool package:\n%s", openAt, open.n, open.target, open.timeout, h, h.dump.text)
			}
			close(out)
			where := fmt.Sprintf("the best connection was conn%d from the start", curBest)
			if switchedAtStep >= 0 {
				where = fmt.Sprintf("the best connection is conn%d since step %d (switch returned at %v)", curBest, switchedAtStep, switchedAt)
			}
			var problems []string
			inconclusive := ""
			for r := range out {
				if !open.succeed {
					// control: no connection that was best during the call reported the target
					if r.err == nil {
						problems = append(problems, fmt.Sprintf("step %d: WaitMasterchainSeqno(%d, %v) started at %v returned success at %v although %s and its newest head is %d", openAt, open.target, open.timeout, r.t0, r.t1, where, open.target-1))
					} else if r.t1-r.t0 < open.timeout && wctx.Err() == nil {
						problems = append(problems, fmt.Sprintf("step %d: WaitMasterchainSeqno(%d, %v) returned %s after %v, before its timeout", openAt, open.target, open.timeout, errText(r.err), r.t1-r.t0))
					}
					continue
				}
				if r.err == nil {
					if !published || r.t1 < pubT0 {
						problems = append(problems, fmt.Sprintf("step %d: WaitMasterchainSeqno(%d) started at %v returned success at %v, before the best connection was handed a head >= %d (at %v); %s", openAt, open.target, r.t0, r.t1, open.target, pubT0, where))
					}
					continue
				}
				deadline := r.t0 + open.timeout
				switch {
				case finishProbe() > pointLag:
					inconclusive = "scheduler lag"
				case pubT1 > deadline-pointMargin:
					inconclusive = "head published late"
				default:
					problems = append(problems, fmt.Sprintf("step %d: WaitMasterchainSeqno(%d, %v) started at %v (seen registered before the head was reported) returned %s at %v although the best connection conn%d reported head %d at %v (SetMasterHead returned at %v), %v before the deadline; %s; scheduler lag %v",
						openAt, open.target, open.timeout, r.t0, errText(r.err), r.t1, obligingConn, obligingHead, pubT0, pubT1, deadline-pubT1, where, lag))
				}
			}
			if len(problems) > 0 {
				if n := len(problems); n > 2 {
					problems = append(problems[:2], fmt.Sprintf("(%d more waiters alike)", n-2))
				}
				return fmt.Errorf("%s", joinLines(problems))
			}
			if inconclusive != "" {
				c.Class("inconclusive: " + inconclusive)
				return nil
			}
			open = nil
		}
	}
	c.Note("scheduler lag", finishProbe().String())

	// after the history the pool still serves a fresh waiter on the current best connection
	if ok, why := sentinelDelivered(p, conns[curBest], sentinel, 20*time.Second); !ok {
		c.Class("pool blocked")
		_, d := verifiablyStuck(func() int64 { return 0 })
		return fmt.Errorf("after the history the pool does not deliver a fresh head of the best connection conn%d to a fresh waiter within 20 s: %s\ngoroutines inside the pool package:\n%s", curBest, why, d.text)
	}
	if behindSwitches > 0 {
		c.Class("switch to a connection that is behind")
	}
	if catchUps > 0 {
		c.Class("waiters for a head the previous best connection had reported, served by the new one catching up")
		c.NonTrivial(append([]any{gmp, nconn, best0, fmt.Sprint(initial)}, key...)...)
	}
	return nil
}}

func TestSwitchCatchUp(t *testing.T) { core.Run(t, switchCatchUp) }
