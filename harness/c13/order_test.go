package c13

import (
	"context"
	"fmt"
	"runtime"
	"sync"
	"testing"
	"time"

	"github.com/tonkeeper/tongo/liteapi/pool"
	"github.com/tonkeeper/tongo/ton"

	"verifharness/internal/core"
)

// c13/head-order: a head the best connection has reported stays reported. The waiters of a case are
// registered for head T and are NOT parked on their channels when the pool hands out, back to back,
// (1) a head at or beyond T that the best connection reported and (2) an older head, and nothing
// afterwards. The property obliges every waiter to succeed: the best connection reported T seconds
// before the deadline. Whatever the pool keeps per waiter between two reads of the waiter must therefore
// never go back to a head below one it already holds.
//
// How the waiters are kept away from their channels: they are woken by one or two heads below T just
// before (a woken waiter needs the CPU before it parks again; with GOMAXPROCS 1 it does not get it while
// Run works through the queued updates, with more processors it usually loses the race against Run). With
// a late Run the queued notification of the connection's initial head does the same.
//
// How the older head gets behind the newer one (two routes):
//
//	route 0, best-connection switch: connection X is the best one, reports T, Run hands it out; then the
//	  best connection becomes Y (one block behind, a legal choice) and Y reports T-1. The switch and Y's
//	  report are made by a goroutine that the scripted connection X releases from inside its ID() method,
//	  i.e. from inside Run's dispatch of X's head T (ID() of the best connection is called once per
//	  dispatched update); the switch needs the pool's write lock, so it happens after that dispatch. The
//	  goroutine signals nobody: with GOMAXPROCS 1 it runs right after Run has gone back to its select,
//	  and Run runs right after it, before any woken waiter (always without the race detector; with it the
//	  scheduler randomises who runs next and about one case in five keeps that order).
//	route 1, late notification: connection.SetMasterHead sends its notification after releasing the
//	  connection lock, so two concurrent reporters of one connection (its Run loop and a
//	  MasterchainInfoClient) can put T into the pool's channel before T-1. The gap cannot be scheduled
//	  from outside the library. If the hook file offers VerifQueueHeadUpdate (not at the time of writing)
//	  the late notification is put into the channel with it; otherwise it is emulated by a second real
//	  connection object with the same id as the best one (the pool tells the origin of an update by the
//	  connection id, so the channel content is the same: X:T-2, X:T, X:T-1).
//
// Real time: every waiter has a 4 s timeout, all heads are out a few milliseconds after the waiters have
// registered. An error is a violation only if T had been handed to SetMasterHead (and the call had
// returned) >= 2 s before the waiter's deadline, all waiters had been registered before, a 1 ms sleeper
// never overslept by more than 300 ms, and (route 0) the counts of ID() calls confirm that T was
// dispatched while X was the best connection and only T-1 afterwards. Otherwise the case is inconclusive.

// updateQueuer is the optional hook: put a head update of a real connection into the pool's channel,
// exactly like the last statement of connection.SetMasterHead.
type updateQueuer interface {
	VerifQueueHeadUpdate(c pool.VerifConn, head ton.BlockIDExt)
}

// orderConn wraps a real connection; its ID() counts the calls and is a scheduling point.
type orderConn struct {
	pool.VerifConn

	mu     sync.Mutex
	calls  int
	fireAt int // the fireAt-th call of ID() runs fire (0: never)
	fire   func()
	fired  bool
}

func (s *orderConn) ID() int {
	s.mu.Lock()
	s.calls++
	var f func()
	if s.fireAt != 0 && s.calls == s.fireAt && !s.fired {
		s.fired, f = true, s.fire
	}
	s.mu.Unlock()
	if f != nil {
		f()
	}
	return s.VerifConn.ID()
}

func (s *orderConn) counts() (int, bool) {
	s.mu.Lock()
	defer s.mu.Unlock()
	return s.calls, s.fired
}

// tape: gomaxprocs, route, runLate, waiters, wakers, beyond, second
var headOrder = &core.Check{Name: "c13/head-order", Hang: caseHang, Fn: func(c *core.Ctx) error {
	caseStart()
	gmp := c.OneOf("gomaxprocs", 1, 2, 16)
	route := c.Choose("route", 2)
	runLate := c.Bool("runLate") // Run starts only after the heads have queued up
	nW := c.OneOf("waiters", 1, 3, 8)
	nWake := c.Range("wakers", 0, 2) // heads below the target handed out just before (0: the waiters stay parked)
	beyond := c.Bool("beyond")
	second := c.Bool("second") // route 0: Y has an initial head; route 1: another connection announces every head right behind X

	const base = uint32(baseSeqno)
	target := base + 4
	newer := target
	if beyond {
		newer = target + 3
	}
	older := target - 1
	wakers := []uint32{target - 3, target - 2}[2-nWake:]

	old := runtime.GOMAXPROCS(gmp)
	defer runtime.GOMAXPROCS(old)

	p := pool.VerifNewPool(pool.FirstWorkingConnection, nil, nil)
	p.VerifSetUpdateInterval(time.Hour)
	x := &orderConn{VerifConn: p.VerifNewConnection(0)}
	var y *orderConn
	var other, twin pool.VerifConn
	queuer, haveHook := any(p).(updateQueuer)
	how := ""
	switch route {
	case 0:
		y = &orderConn{VerifConn: p.VerifNewConnection(1)}
		how = fmt.Sprintf("the best connection conn0 reports %v and %d; from inside the pool's dispatch of head %d the best connection is switched to conn1, which then reports %d", wakers, newer, newer, older)
	default:
		if second {
			other = p.VerifNewConnection(1)
		}
		if haveHook {
			how = fmt.Sprintf("the best connection conn0 reports %v and %d; the notification of its earlier report %d reaches the pool's channel after that of %d", wakers, newer, older, newer)
		} else {
			twin = p.VerifNewConnection(0)
			how = fmt.Sprintf("the best connection conn0 reports %v and %d; then a notification for head %d with the same connection id reaches the pool's channel (a late notification of conn0, emulated by a second connection object with id 0)", wakers, newer, older)
		}
	}
	if err := setBest(p, x, "conn0 (fresh pool)"); err != nil {
		return err
	}
	c.Note("gomaxprocs", gmp)
	c.Note("call", fmt.Sprintf("%d x WaitMasterchainSeqno(%d, %v) registered and parked; best connection conn0 at head %d; Run started after the heads were queued: %v", nW, target, pointTimeout, base, runLate))
	c.Note("heads", how+"; nothing follows")
	c.Class([]string{"route: best connection switched between the two heads", "route: late notification of the same connection"}[route])
	c.Class(fmt.Sprintf("gomaxprocs %d", gmp))

	t0 := time.Now()
	since := func() time.Duration { return time.Since(t0) }
	ctx, stopRun := context.WithCancel(context.Background())
	defer stopRun()
	var runOnce sync.Once
	startRun := func() { runOnce.Do(func() { go p.Run(ctx) }) }
	if !runLate {
		startRun()
	}
	// every accepted SetMasterHead puts exactly one update into the pool's channel (capacity 10, at most 9 used).
	// The calls are bounded (bounded_test.go): with Run active a call that is not back is a blocked pool; before a
	// late Run, Run is started at once should the channel not take a head, and the case is over (no verdict).
	queued := 0
	last := map[pool.VerifConn]uint32{}
	rescued := false
	var blocked error
	publish := func(cn pool.VerifConn, seq uint32) {
		if blocked != nil {
			return
		}
		if seq <= last[cn] {
			panic("harness: head not above the connection's head")
		}
		last[cn] = seq
		queued++
		var rescue func()
		if runLate {
			rescue = startRun
		}
		r, err := poolCallRescue(fmt.Sprintf("SetMasterHead(%d) on conn%d", seq, cn.ID()), func() { cn.SetMasterHead(pool.VerifHead(seq)) }, rescue)
		rescued = rescued || r
		blocked = err
	}
	publish(x.VerifConn, base)
	if second {
		if y != nil {
			publish(y.VerifConn, base)
		} else {
			publish(other, base)
		}
	}
	if blocked != nil {
		c.Class("pool blocked")
		return blocked
	}

	// the switcher of route 0: parked until X's ID() releases it; it reports to nobody
	var swMu sync.Mutex
	var swT0, swT1, olderT1 time.Duration
	swDone, abandoned := false, false
	sig := make(chan struct{})
	var sigOnce sync.Once
	releaseSig := func() { sigOnce.Do(func() { close(sig) }) }
	if route == 0 {
		go func() {
			<-sig
			swMu.Lock()
			if abandoned {
				swMu.Unlock()
				return
			}
			swT0 = since()
			swMu.Unlock()
			p.VerifSetBest(y)
			t1 := since()
			y.VerifConn.SetMasterHead(pool.VerifHead(older))
			t2 := since()
			swMu.Lock()
			swT1, olderT1, swDone = t1, t2, true
			swMu.Unlock()
		}()
		x.fire = releaseSig
	}

	probe := startLagProbe()
	wctx, cancelWaiters := context.WithCancel(context.Background())
	defer cancelWaiters()
	type result struct {
		err    error
		t0, t1 time.Duration
	}
	out := make(chan result, nW)
	var wg sync.WaitGroup
	for i := 0; i < nW; i++ {
		wg.Add(1)
		go func() {
			defer wg.Done()
			r := result{t0: since()}
			r.err = p.WaitMasterchainSeqno(wctx, target, pointTimeout)
			r.t1 = since()
			out <- r
		}()
	}
	abandon := func() { // the parked switcher of route 0 goes home
		if route == 0 {
			swMu.Lock()
			abandoned = true
			swMu.Unlock()
			releaseSig()
		}
	}
	n, err := waitersSeen(p, nW, nil)
	if err != nil {
		probe.finish()
		abandon()
		c.Class("pool blocked")
		return err
	}
	if n != nW {
		// not all registered within 2 s (or some returned already): nothing is published, no verdict
		cancelWaiters()
		h := awaitGroup(&wg, callLimit)
		probe.finish()
		abandon()
		if h != nil {
			c.Class("pool blocked")
			return blockedError(fmt.Sprintf("%d x WaitMasterchainSeqno(%d) whose context was cancelled", nW, target), h)
		}
		c.Class("inconclusive: waiters not registered in 2 s (slow machine)")
		return nil
	}
	time.Sleep(3 * ms) // let them park

	if route == 0 {
		x.mu.Lock()
		x.fireAt = queued + len(wakers) + 1 // the dispatch of `newer`: updates are dispatched in channel order
		x.mu.Unlock()
	}
	for _, h := range wakers {
		publish(x.VerifConn, h)
		if other != nil {
			publish(other, h)
		}
	}
	pubT0 := since()
	publish(x.VerifConn, newer)
	pubT1 := since()
	if route == 1 {
		if other != nil {
			publish(other, newer)
		}
		if haveHook {
			queued++
			queuer.VerifQueueHeadUpdate(x.VerifConn, pool.VerifHead(older))
		} else {
			publish(twin, older)
		}
	}
	allOut := since()
	startRun()
	if blocked != nil {
		probe.finish()
		abandon()
		c.Class("pool blocked")
		return blocked
	}

	if h := awaitGroup(&wg, pointTimeout+20*time.Second); h != nil {
		probe.finish()
		abandon()
		c.Class("pool blocked")
		return fmt.Errorf("the pool is blocked: %d x WaitMasterchainSeqno(%d, %v) not all back %s\ngoroutines inside the pool package:\n%s", nW, target, pointTimeout, h, h.dump.text)
	}
	lag := probe.finish()
	close(out)
	c.Note("scheduler lag", lag.String())
	if rescued {
		abandon()
		c.Class("inconclusive: Run had to be started early (the head channel did not take the heads)")
		return nil
	}

	fired := false
	xCalls, yCalls := 0, 0
	countsOK := true
	if route == 0 {
		// the switcher has been released if X's head `newer` was dispatched; give it and Run a moment to finish
		for i := 0; i < 2000; i++ {
			xCalls, fired = x.counts()
			yCalls, _ = y.counts()
			swMu.Lock()
			d := swDone
			swMu.Unlock()
			if fired && d && xCalls+yCalls >= queued+1 {
				break
			}
			time.Sleep(ms)
		}
		swMu.Lock()
		if !fired {
			abandoned = true
		}
		d := swDone
		swMu.Unlock()
		if !fired {
			releaseSig()
		}
		// model: ID() of the best connection is called once per dispatched update. Then X saw exactly the
		// updates up to `newer` (the switch came after that dispatch) and Y exactly one, its own head.
		countsOK = fired && d && xCalls == queued && yCalls == 1
		if fired {
			c.Class("switch made from inside the dispatch of the target head")
		}
	}

	var problems []string
	inconclusive := ""
	for r := range out {
		if r.err == nil {
			if r.t1 < pubT0 {
				problems = append(problems, fmt.Sprintf("WaitMasterchainSeqno(%d) returned success at %v, before a head above %d was handed to any connection (at %v)", target, r.t1, wakers, pubT0))
			}
			continue
		}
		deadline := r.t0 + pointTimeout
		switch {
		case lag > pointLag:
			inconclusive = "scheduler lag"
		case pubT1 > deadline-pointMargin:
			inconclusive = "head published late"
		case !countsOK:
			inconclusive = "dispatch counts do not confirm the order of events"
		default:
			tail := ""
			if route == 0 {
				swMu.Lock()
				tail = fmt.Sprintf("; conn0 was the best connection until its head %d had been dispatched, the switch to conn1 ran %v..%v, conn1's SetMasterHead(%d) returned at %v", newer, swT0, swT1, older, olderT1)
				swMu.Unlock()
			}
			problems = append(problems, fmt.Sprintf("WaitMasterchainSeqno(%d, %v) started at %v (registered before any head was published) returned %s at %v although the best connection conn0 reported head %d at %v (SetMasterHead returned at %v), %v before the deadline; %s; all heads were out at %v, nothing follows%s",
				target, pointTimeout, r.t0, errText(r.err), r.t1, newer, pubT0, pubT1, deadline-pubT1, how, allOut, tail))
		}
	}
	if len(problems) > 0 {
		if n := len(problems); n > 2 {
			problems = append(problems[:2], fmt.Sprintf("(%d more waiters alike)", n-2))
		}
		return fmt.Errorf("%s", joinLines(problems))
	}
	if inconclusive != "" {
		c.Class("inconclusive: " + inconclusive)
		return nil
	}
	if route == 0 && !fired {
		c.Class("switch not made (the dispatch of the target head was not seen)")
		return nil
	}
	// with a late Run the notification of the initial head is still queued and wakes the waiters too
	if nWake > 0 || runLate {
		c.NonTrivial(gmp, route, runLate, nW, nWake, beyond, second)
	} else {
		c.Class("waiters parked (no head below the target before)")
	}
	return nil
}}

func TestHeadOrder(t *testing.T) {
	reps := core.Scale(1, 12)
	core.RunEnum(t, headOrder, "", func(yield func(...uint64) bool) {
		for rep := 0; rep < reps; rep++ {
			for _, g := range []uint64{0, 0, 1, 2} { // GOMAXPROCS 1 twice: the deterministic interleavings
				for route := uint64(0); route < 2; route++ {
					for late := uint64(0); late < 2; late++ {
						for w := uint64(0); w < 3; w++ {
							for wake := uint64(0); wake < 3; wake++ {
								for flags := uint64(0); flags < 4; flags++ {
									if !core.Thorough() && (w == 2 || (w+wake+flags+late)%2 != 0) {
										continue
									}
									if !yield(g, route, late, w, wake, flags&1, flags>>1) {
										return
									}
								}
							}
						}
					}
				}
			}
		}
	})
}
