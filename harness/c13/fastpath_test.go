package c13

import (
	"context"
	"fmt"
	"sync"
	"testing"
	"time"

	"github.com/tonkeeper/tongo/liteapi/pool"

	"verifharness/internal/core"
)

// c13/early-waiters: the very first waiters of a fresh pool overlap with callers whose target is already
// reached (they return at once without being registered) and with callers that give up; the early
// waiters must still be woken by the head they wait for. Small and deterministic in shape; the
// interleaving is drawn.
var earlyWaiters = &core.Check{Name: "c13/early-waiters", Quick: 60, Thorough: 6000, Fn: func(c *core.Ctx) error {
	p := pool.VerifNewPool(pool.FirstWorkingConnection, nil, nil)
	p.VerifSetUpdateInterval(time.Hour)
	best := p.VerifNewConnection(0)
	p.VerifSetBest(best)
	other := p.VerifNewConnection(1) // a second, non-best connection that reports the same heads
	withOther := c.Bool("other")
	ctx, cancel := context.WithCancel(context.Background())
	defer cancel()
	// Run may start only after head updates have queued up (it then finds several at once)
	runLate := c.Intn("runLate", 3) == 0
	if !runLate {
		go p.Run(ctx)
	}
	usedBefore := c.Intn("usedBefore", 3) // 0 = the pool never had a registered waiter before
	if runLate {
		usedBefore = 0
		c.Class("Run started after updates queued")
	}
	base := uint32(5)
	best.SetMasterHead(pool.VerifHead(base))
	if withOther {
		other.SetMasterHead(pool.VerifHead(base))
	}
	time.Sleep(5 * time.Millisecond)
	for i := 0; i < usedBefore; i++ { // earlier registered waiters that came and went
		p.WaitMasterchainSeqno(context.Background(), base+1000, time.Millisecond)
	}
	nWaiters := 1 + c.Intn("waiters", 4)
	nFast := 1 + c.Intn("fast", 6)
	nQuit := c.Intn("quitters", 3)
	target := base + 3
	type res struct {
		who string
		err error
		dt  time.Duration
	}
	out := make(chan res, nWaiters+nFast+nQuit)
	var wg sync.WaitGroup
	start := time.Now()
	launch := func(who string, seqno uint32, timeout time.Duration) {
		wg.Add(1)
		go func() {
			defer wg.Done()
			err := p.WaitMasterchainSeqno(context.Background(), seqno, timeout)
			out <- res{who, err, time.Since(start)}
		}()
	}
	// order of arrival is drawn: early waiters first, or fast-path callers first, or mixed
	order := c.Choose("order", 3)
	gap := func() { time.Sleep(time.Duration(c.Intn("gap", 4)) * time.Millisecond) }
	switch order {
	case 0:
		for i := 0; i < nWaiters; i++ {
			launch("waiter", target, 3*time.Second)
		}
		gap()
		time.Sleep(10 * time.Millisecond) // let them register
		for i := 0; i < nFast; i++ {
			launch("fast", base-uint32(c.Intn("below", 5)), time.Second)
		}
	case 1:
		for i := 0; i < nFast; i++ {
			launch("fast", base, time.Second)
		}
		gap()
		for i := 0; i < nWaiters; i++ {
			launch("waiter", target, 3*time.Second)
		}
	default:
		kinds := make([]bool, 0, nWaiters+nFast) // true = waiter
		for i := 0; i < nWaiters; i++ {
			kinds = append(kinds, true)
		}
		for i := 0; i < nFast; i++ {
			kinds = append(kinds, false)
		}
		sm := core.NewSplitMix(c.U64("mix"))
		for i := len(kinds) - 1; i > 0; i-- {
			k := sm.Intn(i + 1)
			kinds[i], kinds[k] = kinds[k], kinds[i]
		}
		for _, w := range kinds {
			if w {
				launch("waiter", target, 3*time.Second)
			} else {
				launch("fast", base, time.Second)
			}
			gap()
		}
	}
	for i := 0; i < nQuit; i++ {
		launch("quitter", target+1000, time.Duration(1+c.Intn("quit.ms", 20))*time.Millisecond)
	}
	time.Sleep(time.Duration(30+c.Intn("lead", 40)) * time.Millisecond)
	// heads up to the target, one by one
	for s := base + 1; s <= target; s++ {
		best.SetMasterHead(pool.VerifHead(s))
		if withOther { // the other server announces the same block right behind the best one
			other.SetMasterHead(pool.VerifHead(s))
		}
		if !runLate {
			gap()
		}
	}
	if runLate {
		go p.Run(ctx)
	}
	published := time.Since(start)
	done := make(chan struct{})
	go func() { wg.Wait(); close(done) }()
	select {
	case <-done:
	case <-time.After(20 * time.Second):
		return fmt.Errorf("callers did not return within 20 s (pool of one connection, %d early waiters, %d callers with a reached target, %d quitters)", nWaiters, nFast, nQuit)
	}
	close(out)
	c.NonTrivial(usedBefore, nWaiters, nFast, nQuit, order)
	c.Class(fmt.Sprintf("pool used before: %v", usedBefore > 0))
	for r := range out {
		switch r.who {
		case "waiter":
			if r.err != nil {
				return fmt.Errorf("a waiter for seqno %d got %q after %v although the best connection published head %d at %v, %v before the waiter's 3 s timeout (fresh pool: %v, %d callers whose target was already reached ran concurrently)",
					target, r.err, r.dt, target, published, 3*time.Second-published, usedBefore == 0, nFast)
			}
		case "fast":
			if r.err != nil {
				return fmt.Errorf("a caller whose target was already reached got %q", r.err)
			}
		case "quitter":
			if r.err == nil {
				return fmt.Errorf("a caller waiting for an unreachable seqno returned success")
			}
		}
	}
	return nil
}}

func TestEarlyWaiters(t *testing.T) { core.Run(t, earlyWaiters) }
