package c13

import (
	"context"
	"fmt"
	"sync"
	"testing"
	"time"

	"github.com/tonkeeper/tongo/liteapi/pool"

	"verifharness/internal/core"
)

// c13/early-waiters: the very first waiters of a fresh pool overlap with callers whose target is already
// reached (they return at once without being registered) and with callers that give up; the early
// waiters must still be woken by the head they wait for. Small and deterministic in shape; the
// interleaving is drawn.
var earlyWaiters = &core.Check{Name: "c13/early-waiters", Quick: 60, Thorough: 6000, Hang: caseHang, Fn: func(c *core.Ctx) error {
	caseStart()
	p := pool.VerifNewPool(pool.FirstWorkingConnection, nil, nil)
	p.VerifSetUpdateInterval(time.Hour)
	best := p.VerifNewConnection(0)
	if err := setBest(p, best, "conn0 (fresh pool)"); err != nil {
		return err
	}
	other := p.VerifNewConnection(1) // a second, non-best connection that reports the same heads
	withOther := c.Bool("other")
	ctx, cancel := context.WithCancel(context.Background())
	defer cancel()
	// Run may start only after head updates have queued up (it then finds several at once)
	runLate := c.Intn("runLate", 3) == 0
	var runOnce sync.Once
	startRun := func() { runOnce.Do(func() { go p.Run(ctx) }) }
	if !runLate {
		startRun()
	}
	// every call into the pool is bounded (bounded_test.go). Before a late Run the heads fit into the head
	// channel; should one not be taken, Run is started at once and the case is over (no verdict).
	rescued := false
	publish := func(cn pool.VerifConn, name string, seq uint32) error {
		r, err := poolCallRescue(fmt.Sprintf("SetMasterHead(%d) on %s", seq, name), func() { cn.SetMasterHead(pool.VerifHead(seq)) }, map[bool]func(){true: startRun, false: nil}[runLate])
		rescued = rescued || r
		if err != nil {
			c.Class("pool blocked")
		}
		return err
	}
	usedBefore := c.Intn("usedBefore", 3) // 0 = the pool never had a registered waiter before
	if runLate {
		usedBefore = 0
		c.Class("Run started after updates queued")
	}
	base := uint32(5)
	if err := publish(best, "the best connection conn0", base); err != nil {
		return err
	}
	if withOther {
		if err := publish(other, "conn1", base); err != nil {
			return err
		}
	}
	time.Sleep(5 * time.Millisecond)
	for i := 0; i < usedBefore; i++ { // earlier registered waiters that came and went
		if err := poolCall(fmt.Sprintf("WaitMasterchainSeqno(%d, 1ms) on a pool whose best connection is at %d", base+1000, base), func() {
			p.WaitMasterchainSeqno(context.Background(), base+1000, time.Millisecond)
		}); err != nil {
			c.Class("pool blocked")
			return err
		}
	}
	nWaiters := 1 + c.Intn("waiters", 4)
	nFast := 1 + c.Intn("fast", 6)
	nQuit := c.Intn("quitters", 3)
	target := base + 3
	type res struct {
		who string
		err error
		dt  time.Duration
	}
	out := make(chan res, nWaiters+nFast+nQuit)
	var wg sync.WaitGroup
	start := time.Now()
	launch := func(who string, seqno uint32, timeout time.Duration) {
		wg.Add(1)
		go func() {
			defer wg.Done()
			err := p.WaitMasterchainSeqno(context.Background(), seqno, timeout)
			out <- res{who, err, time.Since(start)}
		}()
	}
	// order of arrival is drawn: early waiters first, or fast-path callers first, or mixed
	order := c.Choose("order", 3)
	gap := func() { time.Sleep(time.Duration(c.Intn("gap", 4)) * time.Millisecond) }
	switch order {
	case 0:
		for i := 0; i < nWaiters; i++ {
			launch("waiter", target, 3*time.Second)
		}
		gap()
		time.Sleep(10 * time.Millisecond) // let them register
		for i := 0; i < nFast; i++ {
			launch("fast", base-uint32(c.Intn("below", 5)), time.Second)
		}
	case 1:
		for i := 0; i < nFast; i++ {
			launch("fast", base, time.Second)
		}
		gap()
		for i := 0; i < nWaiters; i++ {
			launch("waiter", target, 3*time.Second)
		}
	default:
		kinds := make([]bool, 0, nWaiters+nFast) // true = waiter
		for i := 0; i < nWaiters; i++ {
			kinds = append(kinds, true)
		}
		for i := 0; i < nFast; i++ {
			kinds = append(kinds, false)
		}
		sm := core.NewSplitMix(c.U64("mix"))
		for i := len(kinds) - 1; i > 0; i-- {
			k := sm.Intn(i + 1)
			kinds[i], kinds[k] = kinds[k], kinds[i]
		}
		for _, w := range kinds {
			if w {
				launch("waiter", target, 3*time.Second)
			} else {
				launch("fast", base, time.Second)
			}
			gap()
		}
	}
	for i := 0; i < nQuit; i++ {
		launch("quitter", target+1000, time.Duration(1+c.Intn("quit.ms", 20))*time.Millisecond)
	}
	time.Sleep(time.Duration(30+c.Intn("lead", 40)) * time.Millisecond)
	// heads up to the target, one by one
	for s := base + 1; s <= target; s++ {
		if err := publish(best, "the best connection conn0", s); err != nil {
			return err
		}
		if withOther { // the other server announces the same block right behind the best one
			if err := publish(other, "conn1", s); err != nil {
				return err
			}
		}
		if !runLate {
			gap()
		}
	}
	startRun()
	published := time.Since(start)
	// the waiters are served at once, the callers with a reached target never waited, the quitters have
	// timeouts of at most 20 ms: 20 s is long after every deadline that is still open
	if h := awaitGroup(&wg, 20*time.Second); h != nil {
		c.Class("pool blocked")
		return fmt.Errorf("the pool is blocked: %d waiters for head %d (published at %v), %d callers whose target was reached when they called and %d callers with timeouts <= 20 ms are not all back %s\ngoroutines inside the pool package:\n%s", nWaiters, target, published, nFast, nQuit, h, h.dump.text)
	}
	close(out)
	if rescued {
		c.Class("inconclusive: Run had to be started early (the head channel did not take the heads)")
		return nil
	}
	c.NonTrivial(usedBefore, nWaiters, nFast, nQuit, order)
	c.Class(fmt.Sprintf("pool used before: %v", usedBefore > 0))
	for r := range out {
		switch r.who {
		case "waiter":
			if r.err != nil {
				return fmt.Errorf("a waiter for seqno %d got %q after %v although the best connection published head %d at %v, %v before the waiter's 3 s timeout (fresh pool: %v, %d callers whose target was already reached ran concurrently)",
					target, r.err, r.dt, target, published, 3*time.Second-published, usedBefore == 0, nFast)
			}
		case "fast":
			if r.err != nil {
				return fmt.Errorf("a caller whose target was already reached got %q", r.err)
			}
		case "quitter":
			if r.err == nil {
				return fmt.Errorf("a caller waiting for an unreachable seqno returned success")
			}
		}
	}
	// nobody is left holding the pool: a fresh waiter gets a fresh head
	if ok, why := sentinelDelivered(p, best, sentinel, 20*time.Second); !ok {
		c.Class("pool blocked")
		_, d := verifiablyStuck(func() int64 { return 0 })
		return fmt.Errorf("after the case the pool does not deliver a fresh head to a fresh waiter within 20 s: %s\ngoroutines inside the pool package:\n%s", why, d.text)
	}
	return nil
}}

func TestEarlyWaiters(t *testing.T) { core.Run(t, earlyWaiters) }
