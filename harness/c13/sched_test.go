package c13

import (
	"context"
	"errors"
	"fmt"
	"regexp"
	"runtime"
	"sort"
	"strings"
	"sync"
	"sync/atomic"
	"testing"
	"time"

	"github.com/tonkeeper/tongo/liteapi/pool"
	"github.com/tonkeeper/tongo/ton"

	"verifharness/internal/core"
)

// ---------------------------------------------------------------------------------------------
// tolerances (real time; generous, a loaded machine must not produce a violation)

const (
	ms = time.Millisecond

	// a head at or beyond the target published this long before a waiter's deadline obliges success
	deliverMargin = 100 * ms
	// a waiter must be back this long after its timeout / cancellation at the latest
	returnSlack = 1000 * ms
	// the sentinel head published after the script must be delivered within this time
	sentinelLimit = 2000 * ms
	// if the scheduler-lag probe saw a goroutine oversleep by more than this, verdicts that depend on
	// the margins above are not drawn from the scenario (the machine was too busy to time anything)
	lagForDelivery = 40 * ms
	lagForReturn   = 300 * ms

	baseSeqno = 1000
	farSeqno  = baseSeqno + 1_000_000
	sentinel  = baseSeqno + 50_000_000
)

// ---------------------------------------------------------------------------------------------
// script

type actorKind int

const (
	akBurst  actorKind = iota // back-to-back SetMasterHead calls on one connection
	akSteady                  // one head every period for a duration, seqnos increasing by one
	akWaiter                  // WaitMasterchainSeqno(target, timeout), optional context cancel
	akBMC                     // BestMasterchainClient with a context cancelled at cancelAt
	akSwitch                  // the single switcher: VerifSetBest at the given times
)

type actor struct {
	kind     actorKind
	at       time.Duration
	conn     int
	seqs     []uint32      // burst
	period   time.Duration // steady
	dur      time.Duration // steady
	first    uint32        // steady
	target   uint32        // waiter
	timeout  time.Duration // waiter
	cancelAt time.Duration // waiter (0 = never), BMC (always), relative to the actor's start
	steps    []switchStep  // switcher
}

type switchStep struct {
	at   time.Duration
	conn int
}

func (a actor) String() string {
	switch a.kind {
	case akBurst:
		return fmt.Sprintf("burst@%v conn%d %v", a.at, a.conn, a.seqs)
	case akSteady:
		return fmt.Sprintf("steady@%v conn%d every %v for %v from %d", a.at, a.conn, a.period, a.dur, a.first)
	case akWaiter:
		s := fmt.Sprintf("wait@%v target %d timeout %v", a.at, a.target, a.timeout)
		if a.cancelAt > 0 {
			s += fmt.Sprintf(" cancel after %v", a.cancelAt)
		}
		return s
	case akBMC:
		return fmt.Sprintf("bestclient@%v cancel after %v", a.at, a.cancelAt)
	default:
		return fmt.Sprintf("switch %v", a.steps)
	}
}

// deadline of a waiting actor relative to the scenario start (planned)
func (a actor) plannedDeadline() time.Duration {
	d := a.timeout
	if a.kind == akBMC || (a.cancelAt > 0 && a.cancelAt < d) {
		d = a.cancelAt
	}
	return a.at + d
}

type scenario struct {
	gomaxprocs int
	shape      int
	nconn      int
	best0      int
	initial    []uint32 // initial head per connection, 0 = not initialised
	actors     []actor
}

// drawWaiter draws a waiter. Targets: far (never reached), near (base + nearLo..nearHi), or exactly the
// head the best connection starts with (success at subscription, no notification involved).
func drawWaiter(c *core.Ctx, sc *scenario, atMax int, toLo, toHi int, nearLo, nearHi int, farWeight int) actor {
	a := actor{kind: akWaiter, at: time.Duration(c.Range("wait.at", 0, atMax)) * ms}
	switch c.Weighted("wait.far", 10-farWeight, farWeight, 2) {
	case 1:
		a.target = farSeqno
	case 2:
		a.target = sc.initial[sc.best0]
		if a.target == 0 {
			a.target = baseSeqno
		}
	default:
		a.target = uint32(baseSeqno + c.Range("wait.target", nearLo, nearHi))
	}
	a.timeout = time.Duration(c.Range("wait.timeout", toLo, toHi)) * ms
	if c.Weighted("wait.cancel", 3, 1) == 1 {
		a.cancelAt = time.Duration(c.Range("wait.cancelAt", 1, 250)) * ms
	}
	return a
}

func drawBurst(c *core.Ctx, atMax int, conn int) actor {
	a := actor{kind: akBurst, at: time.Duration(c.Range("burst.at", 0, atMax)) * ms, conn: conn}
	n := c.Range("burst.n", 2, 5)
	seq := baseSeqno + c.Range("burst.first", 0, 40)
	for i := 0; i < n; i++ {
		a.seqs = append(a.seqs, uint32(seq))
		seq += c.Range("burst.step", -2, 3) // stale and repeated heads included
		if seq < 1 {
			seq = 1
		}
	}
	return a
}

func drawScenario(c *core.Ctx) *scenario {
	sc := &scenario{}
	sc.gomaxprocs = c.OneOf("gomaxprocs", 1, 2, 16)
	sc.shape = c.Weighted("shape", 3, 3, 2, 2)
	sc.nconn = c.Range("nconn", 1, 3)
	if sc.shape == 3 && sc.nconn < 2 {
		sc.nconn = 2
	}
	sc.best0 = c.Choose("best0", sc.nconn)
	initialised := c.Weighted("initialised", 1, 3) == 1
	for i := 0; i < sc.nconn; i++ {
		h := uint32(0)
		if initialised {
			h = uint32(baseSeqno + c.Range("initial", 0, 3))
		}
		sc.initial = append(sc.initial, h)
	}
	switch sc.shape {
	case 0: // free mix
		n := c.Range("actors", 1, 10)
		for i := 0; i < n; i++ {
			switch c.Weighted("kind", 3, 4, 1, 1) {
			case 0:
				sc.actors = append(sc.actors, drawBurst(c, 400, c.Choose("conn", sc.nconn)))
			case 1:
				sc.actors = append(sc.actors, drawWaiter(c, sc, 400, 5, 200, 0, 45, 3))
			case 2:
				sc.actors = append(sc.actors, actor{kind: akSteady, at: time.Duration(c.Range("steady.at", 0, 300)) * ms, conn: c.Choose("conn", sc.nconn),
					period: time.Duration(c.Range("steady.period", 2, 40)) * ms, dur: time.Duration(c.Range("steady.dur", 50, 600)) * ms,
					first: uint32(baseSeqno + c.Range("steady.first", 1, 20))})
			case 3:
				if initialised {
					sc.actors = append(sc.actors, drawWaiter(c, sc, 400, 5, 200, 0, 45, 3))
				} else {
					sc.actors = append(sc.actors, actor{kind: akBMC, at: time.Duration(c.Range("bmc.at", 0, 300)) * ms, cancelAt: time.Duration(c.Range("bmc.cancelAt", 20, 300)) * ms})
				}
			}
		}
		if ns := c.Range("switches", 0, 3); ns > 0 && sc.nconn > 1 {
			sw := actor{kind: akSwitch}
			at := 0
			for i := 0; i < ns; i++ {
				at += c.Range("switch.gap", 1, 200)
				sw.steps = append(sw.steps, switchStep{time.Duration(at) * ms, c.Choose("switch.conn", sc.nconn)})
			}
			sw.at = sw.steps[0].at
			sc.actors = append(sc.actors, sw)
		}
	case 1: // sustained traffic below the targets, longer than timeout + slack
		period := c.Range("steady.period", 2, 40)
		dur := c.Range("steady.dur", 1100, 1400)
		first := baseSeqno + c.Range("steady.first", 4, 10)
		sc.actors = append(sc.actors, actor{kind: akSteady, conn: sc.best0, period: time.Duration(period) * ms, dur: time.Duration(dur) * ms, first: uint32(first)})
		n := c.Range("waiters", 1, 6)
		for i := 0; i < n; i++ {
			// near targets are reached by the steady publisher at some point of the scenario
			sc.actors = append(sc.actors, drawWaiter(c, sc, 150, 5, 200, 0, dur/period+12, 6))
		}
		if !initialised && c.Bool("bmc") {
			sc.actors = append(sc.actors, actor{kind: akBMC, at: 0, cancelAt: time.Duration(c.Range("bmc.cancelAt", 20, 300)) * ms})
		}
		if sc.nconn > 1 && c.Bool("side") {
			sc.actors = append(sc.actors, drawBurst(c, 400, (sc.best0+1)%sc.nconn))
		}
	case 3: // the other connections run ahead of the best one: their heads must not wake the waiters
		n := c.Range("waiters", 1, 6)
		for i := 0; i < n; i++ {
			sc.actors = append(sc.actors, drawWaiter(c, sc, 100, 20, 200, 8, 30, 1))
		}
		for cn := 0; cn < sc.nconn; cn++ {
			if cn == sc.best0 {
				// the best connection moves too, but stays below most targets
				sc.actors = append(sc.actors, actor{kind: akSteady, at: time.Duration(c.Range("steady.at", 0, 100)) * ms, conn: cn,
					period: time.Duration(c.Range("steady.period", 10, 60)) * ms, dur: time.Duration(c.Range("steady.dur", 50, 300)) * ms,
					first: uint32(baseSeqno + 4)})
				continue
			}
			a := actor{kind: akBurst, at: time.Duration(c.Range("burst.at", 0, 250)) * ms, conn: cn}
			k := c.Range("burst.n", 2, 5)
			seq := baseSeqno + c.Range("burst.first", 20, 60)
			for j := 0; j < k; j++ {
				a.seqs = append(a.seqs, uint32(seq+j))
			}
			sc.actors = append(sc.actors, a)
			if c.Bool("steady.other") {
				sc.actors = append(sc.actors, actor{kind: akSteady, at: time.Duration(c.Range("steady.at", 0, 100)) * ms, conn: cn,
					period: time.Duration(c.Range("steady.period", 2, 30)) * ms, dur: time.Duration(c.Range("steady.dur", 50, 300)) * ms,
					first: uint32(baseSeqno + 70)})
			}
		}
	case 2: // many waiters with short timeouts leaving while bursts arrive
		n := c.Range("waiters", 4, 24)
		for i := 0; i < n; i++ {
			sc.actors = append(sc.actors, drawWaiter(c, sc, 20, 5, 30, 30, 60, 7))
		}
		nb := c.Range("bursts", 2, 12)
		seq := baseSeqno + 4
		for i := 0; i < nb; i++ {
			a := actor{kind: akBurst, at: time.Duration(c.Range("burst.at", 0, 60)) * ms, conn: sc.best0}
			k := c.Range("burst.n", 2, 5)
			for j := 0; j < k; j++ {
				a.seqs = append(a.seqs, uint32(seq))
				seq++
			}
			sc.actors = append(sc.actors, a)
		}
	}
	return sc
}

// ---------------------------------------------------------------------------------------------
// recording

type pubEv struct {
	conn   int
	seq    uint32
	t0, t1 time.Duration // before / after SetMasterHead; t1 < 0: the call has not returned
	done   bool
}

type swEv struct {
	conn   int
	t0, t1 time.Duration
	done   bool
}

type waitEv struct {
	started, done bool
	t0, t1        time.Duration
	err           error
	cancelled     bool
	cancelT       time.Duration // taken just before cancel() was called
	head          ton.BlockIDExt
}

type runner struct {
	sc    *scenario
	p     *pool.ConnPool
	conns []pool.VerifConn
	t0    time.Time

	mu    sync.Mutex
	pubs  []pubEv
	sws   []swEv
	waits []waitEv // by actor index
}

func (r *runner) since() time.Duration { return time.Since(r.t0) }

func (r *runner) sleepUntil(d time.Duration) {
	if dt := d - r.since(); dt > 0 {
		time.Sleep(dt)
	}
}

func (r *runner) publish(conn int, seq uint32) {
	r.mu.Lock()
	i := len(r.pubs)
	r.pubs = append(r.pubs, pubEv{conn: conn, seq: seq, t0: r.since(), t1: -1})
	r.mu.Unlock()
	r.conns[conn].SetMasterHead(pool.VerifHead(seq))
	t1 := r.since()
	r.mu.Lock()
	r.pubs[i].t1, r.pubs[i].done = t1, true
	r.mu.Unlock()
}

func (r *runner) runActor(i int) {
	a := r.sc.actors[i]
	r.sleepUntil(a.at)
	switch a.kind {
	case akBurst:
		for _, s := range a.seqs {
			r.publish(a.conn, s)
		}
	case akSteady:
		seq := a.first
		for next := a.at; next <= a.at+a.dur; next += a.period {
			r.sleepUntil(next)
			r.publish(a.conn, seq)
			seq++
		}
	case akSwitch:
		for _, st := range a.steps {
			r.sleepUntil(st.at)
			r.mu.Lock()
			k := len(r.sws)
			r.sws = append(r.sws, swEv{conn: st.conn, t0: r.since(), t1: -1})
			r.mu.Unlock()
			r.p.VerifSetBest(r.conns[st.conn])
			t1 := r.since()
			r.mu.Lock()
			r.sws[k].t1, r.sws[k].done = t1, true
			r.mu.Unlock()
		}
	case akWaiter, akBMC:
		ctx, cancel := context.WithCancel(context.Background())
		defer cancel()
		r.mu.Lock()
		r.waits[i].started, r.waits[i].t0 = true, r.since()
		r.mu.Unlock()
		if a.cancelAt > 0 {
			tm := time.AfterFunc(a.cancelAt, func() {
				r.mu.Lock()
				r.waits[i].cancelled, r.waits[i].cancelT = true, r.since()
				r.mu.Unlock()
				cancel()
			})
			defer tm.Stop()
		}
		var err error
		var head ton.BlockIDExt
		if a.kind == akWaiter {
			err = r.p.WaitMasterchainSeqno(ctx, a.target, a.timeout)
		} else {
			_, head, err = r.p.BestMasterchainClient(ctx)
		}
		t1 := r.since()
		r.mu.Lock()
		r.waits[i].done, r.waits[i].t1, r.waits[i].err, r.waits[i].head = true, t1, err, head
		r.mu.Unlock()
	}
}

// lag probe: how late does a goroutine that sleeps 1 ms wake up, at worst, while the scenario runs
type lagProbe struct {
	stop chan struct{}
	done chan struct{}
	max  atomic.Int64
}

func startLagProbe() *lagProbe {
	l := &lagProbe{stop: make(chan struct{}), done: make(chan struct{})}
	go func() {
		defer close(l.done)
		for {
			select {
			case <-l.stop:
				return
			default:
			}
			s := time.Now()
			time.Sleep(ms)
			if d := int64(time.Since(s) - ms); d > l.max.Load() {
				l.max.Store(d)
			}
		}
	}()
	return l
}

func (l *lagProbe) finish() time.Duration {
	close(l.stop)
	<-l.done
	return time.Duration(l.max.Load())
}

// ---------------------------------------------------------------------------------------------
// goroutine dumps

var goroutineHeader = regexp.MustCompile(`^goroutine (\d+) \[([^\]]*)\]`)

type dumpInfo struct {
	run     string            // "<goroutine id> <state> in <function>" of the Run goroutine when it is blocked inside a callee of Run, else ""
	blocked map[string]string // goroutine id -> "<state> in <first pool function>" of blocked goroutines that are inside the pool package
	text    string            // condensed stacks of the goroutines that are inside the pool package

	lockWait map[string]string // the subset of blocked whose state is a wait for a sync.Mutex / sync.RWMutex
	parked   bool              // a goroutine is blocked in harness code called from the pool package (a wrapper holding it on purpose)
}

// allStacks returns the stacks of all goroutines (one reusable 8 MB buffer behind a lock).
func allStacks() string {
	dumpMu.Lock()
	defer dumpMu.Unlock()
	if dumpBuf == nil {
		dumpBuf = make([]byte, 8<<20)
	}
	return string(dumpBuf[:runtime.Stack(dumpBuf, true)])
}

var (
	dumpMu  sync.Mutex
	dumpBuf []byte
	// goroutines that were inside the pool package when a case started, before it had made its pool: left
	// behind by an earlier case of this process (that happens only after a violation: a case that ends well
	// has seen all its callers return). They belong to other pools and are left out of every later dump.
	buried = map[string]bool{}
)

// caseStart is called first thing by every real-time check.
func caseStart() {
	stacks := allStacks()
	dumpMu.Lock()
	defer dumpMu.Unlock()
	for _, blk := range strings.Split(stacks, "\n\n") {
		if !strings.Contains(blk, "tongo/liteapi/pool.") {
			continue
		}
		if m := goroutineHeader.FindStringSubmatch(blk); m != nil {
			buried[m[1]] = true
		}
	}
}

func isBuried(id string) bool {
	dumpMu.Lock()
	defer dumpMu.Unlock()
	return buried[id]
}

func dumpPoolGoroutines() dumpInfo {
	buf := allStacks()
	info := dumpInfo{blocked: map[string]string{}, lockWait: map[string]string{}}
	type group struct {
		n      int
		sample string
	}
	groups := map[string]*group{}
	var order []string
	for _, blk := range strings.Split(buf, "\n\n") {
		if !strings.Contains(blk, "tongo/liteapi/pool.") {
			continue
		}
		lines := strings.Split(blk, "\n")
		m := goroutineHeader.FindStringSubmatch(lines[0])
		if m == nil {
			continue
		}
		id, state := m[1], m[2]
		if isBuried(id) {
			continue
		}
		if k := strings.Index(state, ","); k > 0 {
			state = state[:k]
		}
		var fn string
		harnessAbove := false
		for _, ln := range lines[1:] {
			if strings.HasPrefix(ln, "verifharness/") {
				harnessAbove = true
			}
			if strings.Contains(ln, "tongo/liteapi/pool.") && !strings.HasPrefix(ln, "\t") {
				fn = ln
				if k := strings.LastIndex(fn, "("); k > 0 && !strings.HasPrefix(fn[k:], "(*") {
					fn = fn[:k]
				}
				fn = strings.TrimPrefix(fn, "github.com/tonkeeper/tongo/liteapi/")
				break
			}
		}
		key := state + " in " + fn
		if state != "running" && state != "runnable" {
			info.blocked[id] = key
			if harnessAbove {
				info.parked = true
			} else if strings.HasPrefix(state, "sync.Mutex.") || strings.HasPrefix(state, "sync.RWMutex.") {
				info.lockWait[id] = key
			}
			if strings.Contains(blk, "pool.(*ConnPool).Run(") && !strings.HasSuffix(fn, "(*ConnPool).Run") {
				info.run = id + " " + key
			}
		}
		g := groups[key]
		if g == nil {
			if len(lines) > 14 {
				lines = lines[:14]
			}
			g = &group{sample: strings.Join(lines, "\n")}
			groups[key] = g
			order = append(order, key)
		}
		g.n++
	}
	sort.Strings(order)
	var sb strings.Builder
	for _, k := range order {
		fmt.Fprintf(&sb, "%d goroutine(s) [%s]\n", groups[k].n, k)
	}
	shown := 0
	for _, k := range order {
		if shown < 4 && (strings.Contains(k, "notifySubscribers") || strings.Contains(k, "subscribe") || strings.Contains(k, "SetMasterHead") || strings.Contains(k, "MasterHead")) {
			sb.WriteString("--- sample:\n" + groups[k].sample + "\n")
			shown++
		}
	}
	info.text = sb.String()
	return info
}

// verifiablyStuck takes two goroutine dumps 300 ms apart. The pool is verifiably stuck when, in both, the
// same Run goroutine is blocked at the same place inside a callee of Run (an idle Run sits in its own
// select), at least one other goroutine is blocked at the same place inside the pool package in both,
// and the progress counter did not move in between.
func verifiablyStuck(progress func() int64) (bool, dumpInfo) {
	a := dumpPoolGoroutines()
	before := progress()
	time.Sleep(300 * ms)
	b := dumpPoolGoroutines()
	if a.run == "" || a.run != b.run || progress() != before {
		return false, b
	}
	for id, sig := range a.blocked {
		if !strings.HasPrefix(a.run, id+" ") && b.blocked[id] == sig {
			return true, b
		}
	}
	return false, b
}

// ---------------------------------------------------------------------------------------------
// sentinel: is the pool still delivering heads?

// sentinelDelivered subscribes a fresh waiter for seqno, waits until it is registered, publishes seqno on
// conn (the current best connection) and reports whether the waiter got it within limit. Everything
// that touches the pool runs in helper goroutines because a blocked pool blocks every caller.
func sentinelDelivered(p *pool.ConnPool, conn pool.VerifConn, seqno uint32, limit time.Duration) (bool, string) {
	res := make(chan error, 1)
	var stage atomic.Int32
	go func() {
		before := p.VerifWaiters()
		stage.Store(1)
		w := make(chan error, 1)
		go func() { w <- p.WaitMasterchainSeqno(context.Background(), seqno, limit+30*time.Second) }()
		for i := 0; p.VerifWaiters() <= before && i < 20000; i++ {
			select {
			case err := <-w:
				res <- fmt.Errorf("%s before the sentinel head %d was published", errText(err), seqno)
				return
			default:
			}
			time.Sleep(100 * time.Microsecond)
		}
		stage.Store(2)
		conn.SetMasterHead(pool.VerifHead(seqno))
		stage.Store(3)
		res <- <-w
	}()
	select {
	case err := <-res:
		if err != nil {
			return false, fmt.Sprintf("a waiter for the sentinel head returned %v", err)
		}
		return true, ""
	case <-time.After(limit):
		return false, [...]string{
			"reading the number of waiters (pool read lock) did not return",
			"the sentinel waiter could not subscribe (pool lock)",
			"SetMasterHead of the sentinel head did not return (the pool's head channel is full and not drained)",
			"the sentinel head was accepted but not delivered to a subscribed waiter",
		}[stage.Load()]
	}
}

// ---------------------------------------------------------------------------------------------
// the schedule check

var schedule = &core.Check{Name: "c13/schedule", Quick: 48, Thorough: 4800, Hang: caseHang, Fn: func(c *core.Ctx) error {
	caseStart()
	sc := drawScenario(c)
	var lines []string
	for _, a := range sc.actors {
		lines = append(lines, a.String())
	}
	c.Note("gomaxprocs", sc.gomaxprocs)
	c.Note("connections", fmt.Sprintf("%d, best conn%d, initial heads %v", sc.nconn, sc.best0, sc.initial))
	c.Note("actors", lines)
	c.Class([]string{"shape: free mix", "shape: sustained traffic", "shape: bursts and short timeouts", "shape: other connections ahead"}[sc.shape])
	c.Class(fmt.Sprintf("gomaxprocs %d", sc.gomaxprocs))

	old := runtime.GOMAXPROCS(sc.gomaxprocs)
	defer runtime.GOMAXPROCS(old)

	p := pool.VerifNewPool(pool.FirstWorkingConnection, nil, nil)
	p.VerifSetUpdateInterval(time.Hour) // real connections have no lite client: no refresh while Run is on
	r := &runner{sc: sc, p: p, waits: make([]waitEv, len(sc.actors))}
	for i := 0; i < sc.nconn; i++ {
		r.conns = append(r.conns, p.VerifNewConnection(i))
	}
	if err := setBest(p, r.conns[sc.best0], fmt.Sprintf("conn%d (fresh pool)", sc.best0)); err != nil {
		return err
	}
	ctx, stopRun := context.WithCancel(context.Background())
	defer stopRun()
	go p.Run(ctx)
	r.t0 = time.Now()
	for i, h := range sc.initial {
		if h > 0 {
			if err := poolCall(fmt.Sprintf("the first SetMasterHead(%d) on conn%d of a fresh pool (Run active)", h, i), func() { r.publish(i, h) }); err != nil {
				c.Class("pool blocked")
				return err
			}
		}
	}
	r.t0 = time.Now()
	for i := range r.pubs { // initial heads: before everything
		r.pubs[i].t0, r.pubs[i].t1 = -1, -1
	}

	horizon := 100 * ms
	for _, a := range sc.actors {
		end := a.at
		switch a.kind {
		case akWaiter, akBMC:
			end = a.plannedDeadline()
		case akSteady:
			end = a.at + a.dur
		case akSwitch:
			end = a.steps[len(a.steps)-1].at
		}
		if end > horizon {
			horizon = end
		}
	}
	probe := startLagProbe()
	var wg sync.WaitGroup
	for i := range sc.actors {
		wg.Add(1)
		go func(i int) { defer wg.Done(); r.runActor(i) }(i)
	}
	allDone := make(chan struct{})
	go func() { wg.Wait(); close(allDone) }()
	finished := true
	select {
	case <-allDone:
	case <-time.After(horizon + returnSlack + 500*ms):
		finished = false
	}
	lag := probe.finish()
	c.Note("scheduler lag", lag.String())

	// who is best now (the switcher may be stuck: then the last switch that returned, else the first)
	r.mu.Lock()
	pubs := append([]pubEv{}, r.pubs...)
	sws := append([]swEv{}, r.sws...)
	waits := append([]waitEv{}, r.waits...)
	r.mu.Unlock()
	bestNow := sc.best0
	for _, s := range sws {
		bestNow = s.conn
	}

	var problems []string
	if !finished {
		var stuck []string
		for i, a := range sc.actors {
			if (a.kind == akWaiter || a.kind == akBMC) && !waits[i].done {
				stuck = append(stuck, a.String())
			}
		}
		for _, pe := range pubs {
			if !pe.done {
				stuck = append(stuck, fmt.Sprintf("SetMasterHead(%d) on conn%d called at %v", pe.seq, pe.conn, pe.t0))
			}
		}
		for _, s := range sws {
			if !s.done {
				stuck = append(stuck, fmt.Sprintf("switch to conn%d called at %v", s.conn, s.t0))
			}
		}
		problems = append(problems, fmt.Sprintf("not every actor finished %v after the last planned deadline (%v); still inside the pool: %s", returnSlack+500*ms, horizon, strings.Join(stuck, "; ")))
	}
	if finished {
		// quiet probes, no traffic: the head the best connection has now is reached at once, the next one is not
		probe := make(chan string, 1)
		go func() {
			cur := r.conns[bestNow].MasterHead().Seqno
			if cur > 0 {
				if err := p.WaitMasterchainSeqno(context.Background(), cur, sentinelLimit); err != nil {
					probe <- fmt.Sprintf("after the script, without traffic: WaitMasterchainSeqno(%d), the head the best connection conn%d already has, returned %s", cur, bestNow, errText(err))
					return
				}
			}
			t := time.Now()
			if err := p.WaitMasterchainSeqno(context.Background(), cur+1, 30*ms); err == nil || time.Since(t) < 30*ms {
				probe <- fmt.Sprintf("after the script, without traffic: WaitMasterchainSeqno(%d, 30ms) with the best connection conn%d at %d returned %s after %v", cur+1, bestNow, cur, errText(err), time.Since(t))
				return
			}
			probe <- ""
		}()
		select {
		case msg := <-probe:
			if msg != "" {
				problems = append(problems, msg)
			}
		case <-time.After(sentinelLimit + returnSlack):
			finished = false
			problems = append(problems, "after the script, without traffic: two WaitMasterchainSeqno calls (one satisfied at once, one with a 30 ms timeout) did not return")
		}
	}
	delivered, why := sentinelDelivered(p, r.conns[bestNow], sentinel, sentinelLimit)
	if !delivered {
		problems = append(problems, fmt.Sprintf("after the script the pool does not deliver a fresh head to a fresh waiter within %v: %s", sentinelLimit, why))
	}
	if !finished || !delivered {
		_, d := verifiablyStuck(func() int64 { return 0 })
		c.Class("pool blocked")
		return fmt.Errorf("%s\ngoroutines inside the pool package:\n%s", strings.Join(problems, "\n"), d.text)
	}

	// ---- verdicts about single waiters
	maxPub := func(conn int, before time.Duration, completed bool) (uint32, time.Duration) {
		var best uint32
		var at time.Duration
		for _, pe := range pubs {
			if pe.conn != conn {
				continue
			}
			t := pe.t0
			if completed {
				if !pe.done {
					continue
				}
				t = pe.t1
			}
			if t <= before && pe.seq > best {
				best, at = pe.seq, t
			}
		}
		return best, at
	}
	// state k: after k switches. possibly best during [a,b]: its interval (start of switch k, end of switch k+1) overlaps
	possiblyBest := func(conn int, a, b time.Duration) bool {
		for k := 0; k <= len(sws); k++ {
			cn := sc.best0
			from := time.Duration(-1 << 62)
			if k > 0 {
				cn, from = sws[k-1].conn, sws[k-1].t0
			}
			to := time.Duration(1 << 62)
			if k < len(sws) && sws[k].done {
				to = sws[k].t1
			}
			if cn == conn && from <= b && to >= a {
				return true
			}
		}
		return false
	}
	certainlyBest := func(a, b time.Duration) int {
		for k := 0; k <= len(sws); k++ {
			cn := sc.best0
			if k > 0 {
				if !sws[k-1].done || sws[k-1].t1 > a {
					continue
				}
				cn = sws[k-1].conn
			}
			if k < len(sws) && sws[k].t0 < b {
				continue
			}
			return cn
		}
		return -1
	}

	nWaiters, nTimeoutInTraffic, nBursts := 0, 0, 0
	trafficFrom, trafficTo := time.Duration(1<<62), time.Duration(-1)
	for _, a := range sc.actors {
		switch a.kind {
		case akBurst:
			nBursts++
			if a.at < trafficFrom {
				trafficFrom = a.at
			}
			if a.at > trafficTo {
				trafficTo = a.at
			}
		case akSteady:
			if a.at < trafficFrom {
				trafficFrom = a.at
			}
			if a.at+a.dur > trafficTo {
				trafficTo = a.at + a.dur
			}
		}
	}
	for i, a := range sc.actors {
		if a.kind != akWaiter && a.kind != akBMC {
			continue
		}
		nWaiters++
		w := waits[i]
		target := a.target
		if a.kind == akBMC {
			target = 1
		}
		// deadline in measured time
		deadline := w.t0 + a.timeout
		if a.kind == akBMC {
			deadline = w.t0 + a.cancelAt
		} else if a.cancelAt > 0 && a.cancelAt < a.timeout {
			deadline = w.t0 + a.cancelAt
		}
		if d := a.plannedDeadline(); d >= trafficFrom && d <= trafficTo && w.err != nil {
			nTimeoutInTraffic++
		}
		name := fmt.Sprintf("actor %d (%s), started %v, returned %v after %v", i, a, w.t0, errText(w.err), w.t1-w.t0)

		// (1) success only if a connection that may have been the best one during the call had published such a head
		if w.err == nil {
			c.Class("waiter: success")
			ok := false
			for cn := 0; cn < sc.nconn; cn++ {
				if s, _ := maxPub(cn, w.t1, false); s >= target && possiblyBest(cn, w.t0, w.t1) {
					ok = true
				}
			}
			if !ok {
				problems = append(problems, name+": success although no connection that was the best one during the call had published a head >= the target by then")
			}
			if a.kind == akBMC && w.head.Seqno < 1 {
				problems = append(problems, name+": BestMasterchainClient returned a head with seqno 0")
			}
		} else {
			// (2) an error no earlier than the timeout / the cancellation
			if errors.Is(w.err, context.Canceled) {
				c.Class("waiter: cancelled")
				if !w.cancelled || w.cancelT > w.t1 {
					problems = append(problems, name+": context error although the context had not been cancelled")
				}
			} else {
				c.Class("waiter: timeout")
				if a.kind == akBMC {
					problems = append(problems, name+": BestMasterchainClient returned an error that is not the context's")
				} else if w.t1-w.t0 < a.timeout {
					problems = append(problems, name+": timeout error before the timeout had elapsed")
				}
			}
		}
		// (3) back no later than deadline + slack, whatever the result
		if w.t1 > deadline+returnSlack {
			c.Class("waiter: late")
			if lag <= lagForReturn {
				extra := ""
				if a.kind == akWaiter {
					n := 0
					for cn := 0; cn < sc.nconn; cn++ {
						for _, pe := range pubs {
							if pe.conn == cn && pe.seq < target && pe.t0 >= w.t0 && pe.t0 <= w.t1 && possiblyBest(cn, pe.t0, pe.t0) {
								n++
							}
						}
					}
					extra = fmt.Sprintf("; %d heads below the target were published on the best connection during the call", n)
				}
				problems = append(problems, fmt.Sprintf("%s: %v later than its deadline (allowed: %v)%s", name, w.t1-deadline, returnSlack, extra))
			}
		}
		// (4) a head >= target published on the (certainly) best connection deliverMargin before the deadline obliges success
		if cn := certainlyBest(w.t0, deadline); cn >= 0 && w.err != nil {
			if s, at := maxPub(cn, deadline-deliverMargin, true); s >= target {
				c.Class("waiter: missed head")
				if lag <= lagForDelivery {
					problems = append(problems, fmt.Sprintf("%s: conn%d, the best connection during the whole call, had published head %d at %v, %v before the deadline", name, cn, s, at, deadline-at))
				}
			}
		}
	}
	if lag > lagForDelivery {
		c.Class("scheduler lag above the delivery margin: timing verdicts not drawn")
	}
	if len(problems) > 0 {
		return fmt.Errorf("%s", strings.Join(problems, "\n"))
	}
	if nWaiters >= 4 && nBursts >= 1 && nTimeoutInTraffic >= 1 {
		c.NonTrivial(fmt.Sprint(sc.gomaxprocs, sc.nconn, sc.best0, sc.initial), fmt.Sprint(lines))
	}
	return nil
}}

func errText(err error) string {
	if err == nil {
		return "success"
	}
	return "error \"" + err.Error() + "\""
}

// ---------------------------------------------------------------------------------------------
// burst stress: many waiters with sub-millisecond timeouts against long back-to-back bursts of heads

// tape: gomaxprocs index, waiters index, burst index
var stress = &core.Check{Name: "c13/stress-burst", Hang: caseHang, Fn: func(c *core.Ctx) error {
	caseStart()
	gmp := c.OneOf("gomaxprocs", 1, 2, 16)
	nW := c.OneOf("waiters", 16, 64, 128)
	nHeads := c.OneOf("burst", 1000, 3000)
	rounds := core.Scale(2, 4)
	c.Note("gomaxprocs", gmp)
	c.Note("waiters", fmt.Sprintf("%d, each calling WaitMasterchainSeqno(far target) in a loop, timeouts spread over 50..450 µs", nW))
	c.Note("bursts", fmt.Sprintf("%d rounds of %d back-to-back heads on the best connection", rounds, nHeads))
	c.NonTrivial(gmp, nW, nHeads)

	old := runtime.GOMAXPROCS(gmp)
	defer runtime.GOMAXPROCS(old)

	p := pool.VerifNewPool(pool.FirstWorkingConnection, nil, nil)
	p.VerifSetUpdateInterval(time.Hour)
	best := p.VerifNewConnection(0)
	other := p.VerifNewConnection(1)
	if err := setBest(p, best, "conn0 (fresh pool)"); err != nil {
		return err
	}
	ctx, stopRun := context.WithCancel(context.Background())
	defer stopRun()
	go p.Run(ctx)
	if err := setHead(best, "conn0 (fresh pool, Run active)", baseSeqno); err != nil {
		return err
	}
	if err := setHead(other, "conn1 (fresh pool, Run active)", baseSeqno); err != nil {
		return err
	}

	var stop atomic.Bool
	var calls, wrong atomic.Int64
	var wg sync.WaitGroup
	for i := 0; i < nW; i++ {
		wg.Add(1)
		go func(i int) {
			defer wg.Done()
			to := time.Duration(50+400*i/nW) * time.Microsecond
			for !stop.Load() {
				t := time.Now()
				err := p.WaitMasterchainSeqno(context.Background(), farSeqno, to)
				if err == nil || time.Since(t) < to {
					wrong.Add(1)
				}
				calls.Add(1)
			}
		}(i)
	}
	waitersDone := make(chan struct{})
	go func() { wg.Wait(); close(waitersDone) }()

	pubDone := make(chan struct{})
	var published atomic.Int64
	go func() {
		defer close(pubDone)
		seq := uint32(baseSeqno + 1)
		for r := 0; r < rounds; r++ {
			for k := 0; k < nHeads; k++ {
				best.SetMasterHead(pool.VerifHead(seq))
				if k%7 == 3 {
					other.SetMasterHead(pool.VerifHead(seq)) // traffic of a connection that is not the best one
				}
				seq++
				published.Add(1)
			}
			time.Sleep(10 * ms)
		}
	}()

	finish := func(limit time.Duration) (bool, string) {
		deadline := time.After(limit)
		select {
		case <-pubDone:
		case <-deadline:
			return false, fmt.Sprintf("the publisher is blocked in SetMasterHead after %d of %d heads", published.Load(), rounds*nHeads)
		}
		stop.Store(true)
		select {
		case <-waitersDone:
		case <-deadline:
			return false, "waiters did not return from WaitMasterchainSeqno"
		}
		return true, ""
	}
	ok, why := finish(5 * time.Second)
	if ok {
		ok, why = sentinelDelivered(p, best, sentinel, 5*time.Second)
	}
	core.Extra("c13/stress-burst", "wait_calls_last_case", calls.Load())
	if ok {
		if n := wrong.Load(); n > 0 {
			return fmt.Errorf("%d of %d WaitMasterchainSeqno calls for a head that was never published returned success or returned before their timeout", n, calls.Load())
		}
		c.Class("pool alive after the bursts")
		return nil
	}
	progress := func() int64 { return published.Load() + calls.Load() }
	stuck, d := verifiablyStuck(progress)
	if !stuck {
		// not provably dead: give a slow machine 20 more seconds before calling it a hang
		ok2, _ := finish(20 * time.Second)
		if ok2 {
			ok2, _ = sentinelDelivered(p, best, sentinel+1, 20*time.Second)
		}
		if ok2 {
			c.Class("slow machine: finished only within the extended limit")
			return nil
		}
		_, d = verifiablyStuck(progress)
	}
	stop.Store(true)
	c.Class("pool blocked")
	return fmt.Errorf("the pool is blocked after %d heads and %d wait calls: %s; the Run goroutine: %q; %d goroutines blocked inside the pool package\ngoroutines inside the pool package:\n%s",
		published.Load(), calls.Load(), why, d.run, len(d.blocked), d.text)
}}

func stressEnum(t *testing.T) {
	core.RunEnum(t, stress, "", func(yield func(...uint64) bool) {
		reps := core.Scale(1, 4)
		for rep := 0; rep < reps; rep++ {
			for g := 0; g < 3; g++ {
				for w := 0; w < 3; w++ {
					for b := 0; b < 2; b++ {
						if !core.Thorough() && (w+b+g)%3 != 0 { // quick: 6 of the 18 combinations
							continue
						}
						if !yield(uint64(g), uint64(w), uint64(b)) {
							return
						}
					}
				}
			}
		}
	})
}
