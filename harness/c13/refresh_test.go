package c13

import (
	"context"
	"fmt"
	"runtime"
	"strings"
	"sync/atomic"
	"testing"
	"time"

	"github.com/tonkeeper/tongo/liteapi/pool"
	"github.com/tonkeeper/tongo/liteclient"
	"github.com/tonkeeper/tongo/ton"

	"verifharness/internal/core"
)

// Best-connection choice under heads that advance WHILE the pool refreshes its choice.
//
// The heads of pooled connections are advanced by the connections' own goroutines (connection.Run ->
// SetMasterHead), so a refresh never sees one frozen configuration: between two looks at its members a
// head may have moved, a member may have died. The property's sentence about the refresh ("whenever at
// least one pooled connection is alive and at most one masterchain block behind the newest head known to
// the pool, the connection chosen as best after a refresh is such a connection: the lowest round-trip
// under best-ping, the first one in configuration order under first-working; otherwise the previous choice
// is kept") is therefore judged against the SET of configurations that existed during the refresh
// (heads of a connection only rise):
//
//	certainly eligible  a member that was alive and at most one block behind the newest head of the pool
//	                    in EVERY configuration that existed during the refresh;
//	possibly eligible   a member that was alive at some moment and whose head at the end of the refresh was
//	                    at most one block behind the newest head the pool had at the beginning (every
//	                    member that is eligible in some configuration is possibly eligible; the relaxation
//	                    is there because the pool may combine looks taken at different moments).
//
// Verdict: if some member is certainly eligible, the choice is a possibly eligible member that does not
// come after the first certainly eligible one in configuration order (first-working; in particular a
// first-configured member that was alive and held the newest head during the whole refresh is chosen) /
// whose round-trip is not above the smallest round-trip of a certainly eligible one (best-ping). If no
// member is certainly eligible, the choice is the previous one or a possibly eligible member. A refresh
// of the pool once the heads stand still is judged by the static oracle of c13_test.go.
//
// Two vehicles:
//   - c13/refresh-moving (+ grid): pinned interleavings. The members are scripted fakes; every call the
//     pool makes on a member during the refresh (MasterHead, IsOK, AverageRoundTrip) is a scheduling point
//     at which scripted events happen before the call takes its value: a head advances (+1, +2, +3, to the
//     newest head of the pool + 1), a member dies or comes back. Deterministic, no goroutines, no clock.
//   - c13/refresh-concurrent: real concurrency. The members are the pool's real connections (head
//     bookkeeping of connection.go, fed through a pool of their own whose Run drains the head channel)
//     behind wrappers that supply alive/round-trip; reporter goroutines call SetMasterHead, released by the
//     refreshing goroutine right before each refresh. No verdict depends on the clock: the configurations
//     that existed during a refresh are bounded by two atomics per member (newest head whose SetMasterHead
//     had returned before the refresh began <= head <= newest head handed to SetMasterHead when it ended).

// ---------------------------------------------------------------------------------------------
// verdict shared by both vehicles

// judgeMoving: ce/pe are bit masks by position; prev/got are positions (-1: none / not a member).
func judgeMoving(strategy int, ids []int, rtts []time.Duration, ce, pe uint8, prev, got int) error {
	name := func(i int) string {
		if i < 0 {
			return "none"
		}
		return fmt.Sprintf("conn id %d", ids[i])
	}
	list := func(m uint8) string {
		var s []string
		for i := range ids {
			if m>>uint(i)&1 == 1 {
				s = append(s, name(i))
			}
		}
		if len(s) == 0 {
			return "no member"
		}
		return strings.Join(s, ", ")
	}
	if ce == 0 {
		if got == prev || (got >= 0 && pe>>uint(got)&1 == 1) {
			return nil
		}
		return fmt.Errorf("the pool chose %s, which is neither the previous choice (%s) nor a member that was alive and within one block of the newest head at any moment of the refresh (such members: %s)", name(got), name(prev), list(pe))
	}
	if got < 0 {
		return fmt.Errorf("the pool has no best connection after the refresh although %s was alive and within one block of the newest head during the whole refresh", list(ce))
	}
	if pe>>uint(got)&1 == 0 {
		return fmt.Errorf("the pool's choice after the refresh is %s, which was not alive and within one block of the newest head at any moment of the refresh, although %s was so during the whole refresh", name(got), list(ce))
	}
	if strategy == 1 {
		first := -1
		for i := range ids {
			if ce>>uint(i)&1 == 1 && (first < 0 || ids[i] < ids[first]) {
				first = i
			}
		}
		if ids[got] > ids[first] {
			return fmt.Errorf("first-working: %s was alive and at most one block behind the newest head of the pool during the whole refresh, but the pool chose %s, which comes later in configuration order", name(first), name(got))
		}
		return nil
	}
	min := time.Duration(-1)
	who := -1
	for i := range ids {
		if ce>>uint(i)&1 == 1 && (min < 0 || rtts[i] < min) {
			min, who = rtts[i], i
		}
	}
	if rtts[got] > min {
		return fmt.Errorf("best-ping: %s (round-trip %v) was alive and at most one block behind the newest head of the pool during the whole refresh, but the pool chose %s with round-trip %v", name(who), min, name(got), rtts[got])
	}
	return nil
}

// ---------------------------------------------------------------------------------------------
// pinned interleavings

const (
	mvHead1   = iota // the member's head advances by one block
	mvHead2          // by two
	mvHead3          // by three
	mvNewest         // the member receives the block after the newest head of the pool
	mvDie            // the member's connection breaks
	mvRevive         // the member's connection comes back
	mvKinds          // number of kinds
	mvMaxStep = 20   // steps drawn for an event (a refresh of 4 members makes at most 18 calls)
)

var mvKindName = [mvKinds]string{"head +1", "head +2", "head +3", "head = newest head of the pool + 1", "dies", "comes back"}

type moveEvent struct {
	step, member, kind int
}

type moveCase struct {
	strategy, n, variant, prev int // prev: position, -1 none
	base                       uint32
	state                      [4]int // alive(2) x head offset(4) x round-trip(4)
	events                     []moveEvent
}

const mvStates = 32

type mover struct {
	id  int
	rtt time.Duration
	seq uint32
	ok  bool
	sc  *moveScript
}

type moveScript struct {
	ms       []*mover
	events   []moveEvent
	active   bool
	steps    int
	fired    int   // events that happened
	inside   int   // of these, after the pool's first call
	always   uint8 // eligible in every configuration so far
	ever     uint8 // eligible in some configuration
	aliveAny uint8
	verbose  bool
	log      []string
}

func (s *moveScript) snapshot() {
	var m uint32
	for _, x := range s.ms {
		if x.seq > m {
			m = x.seq
		}
	}
	var e uint8
	for i, x := range s.ms {
		if x.ok {
			s.aliveAny |= 1 << uint(i)
			if uint64(x.seq)+1 >= uint64(m) {
				e |= 1 << uint(i)
			}
		}
	}
	s.always &= e
	s.ever |= e
}

// point is called at the beginning of every call the pool makes on a member.
func (s *moveScript) point(what string, x *mover) {
	if !s.active {
		return
	}
	for _, ev := range s.events {
		if ev.step != s.steps {
			continue
		}
		t := s.ms[ev.member]
		before := t.seq
		switch ev.kind {
		case mvHead1, mvHead2, mvHead3:
			t.seq += uint32(ev.kind-mvHead1) + 1
		case mvNewest:
			var m uint32
			for _, y := range s.ms {
				if y.seq > m {
					m = y.seq
				}
			}
			t.seq = m + 1
		case mvDie:
			t.ok = false
		case mvRevive:
			t.ok = true
		}
		s.fired++
		if s.steps > 0 {
			s.inside++
		}
		if s.verbose {
			s.log = append(s.log, fmt.Sprintf("    conn id %d: %s (head %d -> %d, alive %v)", t.id, mvKindName[ev.kind], before, t.seq, t.ok))
		}
		s.snapshot()
	}
	if s.verbose {
		var v string
		switch what {
		case "MasterHead":
			v = fmt.Sprint(x.seq)
		case "IsOK":
			v = fmt.Sprint(x.ok)
		default:
			v = fmt.Sprint(x.rtt)
		}
		s.log = append(s.log, fmt.Sprintf("  call %d of the pool: %s() of conn id %d = %s", s.steps, what, x.id, v))
	}
	s.steps++
}

func (x *mover) ID() int { return x.id }
func (x *mover) MasterHead() ton.BlockIDExt {
	x.sc.point("MasterHead", x)
	return ton.BlockIDExt{BlockID: ton.BlockID{Workchain: -1, Shard: 0x8000000000000000, Seqno: x.seq}}
}
func (x *mover) SetMasterHead(ton.BlockIDExt) {}
func (x *mover) IsOK() bool {
	x.sc.point("IsOK", x)
	return x.ok
}
func (x *mover) Client() *liteclient.Client { return nil }
func (x *mover) Run(context.Context, bool)  {}
func (x *mover) IsArchiveNode() bool        { return false }
func (x *mover) AverageRoundTrip() time.Duration {
	x.sc.point("AverageRoundTrip", x)
	return x.rtt
}
func (x *mover) Status() pool.ConnStatus { return pool.ConnStatus{} }

type moveOutcome struct {
	fired, inside, steps int
	always, ever         uint8
	n                    int
	kept                 bool // the refresh left the previous choice in place
}

// rig is the reusable part of a pinned case: members, script and pool for one (strategy, n, id variant).
type moveRig struct {
	strategy, n, variant int
	ms                   []*mover
	sc                   *moveScript
	p                    *pool.ConnPool
	ids                  []int
	rtts                 []time.Duration
	lo                   []uint32
	mirror               []*fake
}

func newMoveRig(strategy, n, variant int) *moveRig {
	r := &moveRig{strategy: strategy, n: n, variant: variant, sc: &moveScript{}}
	conns := make([]pool.VerifConn, n)
	for i := 0; i < n; i++ {
		x := &mover{id: idVariants[variant][n-1][i], sc: r.sc}
		r.ms = append(r.ms, x)
		r.ids = append(r.ids, x.id)
		r.mirror = append(r.mirror, &fake{id: x.id})
		conns[i] = x
	}
	r.sc.ms = r.ms
	r.rtts = make([]time.Duration, n)
	r.lo = make([]uint32, n)
	r.p = pool.VerifNewPool(strategies[strategy], conns, nil)
	return r
}

func (r *moveRig) describe(mc *moveCase) string {
	var sb strings.Builder
	fmt.Fprintf(&sb, "strategy %s, members before the refresh (in the order given to the pool):", strategies[mc.strategy])
	for i := 0; i < mc.n; i++ {
		s := mc.state[i]
		fmt.Fprintf(&sb, " {id %d alive %v seqno %d rtt %v}", r.ids[i], s/16 == 1, mc.base+uint32((s/4)%4), gridRtts[s%4])
	}
	prev := "none"
	if mc.prev >= 0 {
		prev = fmt.Sprintf("conn id %d", r.ids[mc.prev])
	}
	fmt.Fprintf(&sb, ", previous best %s; during the refresh:", prev)
	if len(mc.events) == 0 {
		sb.WriteString(" nothing")
	}
	for _, ev := range mc.events {
		fmt.Fprintf(&sb, " [before call %d of the pool: conn id %d %s]", ev.step, r.ids[ev.member], mvKindName[ev.kind])
	}
	return sb.String()
}

// run executes one pinned case on the rig.
func (r *moveRig) run(mc *moveCase, verbose, again bool) (moveOutcome, error) {
	sc := r.sc
	for i, x := range r.ms {
		s := mc.state[i]
		x.ok = s/16 == 1
		x.seq = mc.base + uint32((s/4)%4)
		x.rtt = gridRtts[s%4]
		r.rtts[i] = x.rtt
		r.lo[i] = x.seq
	}
	sc.events, sc.steps, sc.fired, sc.inside = mc.events, 0, 0, 0
	sc.always, sc.ever, sc.aliveAny = 1<<uint(r.n)-1, 0, 0
	sc.verbose, sc.log = verbose, nil
	sc.snapshot()
	var prevConn pool.VerifConn
	if mc.prev >= 0 {
		prevConn = r.ms[mc.prev]
	}
	r.p.VerifSetBest(prevConn)
	sc.active = true
	r.p.VerifUpdateBest()
	sc.active = false
	got := r.position(r.p.VerifBest())
	out := moveOutcome{fired: sc.fired, inside: sc.inside, steps: sc.steps, always: sc.always, ever: sc.ever, n: r.n, kept: got == mc.prev}
	if got == -2 {
		return out, fmt.Errorf("the pool's best connection is not a member of the pool")
	}
	var mmin uint32
	for _, v := range r.lo {
		if v > mmin {
			mmin = v
		}
	}
	var pe uint8
	for i, x := range r.ms {
		if sc.aliveAny>>uint(i)&1 == 1 && uint64(x.seq)+1 >= uint64(mmin) {
			pe |= 1 << uint(i)
		}
	}
	if err := judgeMoving(r.strategy, r.ids, r.rtts, sc.always, pe, mc.prev, got); err != nil {
		return out, fmt.Errorf("%v%s", err, r.timeline())
	}
	if !again {
		return out, nil
	}
	// the heads stand still now: a further refresh is a refresh of a fixed configuration
	for i, x := range r.ms {
		r.mirror[i].seq, r.mirror[i].ok, r.mirror[i].rtt = x.seq, x.ok, x.rtt
	}
	e := oracle(r.strategy, r.mirror)
	r.p.VerifUpdateBest()
	got2 := r.position(r.p.VerifBest())
	switch {
	case got2 == -2:
		return out, fmt.Errorf("after a second refresh the pool's best connection is not a member of the pool")
	case e.eligible == 0 && got2 != got:
		return out, fmt.Errorf("after the refresh the heads stand still and no member is alive and current, the choice (%s) must be kept, but a second refresh switched to %s%s", posName(r.mirror, got), posName(r.mirror, got2), r.timeline())
	case e.eligible != 0 && (got2 < 0 || e.allowed>>uint(got2)&1 == 0):
		return out, fmt.Errorf("after the refresh the heads stand still; a second refresh chose %s, which the property does not allow for the members as they are now%s", posName(r.mirror, got2), r.timeline())
	}
	return out, nil
}

func (r *moveRig) timeline() string {
	if !r.sc.verbose {
		return ""
	}
	var sb strings.Builder
	sb.WriteString("\ntimeline of the refresh:\n")
	sb.WriteString(strings.Join(r.sc.log, "\n"))
	sb.WriteString("\nmembers afterwards:")
	for _, x := range r.ms {
		fmt.Fprintf(&sb, " {id %d alive %v seqno %d rtt %v}", x.id, x.ok, x.seq, x.rtt)
	}
	return sb.String()
}

// position: -1 nil, -2 not a member.
func (r *moveRig) position(c pool.VerifConn) int {
	if c == nil {
		return -1
	}
	for i, x := range r.ms {
		if c == pool.VerifConn(x) {
			return i
		}
	}
	return -2
}

// tape: strategy, n-1, ids, prev, base, state of member 0..3, number of events, 4 x (step, member, kind)
var refreshMoving = &core.Check{Name: "c13/refresh-moving", Quick: 12000, Thorough: 400000, Fn: func(c *core.Ctx) error {
	mc := &moveCase{}
	mc.strategy = c.Choose("strategy", 2)
	mc.n = 1 + c.Choose("n-1", 4)
	mc.variant = c.Choose("ids", 2)
	mc.prev = c.Choose("prev", 5)%(mc.n+1) - 1
	mc.base = uint32(c.OneOf("base seqno", 0, 1000))
	for i := 0; i < 4; i++ {
		mc.state[i] = c.Choose("state", mvStates+16) // alive twice as likely as dead
		if mc.state[i] >= mvStates {
			mc.state[i] -= 16
		}
	}
	nev := c.Choose("events", 5)
	for i := 0; i < 4; i++ {
		ev := moveEvent{step: c.Choose("step", mvMaxStep), member: c.Choose("member", 4) % mc.n, kind: c.Choose("kind", mvKinds)}
		if i < nev {
			mc.events = append(mc.events, ev)
		}
	}
	r := newMoveRig(mc.strategy, mc.n, mc.variant)
	c.Note("case", r.describe(mc))
	out, err := r.run(mc, false, true)
	if err != nil {
		_, err = r.run(mc, true, true) // again, with the timeline
		if err == nil {
			return fmt.Errorf("%s: the case failed once and passed when repeated (the check is not deterministic)", r.describe(mc))
		}
		return fmt.Errorf("%s: %v", r.describe(mc), err)
	}
	switch {
	case out.inside > 0:
		c.Class("members changed while the pool was looking at them")
	case out.fired > 0:
		c.Class("members changed only before the pool's first look")
	default:
		c.Class("nothing changed during the refresh")
	}
	switch {
	case out.always != 0:
		c.Class("some member eligible during the whole refresh (choice obliged)")
	case out.ever != 0:
		c.Class("members eligible only for a part of the refresh")
	default:
		c.Class("no member eligible at any moment")
	}
	if out.kept {
		c.Class("choice unchanged by the refresh")
	}
	if out.inside > 0 && out.always != out.ever {
		c.NonTrivial(mc.strategy, mc.n, mc.variant, mc.prev, mc.base, mc.state, fmt.Sprint(mc.events))
	}
	return nil
}}

func (mc *moveCase) tape() []uint64 {
	t := []uint64{uint64(mc.strategy), uint64(mc.n - 1), uint64(mc.variant), uint64(mc.prev + 1), 0}
	if mc.base != 0 {
		t[4] = 1
	}
	for i := 0; i < 4; i++ {
		t = append(t, uint64(mc.state[i]))
	}
	t = append(t, uint64(len(mc.events)))
	for i := 0; i < 4; i++ {
		if i < len(mc.events) {
			t = append(t, uint64(mc.events[i].step), uint64(mc.events[i].member), uint64(mc.events[i].kind))
		} else {
			t = append(t, 0, 0, 0)
		}
	}
	return t
}

type moveTotals struct {
	cases, inside, obliged, changed int64
}

var mvTotals moveTotals

// the grid: ONE event per refresh. One check execution = one slice (strategy, n, id variant, member that
// changes, kind of change); inside a plain loop over alive x head offset {0,1,2,3} of every member (base
// seqno 0, so that head 0 and the step 0 -> 1 are in), the round-trip patterns (first-working: one;
// best-ping: rising and falling with the configuration order), previous best none / last member, and the
// call of the pool before which the event happens (0, 1, ... until the refresh is over before the event).
//
// tape: strategy, n-1, ids, member, kind
var refreshGrid = &core.Check{Name: "c13/refresh-moving-grid", Fn: func(c *core.Ctx) error {
	strategy := c.Choose("strategy", 2)
	n := 1 + c.Choose("n-1", 4)
	variant := c.Choose("ids", 2)
	member := c.Choose("member", 4) % n
	kind := c.Choose("kind", mvKinds)
	r := newMoveRig(strategy, n, variant)
	c.Note("slice", fmt.Sprintf("strategy %s, %d members, ids %v, one event per refresh: conn id %d %s, before every call of the pool in turn; all alive x head {0,1,2,3} states of the members", strategies[strategy], n, idVariants[variant][n-1], r.ids[member], mvKindName[kind]))
	rttPatterns := [][4]int{{0, 1, 1, 3}}
	if strategy == 0 {
		rttPatterns = [][4]int{{0, 1, 1, 3}, {3, 1, 1, 0}}
	}
	mc := &moveCase{strategy: strategy, n: n, variant: variant, events: make([]moveEvent, 1)}
	var t moveTotals
	st := make([]int, n) // odometer: alive*4 + offset per member
	for {
		for _, pat := range rttPatterns {
			for i := 0; i < n; i++ {
				mc.state[i] = st[i]/4*16 + st[i]%4*4 + pat[i]
			}
			for _, prev := range [2]int{-1, n - 1} {
				mc.prev = prev
				for step := 0; step <= mvMaxStep; step++ {
					mc.events[0] = moveEvent{step: step, member: member, kind: kind}
					out, err := r.run(mc, false, false)
					if err != nil {
						_, err2 := r.run(mc, true, false)
						if err2 != nil {
							err = err2
						}
						tape := mc.tape()
						if step < mvMaxStep {
							core.RunTape(refreshMoving, tape) // leaves a replay file of the single case
						}
						return fmt.Errorf("%s: %v (single case: check c13/refresh-moving, tape %v)", r.describe(mc), err, tape)
					}
					if out.fired == 0 {
						break // the refresh was over before the event: every later step is the same case
					}
					t.cases++
					if out.inside > 0 {
						t.inside++
					}
					if out.always != 0 {
						t.obliged++
					}
					if out.inside > 0 && out.always != out.ever {
						t.changed++
					}
				}
			}
		}
		i := 0
		for ; i < n; i++ {
			st[i]++
			if st[i] < 8 {
				break
			}
			st[i] = 0
		}
		if i >= n {
			break
		}
	}
	mvTotals.cases += t.cases
	mvTotals.inside += t.inside
	mvTotals.obliged += t.obliged
	mvTotals.changed += t.changed
	if t.changed > 0 {
		c.NonTrivial(strategy, n, variant, member, kind)
	}
	c.Class(fmt.Sprintf("slice of %d-member pools", n))
	return nil
}}

func TestRefreshMoving(t *testing.T) {
	t.Run("grid", func(t *testing.T) {
		maxN := core.Scale(3, 4)
		core.Register(refreshMoving)
		what := fmt.Sprintf("updateBest with one change of one member (head +1/+2/newest+1, thorough tier also +3; dies, comes back) before each call the pool makes on its members, on every pool of 2..%d members x alive x head {0,1,2,3} per member x 2 strategies x previous best none/last x 2 id assignments", maxN)
		core.RunEnum(t, refreshGrid, what, func(yield func(...uint64) bool) {
			for n := maxN; n >= 2; n-- {
				for strategy := 0; strategy < 2; strategy++ {
					for variant := 0; variant < 2; variant++ {
						for member := 0; member < n; member++ {
							for kind := 0; kind < mvKinds; kind++ {
								if kind == mvHead3 && !core.Thorough() {
									continue // quick tier: +1, +2 and newest+1 only
								}
								if !yield(uint64(strategy), uint64(n-1), uint64(variant), uint64(member), uint64(kind)) {
									return
								}
							}
						}
					}
				}
			}
		})
		core.Extra(refreshGrid.Name, "refreshes", mvTotals.cases)
		core.Extra(refreshGrid.Name, "refreshes_changed_after_first_look", mvTotals.inside)
		core.Extra(refreshGrid.Name, "refreshes_choice_obliged", mvTotals.obliged)
		core.Extra(refreshGrid.Name, "refreshes_nontrivial", mvTotals.changed)
	})
	t.Run("sampled", func(t *testing.T) { core.Run(t, refreshMoving) })
}

// ---------------------------------------------------------------------------------------------
// real concurrency

// liveConn is a member of the pool under test: the head bookkeeping is the pool package's real connection
// (embedded; it belongs to a feeder pool whose Run drains the head channel), alive and round-trip are fixed.
type liveConn struct {
	pool.VerifConn
	id  int
	ok  bool
	rtt time.Duration
}

func (l *liveConn) ID() int                         { return l.id }
func (l *liveConn) IsOK() bool                      { return l.ok }
func (l *liveConn) Client() *liteclient.Client      { return nil }
func (l *liveConn) AverageRoundTrip() time.Duration { return l.rtt }
func (l *liveConn) Status() pool.ConnStatus         { return pool.ConnStatus{} }

var refreshConcurrent = &core.Check{Name: "c13/refresh-concurrent", Quick: 12, Thorough: 600, Hang: caseHang, Fn: func(c *core.Ctx) error {
	caseStart()
	gmp := c.OneOf("gomaxprocs", 4, 2, 16, 8)
	strategy := c.Weighted("strategy", 1, 2) // 0 best-ping, 1 first-working
	n := 2 + c.Choose("connections-2", 3)
	variant := c.Choose("ids", 2)
	leader := c.Weighted("leader", 4, 1, 1, 1) % n // position of the member that gets every block first
	deadBefore := c.Weighted("members before the leader", 3, 1) == 1
	pattern := c.Choose("pattern", 3) // 0 leader first then the others catch up, 1 leader first, the others stay one block behind, 2 one reporter per member, all at once
	rounds := c.OneOf("rounds", 600, 200, 2000)
	spinMax := c.OneOf("reporter delay (spins)", 0, 20, 200)
	refreshSpin := c.OneOf("refresh delay (spins)", 0, 20)
	seed := c.U64("delay seed")
	patName := [...]string{"one reporter: the leader gets block s+1, then every other member gets it", "one reporter: the leader gets block s+1, then every other member gets block s", "one reporter per member, all get block s+1 at the same time"}[pattern]
	c.Note("gomaxprocs", gmp)
	c.Note("pool", fmt.Sprintf("strategy %s, %d members with ids %v (real connections behind wrappers), leader at position %d, members configured before the leader dead: %v", strategies[strategy], n, idVariants[variant][n-1][:n], leader, deadBefore))
	c.Note("reports", fmt.Sprintf("%d rounds; before each refresh the reporters are released: %s; reporter delay up to %d spins, refresh delay up to %d spins", rounds, patName, spinMax, refreshSpin))
	c.Class(fmt.Sprintf("gomaxprocs %d", gmp))
	c.Class("strategy " + string(strategies[strategy]))
	c.Class(fmt.Sprintf("pattern %d", pattern))

	old := runtime.GOMAXPROCS(gmp)
	defer runtime.GOMAXPROCS(old)
	blocked := func(err error) error {
		c.Class("pool blocked")
		return err
	}

	// the feeder pool owns the real connections and drains their head channel
	feeder := pool.VerifNewPool(pool.FirstWorkingConnection, nil, nil)
	feeder.VerifSetUpdateInterval(time.Hour)
	ids := append([]int(nil), idVariants[variant][n-1][:n]...)
	leaderID := ids[leader]
	members := make([]*liveConn, n)
	conns := make([]pool.VerifConn, n)
	rtts := make([]time.Duration, n)
	var alive uint8
	for i := 0; i < n; i++ {
		l := &liveConn{VerifConn: feeder.VerifNewConnection(i), id: ids[i], ok: true}
		switch {
		case i == leader:
			l.rtt = 400 * time.Microsecond // the leader is the cheapest member
		default:
			l.rtt = time.Duration(900+100*i) * time.Microsecond
		}
		if deadBefore && ids[i] < leaderID {
			l.ok = false
		}
		if l.ok {
			alive |= 1 << uint(i)
		}
		members[i], conns[i], rtts[i] = l, l, l.rtt
	}
	ctx, stop := context.WithCancel(context.Background())
	defer stop()
	go feeder.Run(ctx)
	const base = uint32(baseSeqno)
	for i, m := range members {
		if err := setHead(m, fmt.Sprintf("conn id %d (fresh pool)", ids[i]), base); err != nil {
			return blocked(err)
		}
	}
	prev := (leader + 1) % n
	p := pool.VerifNewPool(strategies[strategy], conns, members[prev])
	p.VerifSetUpdateInterval(time.Hour)

	var (
		handed   [4]atomic.Uint32 // newest head handed to SetMasterHead of member i (raised before the call)
		done     [4]atomic.Uint32 // newest head whose SetMasterHead on member i has returned
		epoch    atomic.Int64     // number of refreshes announced
		back     atomic.Int64     // reporter rounds completed (all reporters together)
		quit     atomic.Bool
		sink     atomic.Int64
		progress atomic.Int64 // refreshes completed
	)
	for i := 0; i < n; i++ {
		handed[i].Store(base)
		done[i].Store(base)
	}
	spin := func(k int) {
		for i := 0; i < k; i++ {
			sink.Add(1)
		}
	}
	report := func(i int, s uint32) {
		atomicMax(&handed[i], s)
		members[i].SetMasterHead(pool.VerifHead(s))
		atomicMax(&done[i], s)
	}
	// waitEpoch returns false when the case is over.
	waitEpoch := func(r int64) bool {
		for epoch.Load() <= r {
			if quit.Load() {
				return false
			}
			runtime.Gosched()
		}
		return true
	}
	reporters := 1
	if pattern == 2 {
		reporters = n
	}
	repDone := make(chan struct{})
	var left atomic.Int32
	left.Store(int32(reporters))
	for w := 0; w < reporters; w++ {
		go func(w int) {
			defer func() {
				if left.Add(-1) == 0 {
					close(repDone)
				}
			}()
			rng := core.NewSplitMix(seed + uint64(w)*7919)
			for r := int64(0); r < int64(rounds); r++ {
				if !waitEpoch(r) {
					return
				}
				if spinMax > 0 {
					spin(rng.Intn(spinMax + 1))
				}
				s := base + uint32(r) + 1
				switch pattern {
				case 0, 1:
					report(leader, s)
					for i := 0; i < n; i++ {
						if i != leader {
							report(i, s-uint32(pattern))
						}
					}
				default:
					report(w, s)
				}
				back.Add(1)
			}
		}(w)
	}
	defer quit.Store(true)

	position := func(cn pool.VerifConn) int {
		if cn == nil {
			return -1
		}
		for i, m := range members {
			if cn == pool.VerifConn(m) {
				return i
			}
		}
		return -2
	}
	var (
		obliged, moved, lagging, quietChecked int
		cutShort                              bool
		verdict                               error
	)
	bounds := func(lo, hi *[4]uint32) (ce, pe uint8) {
		var maxLo, maxHi uint32
		for i := 0; i < n; i++ {
			if lo[i] > maxLo {
				maxLo = lo[i]
			}
			if hi[i] > maxHi {
				maxHi = hi[i]
			}
		}
		for i := 0; i < n; i++ {
			if alive>>uint(i)&1 == 0 {
				continue
			}
			if uint64(lo[i])+1 >= uint64(maxHi) {
				ce |= 1 << uint(i)
			}
			if uint64(hi[i])+1 >= uint64(maxLo) {
				pe |= 1 << uint(i)
			}
		}
		return
	}
	loop := func() {
		rng := core.NewSplitMix(seed ^ 0x9e3779b97f4a7c15)
		prevPos := prev
		t0 := time.Now()
		for r := 0; r < rounds; r++ {
			progress.Store(int64(r))
			if r&31 == 0 && time.Since(t0) > 1500*time.Millisecond {
				cutShort = true // a budget, not a verdict: the machine is busy
				return
			}
			var lo, hi [4]uint32
			for i := 0; i < n; i++ {
				lo[i] = done[i].Load()
			}
			epoch.Store(int64(r) + 1)
			if refreshSpin > 0 {
				spin(rng.Intn(refreshSpin + 1))
			}
			p.VerifUpdateBest()
			for i := 0; i < n; i++ {
				hi[i] = handed[i].Load()
			}
			got := position(p.VerifBest())
			if got == -2 {
				verdict = fmt.Errorf("refresh %d: the pool's best connection is not a member of the pool", r+1)
				return
			}
			ce, pe := bounds(&lo, &hi)
			if err := judgeMoving(strategy, ids, rtts, ce, pe, prevPos, got); err != nil {
				verdict = fmt.Errorf("refresh %d of %d, running while the reporters hand over block %d: %v\nheads of the members (by position) when the refresh began: at least %v (SetMasterHead had returned), when it ended: at most %v (handed to SetMasterHead); alive mask %03b; previous choice position %d",
					r+1, rounds, base+uint32(r)+1, err, lo[:n], hi[:n], alive, prevPos)
				return
			}
			if ce != 0 {
				obliged++
				if hi[leader] > lo[leader] {
					moved++
				}
			}
			prevPos = got
			// let the reporters finish the round (bounded; nothing depends on it but the sharpness of the bounds)
			want := int64(r+1) * int64(reporters)
			for k := 0; k < 5000 && back.Load() < want; k++ {
				runtime.Gosched()
			}
			if back.Load() < want {
				lagging++
				continue
			}
			// the heads stand still: a refresh of a fixed configuration
			for i := 0; i < n; i++ {
				lo[i] = done[i].Load()
			}
			p.VerifUpdateBest()
			got = position(p.VerifBest())
			ce, pe = bounds(&lo, &lo)
			if got == -2 {
				verdict = fmt.Errorf("refresh %d (quiet): the pool's best connection is not a member of the pool", r+1)
				return
			}
			if err := judgeMoving(strategy, ids, rtts, ce, pe, prevPos, got); err != nil {
				verdict = fmt.Errorf("after round %d every reporter was back and the heads of the members (by position) stood at %v, alive mask %03b, previous choice position %d; a refresh then: %v", r+1, lo[:n], alive, prevPos, err)
				return
			}
			quietChecked++
			prevPos = got
		}
	}
	// the refreshes run on a goroutine of their own; the wait for them is bounded by progress: the pool is
	// called blocked when not a single refresh was completed during a whole callLimit
	loopDone := make(chan struct{})
	var loopPanic error
	go func() {
		defer close(loopDone)
		loopPanic = core.Protect(func() error { loop(); return nil })
	}()
	for last := int64(-1); ; {
		h := await(loopDone, callLimit, nil)
		if h == nil {
			break
		}
		if now := progress.Load(); now != last {
			last = now
			continue
		}
		return blocked(blockedError(fmt.Sprintf("refresh %d of %d (VerifUpdateBest / VerifBest next to %d reporter goroutines)", last+1, rounds, reporters), h))
	}
	if loopPanic != nil {
		return fmt.Errorf("a refresh next to %d reporter goroutines: %v", reporters, loopPanic)
	}
	quit.Store(true)
	if h := await(repDone, callLimit, nil); h != nil {
		return blocked(blockedError("the reporters (SetMasterHead on the members' real connections, Run of their pool draining the head channel)", h))
	}
	if verdict != nil {
		c.Class("wrong choice under moving heads")
		return verdict
	}
	c.Note("seen", fmt.Sprintf("%d refreshes with an obliged choice, %d of them with a head of the leader handed over between the bounds of the refresh; %d quiet refreshes judged; %d rounds in which the reporters were not back in time", obliged, moved, quietChecked, lagging))
	if lagging > 0 {
		c.Class("reporters lagging (bounds less sharp)")
	}
	if cutShort {
		c.Class("cut short after 1.5 s (busy machine)")
	}
	if moved > 0 {
		c.Class("heads advanced next to an obliged refresh")
		c.NonTrivial(gmp, strategy, n, variant, leader, deadBefore, pattern, rounds, spinMax, refreshSpin, seed)
	}
	return nil
}}

func TestRefreshConcurrent(t *testing.T) { core.Run(t, refreshConcurrent) }
