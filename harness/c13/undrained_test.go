package c13

import (
	"context"
	"fmt"
	"runtime"
	"sync"
	"testing"
	"time"

	"github.com/tonkeeper/tongo/liteapi/pool"
	"github.com/tonkeeper/tongo/ton"

	"verifharness/internal/core"
)

// c13/undrained-heads: the head the waiters are waiting for is reported by the best connection while the
// pool's Run loop is not taking head updates out of the pool's channel, behind 0..40 head updates of the
// other connections of the pool (more than the channel buffers, in most cases). The property obliges the
// waiters to succeed (the best connection reported the head seconds before their deadline) and the
// reporters not to stay blocked. Why Run is not draining (drawn):
//
//	route 0: the pool lock is held: a caller of WaitMasterchainSeqno is inside subscribe, reading the head
//	  of the best connection (the pool's real connection behind a wrapper whose MasterHead() parks the
//	  reader until the test releases it, like a reader that lost the CPU); Run then sits in
//	  notifySubscribers waiting for the read lock. That caller must succeed as well: its read returns
//	  the old head, the target is reported during its call.
//	route 1: Run is started only after the reporters had `dwell` ms to hand over their heads.
//	route 2: control, Run is active and free.
//
// The heads are handed over by one goroutine in a fixed order, the best connection's target last (or by
// one goroutine per connection, the best one starting 3 ms after the others). The other connections stay
// far below the target or run ahead of it (then a success before the best connection was handed the
// target is a violation too). The best connection reports nothing after the target; 0..2 heads of the
// other connections follow right behind it.
//
// Three further draws (round 7): who reports the heads below the target while Run is not draining: the
// other connections (as above), the best connection itself (it starts 100 heads lower and catches up:
// the reporter that has to wait for room in the channel is then the best connection's own), or both in
// turns; whether the parked reader of route 0 takes the connection's head before it is parked or after
// (a reader that lost the CPU before it reached the connection's lock: it then reads a connection whose
// reporter is waiting for room in the channel); 0..2 further callers that arrive while Run is not draining
// (route 0: they queue for the pool lock behind the parked caller and get it in turns with Run once it
// is released). The obligations are the same for everybody: the best connection reports the target
// seconds before every deadline, so every caller succeeds and every SetMasterHead returns.
//
// Real time: 4 s timeouts, everything is out a few ms after the lock was released / Run was started (at
// most ~100 ms after the start). An error counts only if all early waiters had been seen registered
// before the first head, SetMasterHead(target) on the best connection had returned >= 2 s before the
// deadline and a 1 ms sleeper never overslept by more than 300 ms; else the case is inconclusive.

// gateConn wraps the pool's real connection. Once armed, the next read of its head takes the value,
// tells the test and stays parked until released (at most 10 s).
type gateConn struct {
	pool.VerifConn

	late bool // the parked read takes the connection's head after the park, not before

	mu      sync.Mutex
	armed   bool
	fired   bool
	entered chan struct{}
	release chan struct{}
	once    sync.Once
}

func (g *gateConn) MasterHead() ton.BlockIDExt {
	g.mu.Lock()
	fire := g.armed && !g.fired
	if fire {
		g.fired = true
	}
	g.mu.Unlock()
	if !fire {
		return g.VerifConn.MasterHead()
	}
	var head ton.BlockIDExt
	if !g.late {
		head = g.VerifConn.MasterHead()
	}
	close(g.entered)
	select {
	case <-g.release:
	case <-time.After(10 * time.Second):
	}
	if g.late {
		head = g.VerifConn.MasterHead()
	}
	return head
}

func (g *gateConn) arm() {
	g.mu.Lock()
	g.armed = true
	g.mu.Unlock()
}

func (g *gateConn) open() { g.once.Do(func() { close(g.release) }) }

type headEv struct {
	conn   int
	seq    uint32
	oblige bool
}

var undrainedHeads = &core.Check{Name: "c13/undrained-heads", Quick: 40, Thorough: 4000, Hang: caseHang, Fn: func(c *core.Ctx) error {
	caseStart()
	gmp := c.OneOf("gomaxprocs", 1, 2, 16)
	nconn := 2 + c.Choose("connections-2", 3)
	bestPos := c.Choose("best", 4) % nconn
	route := c.Weighted("route", 4, 3, 1)
	floodKind := c.Weighted("flood", 1, 3, 3)
	flood := c.Choose("flood.n", 27)
	switch floodKind {
	case 0:
		flood %= 10 // fits into the channel
	case 1:
		flood = 10 + flood%4 // just about the capacity
	default:
		flood += 14
	}
	ahead := c.Bool("others ahead")
	bestSteps := c.Choose("best reports", 3) // 0 the target, 1 target-1 in the middle and the target, 2 beyond the target
	perConn := c.Weighted("reporters", 3, 1) == 1
	tail := c.Choose("tail", 3) // heads of the other connections reported right behind the target
	nW := 1 + c.Choose("waiters-1", 3)
	dwell := time.Duration(c.OneOf("dwell.ms", 20, 5, 60)) * ms
	floodBy := c.Weighted("flood by", 2, 2, 1) // 0 the other connections, 1 the best connection itself, 2 in turns
	readLate := c.Bool("read after the park")  // route 0: the parked reader takes the head after the park
	fresh := c.Choose("fresh callers", 3)      // callers that arrive while Run is not draining

	const base = uint32(baseSeqno)
	target := base + 3
	heads := make([]uint32, nconn)
	var others []int
	for i := range heads {
		heads[i] = base
		if i != bestPos {
			others = append(others, i)
			if !ahead {
				heads[i] = base - 500
			}
		} else if floodBy != 0 {
			heads[i] = base - 100 // it catches up while Run is not draining; at most 40 heads: it stays below the target
		}
	}
	initial := append([]uint32(nil), heads...)
	var evs []headEv
	fromBest := 0
	for i := 0; i < flood; i++ {
		if bestSteps == 1 && floodBy == 0 && i == flood/2 {
			evs = append(evs, headEv{conn: bestPos, seq: target - 1})
		}
		o := others[i%len(others)]
		if floodBy == 1 || (floodBy == 2 && i%2 == 1) {
			o = bestPos
			fromBest++
		}
		heads[o]++
		evs = append(evs, headEv{conn: o, seq: heads[o]})
	}
	if bestSteps == 1 && floodBy != 0 {
		evs = append(evs, headEv{conn: bestPos, seq: target - 1})
	}
	last := target
	if bestSteps == 2 {
		last = target + 2
	}
	evs = append(evs, headEv{conn: bestPos, seq: last, oblige: true})
	for i := 0; i < tail; i++ {
		o := others[i%len(others)]
		heads[o]++
		evs = append(evs, headEv{conn: o, seq: heads[o]})
	}

	routeName := [...]string{
		"the pool lock is held by a caller of WaitMasterchainSeqno parked inside its read of the best connection's head",
		"Run is started after the heads were handed over",
		"Run active and free (control)",
	}[route]
	c.Note("gomaxprocs", gmp)
	c.Note("pool", fmt.Sprintf("%d connections, best conn%d, initial heads %v; %d x WaitMasterchainSeqno(%d, %v) registered before", nconn, bestPos, initial, nW, target, pointTimeout))
	c.Note("while Run is not draining", fmt.Sprintf("%s, for %v (or until all heads are handed over)", routeName, dwell))
	c.Note("heads", fmt.Sprintf("%d heads below the target, %d of them reported by the best connection itself, the rest by the other connections (which are ahead of the target: %v), then the best connection reports %d, then %d more heads of the other connections; one reporter per connection: %v; events %v", flood, fromBest, ahead, last, tail, perConn, evs))
	c.Note("callers", fmt.Sprintf("%d further callers of WaitMasterchainSeqno(%d, %v) arrive while Run is not draining; the parked reader (route 0) takes the connection's head after the park: %v", fresh, target, pointTimeout, readLate))
	c.Class("route: " + routeName)
	c.Class([]string{"heads below the target: reported by the other connections", "heads below the target: reported by the best connection itself", "heads below the target: reported in turns"}[floodBy])
	c.Class(fmt.Sprintf("gomaxprocs %d", gmp))

	old := runtime.GOMAXPROCS(gmp)
	defer runtime.GOMAXPROCS(old)

	p := pool.VerifNewPool(pool.FirstWorkingConnection, nil, nil)
	p.VerifSetUpdateInterval(time.Hour)
	conns := make([]pool.VerifConn, nconn)
	for i := range conns {
		conns[i] = p.VerifNewConnection(i)
	}
	best := &gateConn{VerifConn: conns[bestPos], late: readLate, entered: make(chan struct{}), release: make(chan struct{})}
	defer best.open()
	blocked := func(err error) error {
		c.Class("pool blocked")
		return err
	}
	if err := setBest(p, best, fmt.Sprintf("conn%d (fresh pool)", bestPos)); err != nil {
		return blocked(err)
	}
	ctx, stopRun := context.WithCancel(context.Background())
	defer stopRun()
	var runOnce sync.Once
	startRun := func() { runOnce.Do(func() { go p.Run(ctx) }) }
	if route != 1 {
		startRun()
	}
	t0 := time.Now()
	since := func() time.Duration { return time.Since(t0) }
	for i, cn := range conns { // at most 4 updates: they fit into the channel also without Run (else Run is started: no verdict)
		var rescue func()
		if route == 1 {
			rescue = startRun
		}
		rescued, err := poolCallRescue(fmt.Sprintf("the first SetMasterHead(%d) on conn%d of a fresh pool", initial[i], i), func() { cn.SetMasterHead(pool.VerifHead(initial[i])) }, rescue)
		if err != nil {
			return blocked(err)
		}
		if rescued {
			c.Class("inconclusive: Run had to be started early (the head channel did not take the heads)")
			return nil
		}
	}
	probe := startLagProbe()
	probeDone := false
	var lag time.Duration
	finishProbe := func() time.Duration {
		if !probeDone {
			probeDone = true
			lag = probe.finish()
		}
		return lag
	}
	defer finishProbe()

	wctx, cancelWaiters := context.WithCancel(context.Background())
	defer cancelWaiters()
	type result struct {
		who    string
		err    error
		t0, t1 time.Duration
	}
	out := make(chan result, nW+1+fresh)
	var wg sync.WaitGroup
	call := func(who string) {
		wg.Add(1)
		go func() {
			defer wg.Done()
			r := result{who: who, t0: since()}
			r.err = p.WaitMasterchainSeqno(wctx, target, pointTimeout)
			r.t1 = since()
			out <- r
		}()
	}
	giveUp := func(why string) error {
		best.open()
		cancelWaiters()
		if h := awaitGroup(&wg, callLimit); h != nil {
			return blocked(blockedError("callers of WaitMasterchainSeqno whose context was cancelled", h))
		}
		c.Class("inconclusive: " + why)
		return nil
	}
	for i := 0; i < nW; i++ {
		call("a waiter registered before the heads")
	}
	if n, err := waitersSeen(p, nW, nil); err != nil {
		return blocked(err)
	} else if n != nW {
		return giveUp("waiters not registered in 2 s (slow machine)")
	}
	time.Sleep(2 * ms) // let them park, let Run hand out the initial heads
	if route == 0 {
		best.arm()
		call("the caller that held the pool lock while the heads were reported")
		select {
		case <-best.entered:
		case <-time.After(2 * time.Second):
			return giveUp("the caller did not reach its read of the best connection's head in 2 s (slow machine)")
		}
	}

	// the reporters
	var pubMu sync.Mutex
	var pubT0, pubT1 time.Duration
	pubCalled, pubDone := false, false
	report := func(list []headEv) {
		for _, e := range list {
			if e.oblige {
				pubMu.Lock()
				pubT0, pubCalled = since(), true
				pubMu.Unlock()
			}
			conns[e.conn].SetMasterHead(pool.VerifHead(e.seq))
			if e.oblige {
				pubMu.Lock()
				pubT1, pubDone = since(), true
				pubMu.Unlock()
			}
		}
	}
	var rep sync.WaitGroup
	startT := since()
	if !perConn {
		rep.Add(1)
		go func() { defer rep.Done(); report(evs) }()
	} else {
		for i := 0; i < nconn; i++ {
			var mine []headEv
			for _, e := range evs {
				if e.conn == i {
					mine = append(mine, e)
				}
			}
			rep.Add(1)
			go func(i int, mine []headEv) {
				defer rep.Done()
				if i == bestPos {
					time.Sleep(3 * ms)
				}
				report(mine)
			}(i, mine)
		}
	}
	repDone := make(chan struct{})
	go func() { rep.Wait(); close(repDone) }()
	for i := 0; i < fresh; i++ {
		time.Sleep(ms)
		call("a caller that arrived while Run was not draining")
	}
	handedOver := false
	select {
	case <-repDone:
		handedOver = true // nobody had to wait for room in the channel
	case <-time.After(dwell):
	}
	switch route {
	case 0:
		best.open()
	case 1:
		startRun()
	}
	freeT := since()

	if h := await(repDone, pointTimeout+20*time.Second, nil); h != nil {
		c.Class("pool blocked")
		return fmt.Errorf("the pool is blocked: the connections' SetMasterHead calls (started at %v) are not all back %s, counted from the moment Run was free to take updates again (%v; %s)\ngoroutines inside the pool package:\n%s", startT, h, freeT, routeName, h.dump.text)
	}
	if h := awaitGroup(&wg, pointTimeout+20*time.Second); h != nil {
		c.Class("pool blocked")
		return fmt.Errorf("the pool is blocked: %d x WaitMasterchainSeqno(%d, %v) not all back %s\ngoroutines inside the pool package:\n%s", nW+fresh+map[bool]int{true: 1}[route == 0], target, pointTimeout, h, h.dump.text)
	}
	close(out)
	if route == 2 {
		// control
	} else if handedOver {
		c.Class("all heads were handed over while Run was not draining")
	} else {
		c.Class("reporters had to wait for room in the channel")
	}

	var problems []string
	inconclusive := ""
	for r := range out {
		if r.err == nil {
			if !pubCalled || r.t1 < pubT0 {
				problems = append(problems, fmt.Sprintf("%s: WaitMasterchainSeqno(%d) started at %v returned success at %v, before the best connection conn%d was handed a head >= %d (at %v; its head was below %d then; other connections ahead of the target: %v)", r.who, target, r.t0, r.t1, bestPos, target, pubT0, target, ahead))
			}
			continue
		}
		deadline := r.t0 + pointTimeout
		switch {
		case finishProbe() > pointLag:
			inconclusive = "scheduler lag"
		case !pubDone || pubT1 > deadline-pointMargin:
			inconclusive = "head published late"
		default:
			problems = append(problems, fmt.Sprintf("%s: WaitMasterchainSeqno(%d, %v) started at %v returned %s at %v although the best connection conn%d reported head %d at %v (SetMasterHead returned at %v), %v before the deadline; Run was not draining the pool's channel from %v to %v (%s) while %d heads below the target were reported before that head (all reporters back before Run was free: %v); the best connection reports nothing afterwards; scheduler lag %v",
				r.who, target, pointTimeout, r.t0, errText(r.err), r.t1, bestPos, last, pubT0, pubT1, deadline-pubT1, startT, freeT, routeName, flood, handedOver, lag))
		}
	}
	if len(problems) > 0 {
		if n := len(problems); n > 2 {
			problems = append(problems[:2], fmt.Sprintf("(%d more waiters alike)", n-2))
		}
		return fmt.Errorf("%s", joinLines(problems))
	}
	if inconclusive != "" {
		c.Class("inconclusive: " + inconclusive)
		return nil
	}
	c.Note("scheduler lag", finishProbe().String())
	if ok, why := sentinelDelivered(p, best, sentinel, 20*time.Second); !ok {
		c.Class("pool blocked")
		_, d := verifiablyStuck(func() int64 { return 0 })
		return fmt.Errorf("after the case the pool does not deliver a fresh head to a fresh waiter within 20 s: %s\ngoroutines inside the pool package:\n%s", why, d.text)
	}
	if route != 2 && flood+nconn >= 11 {
		c.Class("more heads than the channel holds while Run was not draining")
		if fromBest >= 12 {
			c.Class("the best connection's own reporter had to wait for room in the channel")
		}
		c.NonTrivial(gmp, nconn, bestPos, route, flood, ahead, bestSteps, perConn, tail, nW, int(dwell/ms), floodBy, readLate, fresh)
	}
	return nil
}}

func TestUndrainedHeads(t *testing.T) { core.Run(t, undrainedHeads) }
