package c13

import (
	"fmt"
	"testing"
	"time"

	"github.com/tonkeeper/tongo/liteapi/pool"

	"verifharness/internal/core"
)

// c13/registration-order: InitializeConnections dials its servers at the same time and registers each when its
// handshake is done, i.e. in any order. Whatever the order, the pool then holds every registered connection
// exactly once, in configuration order (the order the first-working strategy walks): observed through Status(),
// which lists the members in the pool's own order, and through the best connection of a pool whose members are
// all down (the first registered one is chosen and kept).
// tape: number of connections, index of the permutation.
var registrationOrder = &core.Check{Name: "c13/registration-order", Hang: caseHang, Fn: func(c *core.Ctx) error {
	caseStart()
	n := 1 + c.Intn("n", 5)
	perm := nthPermutation(n, c.Intn("perm", 120))
	c.Note("registered in order", fmt.Sprint(perm))
	c.NonTrivial(n, fmt.Sprint(perm))
	p := pool.VerifNewPool(pool.FirstWorkingConnection, nil, nil)
	p.VerifSetUpdateInterval(time.Hour)
	var first pool.VerifConn
	for i, id := range perm {
		var cn pool.VerifConn
		if err := poolCall(fmt.Sprintf("registering connection %d", id), func() { cn = p.VerifAddConnection(id, fmt.Sprintf("host-%d", id)) }); err != nil {
			return err
		}
		if i == 0 {
			first = cn
		}
	}
	var st pool.Status
	if err := poolCall("Status()", func() { st = p.Status() }); err != nil {
		return err
	}
	var hosts []string
	for _, cs := range st.Connections {
		hosts = append(hosts, cs.ServerHost)
	}
	if len(hosts) != n {
		return fmt.Errorf("connections registered in order %v: the pool lists %d members %v, want %d", perm, len(hosts), hosts, n)
	}
	for i, h := range hosts {
		if want := fmt.Sprintf("host-%d", i); h != want {
			return fmt.Errorf("connections registered in order %v: the pool lists its members as %v, want every connection once in configuration order (member %d is %s, want %s)", perm, hosts, i, h, want)
		}
	}
	// all members are down: a refresh keeps the previous choice, which is the connection registered first
	if err := poolCall("updateBest", func() { p.VerifUpdateBest() }); err != nil {
		return err
	}
	if best := p.VerifBest(); best == nil || best.ID() != first.ID() {
		return fmt.Errorf("connections registered in order %v, all down: the best connection after a refresh is %v, want the one chosen at registration (id %d)", perm, best, first.ID())
	}
	return nil
}}

func nthPermutation(n, k int) []int {
	items := make([]int, n)
	for i := range items {
		items[i] = i
	}
	out := make([]int, 0, n)
	for i := n; i > 0; i-- {
		f := 1
		for j := 2; j < i; j++ {
			f *= j
		}
		idx := (k / f) % i
		out = append(out, items[idx])
		items = append(items[:idx], items[idx+1:]...)
	}
	return out
}

func TestRegistrationOrder(t *testing.T) {
	core.RunEnum(t, registrationOrder, "pools of 1..5 connections registered in every order (153 permutations)", func(yield func(...uint64) bool) {
		fact := []int{1, 1, 2, 6, 24, 120}
		for n := 1; n <= 5; n++ {
			for k := 0; k < fact[n]; k++ {
				if !yield(uint64(n-1), uint64(k)) {
					return
				}
			}
		}
	})
}
