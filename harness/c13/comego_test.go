package c13

import (
	"context"
	"errors"
	"fmt"
	"testing"
	"time"

	"github.com/tonkeeper/tongo/liteapi/pool"

	"verifharness/internal/core"
)

// c13/come-and-go: a waiter stays subscribed while other waiters come and go around it. A subscribes, B
// subscribes, A leaves (its short timeout elapses, or its context is cancelled), C subscribes; then the best
// connection reports B's head, then C's. B's and C's timeouts (6 s) lie far behind the moment their heads are
// reported, so both return success. The order of subscriptions is fixed by waiting for the pool's waiter count.
// tape: how A leaves (0 timeout, 1 cancel), how many waiters like A come before B (1..3), whether one more
// short-lived waiter comes and goes after C.
var comeAndGo = &core.Check{Name: "c13/come-and-go", Hang: caseHang, Fn: func(c *core.Ctx) error {
	err := comeAndGoCase(c)
	if errors.Is(err, errOrderNotSeen) {
		// the harness could not establish the order of subscriptions it wanted (a waiter came or left at
		// another moment than planned): nothing is judged
		c.Class("subscription order not established")
		return nil
	}
	return err
}}

var errOrderNotSeen = errors.New("subscription order not established")

func comeAndGoCase(c *core.Ctx) error {
	caseStart()
	leave := c.Intn("leave", 2)
	early := 1 + c.Intn("early", 3)
	late := c.Intn("late", 2) == 1
	p := pool.VerifNewPool(pool.FirstWorkingConnection, nil, nil)
	p.VerifSetUpdateInterval(time.Hour)
	best := p.VerifNewConnection(0)
	if err := setBest(p, best, "conn0"); err != nil {
		return err
	}
	runCtx, cancel := context.WithCancel(context.Background())
	defer cancel()
	go p.Run(runCtx)
	const head = 100
	if err := poolCall("SetMasterHead on the best connection", func() { best.SetMasterHead(pool.VerifHead(head)) }); err != nil {
		return err
	}
	c.NonTrivial(leave, early, late)
	count := func() (int, error) {
		n := -1
		err := poolCall("reading the number of registered waiters (pool read lock)", func() { n = p.VerifWaiters() })
		return n, err
	}
	awaitCount := func(want int, what string) error {
		t0 := time.Now()
		for {
			n, err := count()
			if err != nil {
				return err
			}
			if n == want {
				return nil
			}
			if time.Since(t0) > 20*time.Second {
				return fmt.Errorf("%w: %s: %d registered waiters after 20 s, expected %d", errOrderNotSeen, what, n, want)
			}
			time.Sleep(200 * time.Microsecond)
		}
	}
	const long = 6 * time.Second
	start := func(ctx context.Context, seqno uint32, timeout time.Duration) chan error {
		res := make(chan error, 1)
		go func() { res <- p.WaitMasterchainSeqno(ctx, seqno, timeout) }()
		return res
	}
	// the early waiters (A...)
	aCtx, aCancel := context.WithCancel(context.Background())
	defer aCancel()
	aTimeout := 30 * time.Millisecond
	if leave == 1 {
		aTimeout = long
	}
	var as []chan error
	for i := 0; i < early; i++ {
		as = append(as, start(aCtx, head+5, aTimeout))
		if err := awaitCount(i+1, "early waiter subscribing"); err != nil {
			if leave == 0 {
				return nil // its short timeout elapsed before the harness saw it: nothing to judge
			}
			return err
		}
	}
	n, err := count()
	if err != nil {
		return err
	}
	if n != early {
		c.Class("early waiters left before B came")
		return nil
	}
	resB := start(context.Background(), head+10, long)
	tB := time.Now()
	if err := awaitCount2(count, early+1, early); err != nil {
		return err
	}
	if leave == 1 {
		aCancel()
	}
	for _, a := range as {
		if e := <-a; e == nil {
			return fmt.Errorf("an early waiter for seqno %d returned success although the best connection is at head %d", head+5, head)
		}
	}
	if err := awaitCount(1, "the early waiters leaving"); err != nil {
		return err
	}
	resC := start(context.Background(), head+20, long)
	// C is given time to subscribe, but its subscription is not awaited through the waiter count: a pool that
	// loses a waiter when another one comes must not hide behind a count that never gets there
	settle := func() error {
		t0 := time.Now()
		for time.Since(t0) < 150*time.Millisecond {
			n, err := count()
			if err != nil {
				return err
			}
			if n >= 2 && time.Since(t0) > 20*time.Millisecond {
				break
			}
			time.Sleep(time.Millisecond)
		}
		return nil
	}
	if err := settle(); err != nil {
		return err
	}
	if late {
		d := start(context.Background(), head+500, time.Millisecond)
		<-d
		if err := settle(); err != nil {
			return err
		}
	}
	if err := poolCall("SetMasterHead on the best connection", func() { best.SetMasterHead(pool.VerifHead(head + 10)) }); err != nil {
		return err
	}
	published := time.Since(tB)
	var eB error
	done := make(chan struct{})
	go func() { eB = <-resB; close(done) }()
	if h := await(done, callLimit, nil); h != nil {
		return blockedError("waiter B", h)
	}
	if eB != nil {
		return fmt.Errorf("waiter B for seqno %d got %q although the best connection reported head %d %v after B started to wait (timeout %v); before that %d earlier waiters had left (%s) and waiter C had subscribed", head+10, eB, head+10, published, long, early, []string{"timeout", "context cancelled"}[leave])
	}
	if err := poolCall("SetMasterHead on the best connection", func() { best.SetMasterHead(pool.VerifHead(head + 20)) }); err != nil {
		return err
	}
	var eC error
	done2 := make(chan struct{})
	go func() { eC = <-resC; close(done2) }()
	if h := await(done2, callLimit, nil); h != nil {
		return blockedError("waiter C", h)
	}
	if eC != nil {
		return fmt.Errorf("waiter C for seqno %d got %q although the best connection reported head %d well inside its %v timeout", head+20, eC, head+20, long)
	}
	return awaitCount(0, "all waiters leaving")
}

// awaitCount2 waits until the count is `want`; `alt` (the early waiters alone) is what it reads before B is in.
func awaitCount2(count func() (int, error), want, alt int) error {
	t0 := time.Now()
	for {
		n, err := count()
		if err != nil {
			return err
		}
		if n == want {
			return nil
		}
		if n != alt || time.Since(t0) > 20*time.Second {
			return fmt.Errorf("%w: waiter B subscribing: %d registered waiters, expected %d", errOrderNotSeen, n, want)
		}
		time.Sleep(200 * time.Microsecond)
	}
}

func TestComeAndGo(t *testing.T) {
	core.RunEnum(t, comeAndGo, "how the early waiters leave x 1..3 early waiters x a late short-lived waiter", func(yield func(...uint64) bool) {
		for rep := 0; rep < 2; rep++ {
			for leave := uint64(0); leave < 2; leave++ {
				for early := uint64(0); early < 3; early++ {
					for late := uint64(0); late < 2; late++ {
						if !yield(leave, early, late) {
							return
						}
					}
				}
			}
		}
	})
}
