package c13

import (
	"context"
	"fmt"
	"runtime"
	"sync"
	"sync/atomic"
	"testing"
	"time"

	"github.com/tonkeeper/tongo/liteapi/pool"

	"verifharness/internal/core"
)

// c13/concurrent-heads: the head of one connection under CONCURRENT reports. The heads of a connection are
// reported from several goroutines at once: connection.Run reports from its own goroutine while every
// caller of MasterchainInfoClient.LiteServerGetMasterchainInfo{,Ext} (liteapi.Client.GetMasterchainInfo)
// reports the answer it got on the best connection from the caller's goroutine. The property's state
// "connection.masterHead: latest head per connection, monotone in seqno" and its sentence "a caller waiting
// for a masterchain seqno returns success if the best connection reports a head at or beyond that seqno"
// therefore hold for every interleaving of such reports, not only for one reporter.
//
// A case: pool of 1..3 real connections (hook), Run active, GOMAXPROCS 2/4/8/16. 2..16 reporter goroutines
// stay for the whole case; in each of 150..1000 rounds they are handed 1..3 heads each out of a fresh block
// of consecutive seqnos (dealt in turns upwards, in turns downwards, shuffled, or as one contiguous stretch
// per reporter; optionally each reporter also repeats a head of the previous round and a head that another
// reporter has), are released together (arrival barrier) and call SetMasterHead on ONE connection (the best
// one, or another one that is made the best connection after the last round). What must hold whatever the
// interleaving, none of it depending on the clock:
//   - a reporter that reads MasterHead() after its SetMasterHead(s) has returned sees a head >= s, and never
//     one beyond the newest head handed to SetMasterHead so far;
//   - an observer goroutine that reads the head in a loop (MasterHead(), or BestMasterchainClient when the
//     connection is the best one) never sees it go back;
//   - when all reporters of a round are back the head is the newest head of the round, exactly, through
//     MasterHead() and (best connection) through BestMasterchainClient, and WaitMasterchainSeqno for that
//     head returns success (it has been reported);
//   - in every n-th round a waiter for the round's newest head is registered before the reporters are
//     released: it returns success.
// Real time enters only through the 4 s timeout of the waiting calls: an error of such a call counts only
// if a 1 ms sleeper never overslept by more than 300 ms during the case (and, registered waiter, the
// reporters were back 2 s before its deadline); otherwise the case is inconclusive. A pool that does not
// return is reported through the bounded waits of bounded_test.go. Afterwards a sentinel head must reach a
// fresh waiter.

type headReport struct {
	mu    sync.Mutex
	first string
}

func (h *headReport) set(format string, args ...any) {
	h.mu.Lock()
	if h.first == "" {
		h.first = fmt.Sprintf(format, args...)
	}
	h.mu.Unlock()
}

func (h *headReport) get() string {
	h.mu.Lock()
	defer h.mu.Unlock()
	return h.first
}

// atomicMax raises a to v.
func atomicMax(a *atomic.Uint32, v uint32) {
	for {
		old := a.Load()
		if v <= old || a.CompareAndSwap(old, v) {
			return
		}
	}
}

var concurrentHeads = &core.Check{Name: "c13/concurrent-heads", Quick: 8, Thorough: 800, Hang: caseHang, Fn: func(c *core.Ctx) error {
	caseStart()
	gmp := c.OneOf("gomaxprocs", 16, 4, 2, 8)
	nconn := 1 + c.Choose("connections-1", 3)
	bestPos := c.Choose("best", 3) % nconn
	onBest := nconn == 1 || c.Weighted("reported connection", 3, 1) == 0
	workers := c.OneOf("reporters", 8, 2, 3, 4, 16)
	rounds := c.OneOf("rounds", 400, 150, 1000)
	perWorker := c.Range("heads per reporter and round", 1, 3)
	deal := c.Choose("deal", 4)
	extras := c.Bool("stale and repeated heads")
	observer := c.Weighted("observer", 2, 2, 1) // 0 MasterHead loop, 1 BestMasterchainClient loop (best connection only), 2 none
	preEvery := c.OneOf("registered waiter every", 7, 0, 1, 50)
	dealSeed := c.U64("deal seed")
	if !onBest {
		preEvery = 0
		if observer == 1 {
			observer = 0
		}
	}
	tgtPos := bestPos
	if !onBest {
		tgtPos = (bestPos + 1) % nconn
	}
	dealName := [...]string{"in turns, upwards", "in turns, downwards (reporter 0 has the newest)", "shuffled", "one contiguous stretch per reporter"}[deal]
	obsName := [...]string{"a goroutine reading MasterHead() in a loop", "a goroutine calling BestMasterchainClient in a loop", "none"}[observer]
	c.Note("gomaxprocs", gmp)
	c.Note("pool", fmt.Sprintf("%d connections, best conn%d, Run active; the heads are reported to conn%d", nconn, bestPos, tgtPos))
	c.Note("reports", fmt.Sprintf("%d rounds; in each, %d goroutines released together call SetMasterHead with %d head(s) each out of a fresh block of %d consecutive seqnos, dealt %s; stale/repeated heads in between: %v",
		rounds, workers, perWorker, workers*perWorker, dealName, extras))
	c.Note("observer", obsName)
	c.Note("registered waiter", fmt.Sprintf("every %d rounds (0 = never)", preEvery))
	c.Class(fmt.Sprintf("gomaxprocs %d", gmp))
	c.Class(fmt.Sprintf("%d reporters", workers))
	if onBest {
		c.Class("heads reported to the best connection")
	} else {
		c.Class("heads reported to another connection that becomes the best one afterwards")
	}

	old := runtime.GOMAXPROCS(gmp)
	defer runtime.GOMAXPROCS(old)
	blocked := func(err error) error {
		c.Class("pool blocked")
		return err
	}

	p := pool.VerifNewPool(pool.FirstWorkingConnection, nil, nil)
	p.VerifSetUpdateInterval(time.Hour)
	conns := make([]pool.VerifConn, nconn)
	for i := range conns {
		conns[i] = p.VerifNewConnection(i)
	}
	if err := setBest(p, conns[bestPos], fmt.Sprintf("conn%d (fresh pool)", bestPos)); err != nil {
		return blocked(err)
	}
	ctx, stop := context.WithCancel(context.Background())
	defer stop()
	go p.Run(ctx)
	const base = uint32(baseSeqno)
	for i, cn := range conns {
		if err := setHead(cn, fmt.Sprintf("conn%d (fresh pool)", i), base); err != nil {
			return blocked(err)
		}
	}
	tgt := conns[tgtPos]
	tgtName := fmt.Sprintf("conn%d", tgtPos)
	t0 := time.Now()
	since := func() time.Duration { return time.Since(t0) }
	probe := startLagProbe()
	defer probe.finish()
	lagOK := func() bool { return time.Duration(probe.max.Load()) <= pointLag }

	var (
		viol      headReport
		handed    atomic.Uint32 // the newest head handed to SetMasterHead so far (raised before the call)
		overtaken atomic.Int64  // reports of a round's fresh heads that found a newer head than their own when they were back
		overlaps  atomic.Int64  // SetMasterHead calls that began while another goroutine was inside SetMasterHead
		obsReads  atomic.Int64
		obsSteps  atomic.Int64 // reads that saw a newer head than the read before
		quit      atomic.Bool
	)
	handed.Store(base)

	// the observer
	obsDone := make(chan struct{})
	if observer == 2 {
		close(obsDone)
	} else {
		go func() {
			defer close(obsDone)
			last, lastAt := base, time.Duration(0)
			for !quit.Load() {
				var now uint32
				if observer == 0 {
					now = tgt.MasterHead().Seqno
				} else {
					_, h, err := p.BestMasterchainClient(ctx)
					if err != nil {
						if !quit.Load() {
							viol.set("BestMasterchainClient returned %s at %v although the best connection %s has a head (%d or newer)", errText(err), since(), tgtName, last)
						}
						return
					}
					now = h.Seqno
				}
				at := since()
				if now < last {
					viol.set("the head of %s went back: %s read %d at %v and then %d at %v (one goroutine, one read after the other)",
						tgtName, [...]string{"MasterHead()", "BestMasterchainClient"}[observer], last, lastAt, now, at)
					return
				}
				if now > last {
					obsSteps.Add(1)
				}
				last, lastAt = now, at
				obsReads.Add(1)
				runtime.Gosched()
			}
		}()
	}

	// the reporters: they stay for the whole case, one start signal per round
	type roundPlan struct {
		seqs    [][]uint32
		lo      uint32 // the oldest fresh head of the round
		arrived atomic.Int32
		left    atomic.Int32
		done    chan struct{}
	}
	starts := make([]chan *roundPlan, workers)
	for w := range starts {
		starts[w] = make(chan *roundPlan, 1)
	}
	var inCall atomic.Int32
	for w := 0; w < workers; w++ {
		go func(w int) {
			for rp := range starts[w] {
				// arrival barrier: nobody reports before everybody is running (bounded, no verdict depends on it)
				rp.arrived.Add(1)
				for i := 0; i < 4000 && int(rp.arrived.Load()) < workers; i++ {
					runtime.Gosched()
				}
				for _, s := range rp.seqs[w] {
					atomicMax(&handed, s)
					if inCall.Add(1) > 1 {
						overlaps.Add(1)
					}
					tgt.SetMasterHead(pool.VerifHead(s))
					inCall.Add(-1)
					h := tgt.MasterHead().Seqno
					top := handed.Load()
					switch {
					case h < s:
						viol.set("SetMasterHead(%d) on %s returned at %v and MasterHead() read by the same goroutine right afterwards is %d: the head went back below a head that had been reported (%d goroutines were reporting different heads of this connection at the same time)",
							s, tgtName, since(), h, workers)
					case h > top:
						viol.set("MasterHead() of %s is %d at %v although the newest head handed to SetMasterHead so far is %d", tgtName, h, since(), top)
					case h > s && s >= rp.lo:
						overtaken.Add(1)
					}
				}
				if rp.left.Add(-1) == 0 {
					close(rp.done)
				}
			}
		}(w)
	}
	defer func() {
		quit.Store(true)
		for _, ch := range starts {
			close(ch)
		}
	}()

	rng := core.NewSplitMix(dealSeed)
	next := base + 1
	prevBlock := []uint32{base}
	inconclusive := 0
	served := 0
	fail := func(round int, format string, args ...any) error {
		return fmt.Errorf("round %d of %d (%d goroutines reporting heads of %s at the same time): %s", round+1, rounds, workers, tgtName, fmt.Sprintf(format, args...))
	}
	for r := 0; r < rounds; r++ {
		n := workers * perWorker
		block := make([]uint32, n)
		for i := range block {
			block[i] = next + uint32(i)
		}
		top := block[n-1]
		next = top + 1 + uint32(rng.Intn(3))
		rp := &roundPlan{seqs: make([][]uint32, workers), lo: block[0], done: make(chan struct{})}
		rp.left.Store(int32(workers))
		switch deal {
		case 0:
			for i, s := range block {
				rp.seqs[i%workers] = append(rp.seqs[i%workers], s)
			}
		case 1:
			for i, s := range block {
				w := workers - 1 - i%workers
				rp.seqs[w] = append(rp.seqs[w], s)
			}
		case 2:
			sh := append([]uint32(nil), block...)
			for i := n - 1; i > 0; i-- {
				j := rng.Intn(i + 1)
				sh[i], sh[j] = sh[j], sh[i]
			}
			for i, s := range sh {
				rp.seqs[i%workers] = append(rp.seqs[i%workers], s)
			}
		default:
			for i, s := range block {
				rp.seqs[i/perWorker] = append(rp.seqs[i/perWorker], s)
			}
		}
		if extras {
			for w := range rp.seqs {
				stale := prevBlock[rng.Intn(len(prevBlock))]
				twin := block[rng.Intn(n)]
				switch rng.Intn(3) {
				case 0:
					rp.seqs[w] = append([]uint32{stale}, rp.seqs[w]...)
				case 1:
					rp.seqs[w] = append(rp.seqs[w], twin, stale)
				default:
					rp.seqs[w] = append([]uint32{twin}, rp.seqs[w]...)
				}
			}
		}
		prevBlock = block

		// a waiter for the round's newest head, registered before anybody reports
		var pre chan error
		var preT0 time.Duration
		if preEvery > 0 && r%preEvery == preEvery-1 {
			res := make(chan error, 1)
			pre, preT0 = res, since()
			go func() { res <- p.WaitMasterchainSeqno(ctx, top, pointTimeout) }()
			seen, err := waitersSeen(p, 1, func() bool { return len(pre) > 0 })
			if err != nil {
				return blocked(err)
			}
			switch {
			case len(pre) > 0:
				perr := <-pre
				backAt := since()
				if perr == nil || backAt-preT0 < pointTimeout {
					return fail(r, "WaitMasterchainSeqno(%d, %v) called at %v returned %s at %v, before any head above %d was handed to the best connection", top, pointTimeout, preT0, errText(perr), backAt, handed.Load())
				}
				pre, inconclusive = nil, inconclusive+1 // its timeout elapsed before anything was reported: the machine stood still
			case seen < 1:
				pre, inconclusive = nil, inconclusive+1 // not registered within 2 s: the machine is busy; the waiter is left to itself
			}
		}

		for w := range starts {
			starts[w] <- rp
		}
		if h := await(rp.done, callLimit, nil); h != nil {
			return blocked(blockedError(fmt.Sprintf("round %d: the SetMasterHead calls of %d goroutines on %s (%d inside SetMasterHead)", r+1, workers, tgtName, inCall.Load()), h))
		}
		backT := since()
		if v := viol.get(); v != "" {
			c.Class("head went back")
			return fail(r, "%s", v)
		}

		// all reports of the round are back
		var got, bmc uint32
		var bmcErr, waitErr error
		var waitT0, waitT1 time.Duration
		if err := poolCall("reading the head of "+tgtName+" after a round", func() {
			got = tgt.MasterHead().Seqno
			if !onBest || got != top {
				return
			}
			_, hd, e := p.BestMasterchainClient(ctx)
			bmc, bmcErr = hd.Seqno, e
			waitT0 = since()
			waitErr = p.WaitMasterchainSeqno(ctx, top, pointTimeout)
			waitT1 = since()
		}); err != nil {
			return blocked(err)
		}
		if got != top {
			c.Class("head went back")
			extra := ""
			if onBest && got < top {
				var werr error
				if err := poolCall("WaitMasterchainSeqno for a head that was reported", func() { werr = p.WaitMasterchainSeqno(ctx, top, 300*ms) }); err == nil {
					extra = fmt.Sprintf("; WaitMasterchainSeqno(%d, 300ms) on the pool then returned %s", top, errText(werr))
				}
			}
			return fail(r, "the heads %d..%d were all handed to SetMasterHead and every call has returned (at %v), the newest is %d, but MasterHead() is %d%s", block[0], top, backT, top, got, extra)
		}
		if onBest {
			if bmcErr != nil || bmc != top {
				return fail(r, "every SetMasterHead call has returned and MasterHead() of the best connection is %d, but BestMasterchainClient returned head %d, %s", top, bmc, errText(bmcErr))
			}
			if waitErr != nil {
				if !lagOK() {
					inconclusive++
				} else {
					return fail(r, "WaitMasterchainSeqno(%d, %v) called at %v returned %s at %v although the best connection had reported head %d before the call (every SetMasterHead call was back at %v)",
						top, pointTimeout, waitT0, errText(waitErr), waitT1, top, backT)
				}
			}
		}
		if pre != nil {
			preDone := make(chan struct{})
			var perr error
			go func() { perr = <-pre; close(preDone) }()
			if h := await(preDone, pointTimeout+callLimit, nil); h != nil {
				return blocked(blockedError(fmt.Sprintf("round %d: WaitMasterchainSeqno(%d, %v), registered before the reports,", r+1, top, pointTimeout), h))
			}
			if perr != nil {
				if !lagOK() || backT > preT0+pointTimeout-pointMargin {
					inconclusive++
				} else {
					c.Class("registered waiter not served")
					return fail(r, "WaitMasterchainSeqno(%d, %v) was called at %v and seen registered; then the heads %d..%d were reported to the best connection by %d goroutines at once, every SetMasterHead call was back at %v; the waiter returned %s",
						top, pointTimeout, preT0, block[0], top, workers, backT, errText(perr))
				}
			} else {
				served++
			}
		}
	}
	quit.Store(true)
	if h := await(obsDone, callLimit, nil); h != nil {
		return blocked(blockedError("the observer ("+obsName+")", h))
	}
	if v := viol.get(); v != "" {
		c.Class("head went back")
		return fmt.Errorf("after %d rounds: %s", rounds, v)
	}
	final := prevBlock[len(prevBlock)-1] // the newest head of the last round

	// a connection that was not the best one while it was reported to becomes the best one: its head is there
	if !onBest {
		if err := setBest(p, tgt, tgtName); err != nil {
			return blocked(err)
		}
		var bmc uint32
		var bmcErr, waitErr error
		if err := poolCall("asking the pool for the head of "+tgtName+", now the best connection", func() {
			_, hd, e := p.BestMasterchainClient(ctx)
			bmc, bmcErr = hd.Seqno, e
			waitErr = p.WaitMasterchainSeqno(ctx, final, pointTimeout)
		}); err != nil {
			return blocked(err)
		}
		if bmcErr != nil || bmc != final {
			return fmt.Errorf("%s was handed the heads up to %d by %d goroutines at once, all calls returned; made the best connection afterwards, BestMasterchainClient returned head %d, %s", tgtName, final, workers, bmc, errText(bmcErr))
		}
		if waitErr != nil {
			if !lagOK() {
				inconclusive++
			} else {
				return fmt.Errorf("%s was handed the heads up to %d by %d goroutines at once, all calls returned; made the best connection afterwards, WaitMasterchainSeqno(%d, %v) returned %s", tgtName, final, workers, final, pointTimeout, errText(waitErr))
			}
		}
	}
	if ok, why := sentinelDelivered(p, tgt, sentinel, 20*time.Second); !ok {
		c.Class("pool blocked")
		_, d := verifiablyStuck(func() int64 { return 0 })
		return fmt.Errorf("after %d rounds of concurrent reports the pool does not deliver a fresh head to a fresh waiter within 20 s: %s\ngoroutines inside the pool package:\n%s", rounds, why, d.text)
	}

	c.Note("seen", fmt.Sprintf("%d SetMasterHead calls began while another one was running; %d reports found a newer head than their own when they were back; the observer made %d reads and saw the head rise %d times; %d registered waiters served; %d verdicts not drawn (scheduler lag)",
		overlaps.Load(), overtaken.Load(), obsReads.Load(), obsSteps.Load(), served, inconclusive))
	if inconclusive > 0 {
		c.Class("inconclusive: scheduler lag")
	}
	if overtaken.Load() > 0 {
		c.Class("reports overtook one another")
	}
	if overlaps.Load() > 0 {
		c.NonTrivial(gmp, nconn, bestPos, onBest, workers, rounds, perWorker, deal, extras, observer, preEvery, dealSeed)
	}
	return nil
}}

func TestConcurrentHeads(t *testing.T) { core.Run(t, concurrentHeads) }
