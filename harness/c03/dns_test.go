package c03

import (
	"bytes"
	"fmt"
	"testing"

	"github.com/tonkeeper/tongo/boc"
	"github.com/tonkeeper/tongo/tlb"

	"verifharness/internal/core"
	"verifharness/internal/ref"
	"verifharness/internal/tlbgen"
	"verifharness/internal/tlbref"
)

// c03/dns: DNS records (tlb.DNSRecord) are decode-only in the library. Records written by the reference writer
// from the schema quoted at the type must decode to the record they represent:
//
//	dns_text#1eda _:Text / dns_next_resolver#ba93 resolver:MsgAddressInt /
//	dns_adnl_address#ad01 adnl_addr:bits256 flags:(## 8) {flags <= 1} proto_list:flags.0?ProtoList /
//	dns_smc_address#9fd3 smc_addr:MsgAddressInt flags:(## 8) {flags <= 1} cap_list:flags.0?SmcCapList /
//	dns_storage_address#7473 bag_id:bits256
//	text$_ chunks:(## 8) rest:(TextChunks chunks); text_chunk$_ len:(## 8) data:(bits (len * 8)) next:(TextChunkRef n);
//	chunk_ref$_ ref:^(TextChunks (n + 1)); proto_list_next$1 head:Protocol tail:ProtoList; proto_http#4854;
//	cap_list_next$1 head:SmcCapability tail:SmcCapList; cap_method_seqno#5371 cap_method_pubkey#71f4 cap_is_wallet#2177
//	cap_name#ff name:Text

// writeText appends a Text whose first chunk lies in b's cell and every further chunk in a cell of its own.
func writeText(b *tlbref.B, chunks [][]byte) {
	b.U(uint64(len(chunks)), 8)
	var tail *ref.RCell
	for i := len(chunks) - 1; i >= 1; i-- {
		var nb tlbref.B
		nb.U(uint64(len(chunks[i])), 8).Bytes(chunks[i])
		if tail != nil {
			nb.Ref(tail)
		}
		tail = nb.Cell()
	}
	if len(chunks) > 0 {
		b.U(uint64(len(chunks[0])), 8).Bytes(chunks[0])
		if tail != nil {
			b.Ref(tail)
		}
	}
}

func drawChunks(c *core.Ctx, label string, maxFirst, maxChunks int) ([][]byte, string) {
	n := c.Range(label+".chunks", 0, maxChunks)
	var out [][]byte
	var text []byte
	for i := 0; i < n; i++ {
		max := 126
		if i == 0 {
			max = maxFirst
		}
		ch := c.Content(label+".chunk", c.Range(label+".len", 0, max))
		out = append(out, ch)
		text = append(text, ch...)
	}
	return out, string(text)
}

func drawIntAddr(c *core.Ctx, label string) tlbref.Addr {
	a := tlbref.Addr{Kind: 2}
	if c.Intn(label+".var", 6) == 0 {
		a.Kind = 3
		a.Ext = ref.Bits(c.Bits(label+".varbits", c.OneOf(label+".vlen", 1, 64, 256, 300)))
		a.WC = int32(c.U64(label + ".wc32"))
	} else {
		a.WC = int32(int8(c.U64(label + ".wc")))
		copy(a.Hash[:], c.Content(label+".hash", 32))
	}
	if c.Intn(label+".any", 4) == 0 {
		d := c.Range(label+".depth", 1, 30)
		a.Anycast = &tlbref.Anycast{Depth: d, Prefix: c.U64(label+".pfx") & (1<<uint(d) - 1)}
	}
	return a
}

// sameAddr compares a decoded address with the reference one through its encoding.
func sameAddr(got tlb.MsgAddress, want tlbref.Addr) error {
	cell := boc.NewCell()
	if err := tlb.Marshal(cell, got); err != nil {
		return fmt.Errorf("decoded address does not encode: %v", err)
	}
	var wb tlbref.B
	wb.Addr(want)
	bs := cell.RawBitString()
	bs.ResetCounter()
	gb := make(ref.Bits, 0, bs.BitsAvailableForRead())
	for bs.BitsAvailableForRead() > 0 {
		v, _ := bs.ReadBit()
		gb = append(gb, v)
	}
	if !gb.Equal(wb.Bits) {
		return fmt.Errorf("address decodes to %s, the record holds %s", gb.FiftHex(), wb.Bits.FiftHex())
	}
	return nil
}

var dnsCheck = &core.Check{Name: "c03/dns", Quick: 1500, Thorough: 150000, Fn: func(c *core.Ctx) error {
	var b tlbref.B
	var verify func(r tlb.DNSRecord) error
	kind := c.Choose("kind", 6)
	switch kind {
	case 0:
		chunks, text := drawChunks(c, "text", 123, 5)
		b.U(0x1eda, 16)
		writeText(&b, chunks)
		c.Note("record", fmt.Sprintf("dns_text, %d chunks, %d bytes", len(chunks), len(text)))
		if len(chunks) >= 2 {
			c.Class("text with chunks behind references")
		}
		verify = func(r tlb.DNSRecord) error {
			if r.SumType != "DNSText" || string(r.DNSText) != text {
				return fmt.Errorf("decodes as %s %q, the record is dns_text %q", r.SumType, string(r.DNSText), text)
			}
			return nil
		}
	case 1:
		a := drawIntAddr(c, "resolver")
		b.U(0xba93, 16).Addr(a)
		c.Note("record", "dns_next_resolver")
		verify = func(r tlb.DNSRecord) error {
			if r.SumType != "DNSNextResolver" {
				return fmt.Errorf("decodes as %s, the record is dns_next_resolver", r.SumType)
			}
			return sameAddr(r.DNSNextResolver, a)
		}
	case 2:
		addr := c.Content("adnl", 32)
		flags := c.Intn("flags", 2)
		b.U(0xad01, 16).Bytes(addr).U(uint64(flags), 8)
		var protos []string
		if flags == 1 {
			for i := c.Range("protos", 0, 4); i > 0; i-- {
				b.Bit(true).U(0x4854, 16)
				protos = append(protos, "http")
			}
			b.Bit(false)
		}
		c.Note("record", fmt.Sprintf("dns_adnl_address flags %d, %d protocols", flags, len(protos)))
		verify = func(r tlb.DNSRecord) error {
			if r.SumType != "DNSAdnlAddress" || !bytes.Equal(r.DNSAdnlAddress.Address[:], addr) {
				return fmt.Errorf("decodes as %s %x, the record is dns_adnl_address %x", r.SumType, r.DNSAdnlAddress.Address, addr)
			}
			if len(r.DNSAdnlAddress.ProtoList) != len(protos) {
				return fmt.Errorf("dns_adnl_address: protocol list %v, the record holds %v", r.DNSAdnlAddress.ProtoList, protos)
			}
			for i := range protos {
				if r.DNSAdnlAddress.ProtoList[i] != protos[i] {
					return fmt.Errorf("dns_adnl_address: protocol list %v, the record holds %v", r.DNSAdnlAddress.ProtoList, protos)
				}
			}
			return nil
		}
	case 3:
		a := drawIntAddr(c, "smc")
		flags := c.Intn("flags", 2)
		b.U(0x9fd3, 16).Addr(a).U(uint64(flags), 8)
		var names, ifaces []string
		if flags == 1 {
			for i := c.Range("caps", 0, 5); i > 0; i-- {
				b.Bit(true)
				switch c.Choose("cap", 4) {
				case 0:
					b.U(0x5371, 16)
					ifaces = append(ifaces, "seqno")
				case 1:
					b.U(0x71f4, 16)
					ifaces = append(ifaces, "pubkey")
				case 2:
					b.U(0x2177, 16)
					ifaces = append(ifaces, "wallet")
				default:
					if len(b.Refs) >= 3 || len(b.Bits) > 600 {
						b.U(0x2177, 16)
						ifaces = append(ifaces, "wallet")
						break
					}
					chunks, text := drawChunks(c, "capname", 12, 2)
					b.U(0xff, 8)
					writeText(&b, chunks)
					names = append(names, text)
				}
			}
			b.Bit(false)
			if len(names)+len(ifaces) > 0 {
				c.Class("smc address with capabilities")
			}
		}
		c.Note("record", fmt.Sprintf("dns_smc_address flags %d, interfaces %v, %d names", flags, ifaces, len(names)))
		verify = func(r tlb.DNSRecord) error {
			if r.SumType != "DNSSmcAddress" {
				return fmt.Errorf("decodes as %s, the record is dns_smc_address", r.SumType)
			}
			if err := sameAddr(r.DNSSmcAddress.Address, a); err != nil {
				return err
			}
			got := r.DNSSmcAddress.SmcCapability
			if fmt.Sprint(got.Interfaces) != fmt.Sprint(ifaces) && !(len(got.Interfaces) == 0 && len(ifaces) == 0) {
				return fmt.Errorf("dns_smc_address: interfaces %v, the record holds %v", got.Interfaces, ifaces)
			}
			if fmt.Sprintf("%q", got.Name) != fmt.Sprintf("%q", names) && !(len(got.Name) == 0 && len(names) == 0) {
				return fmt.Errorf("dns_smc_address: names %q, the record holds %q", got.Name, names)
			}
			return nil
		}
	case 4:
		bag := c.Content("bag", 32)
		b.U(0x7473, 16).Bytes(bag)
		c.Note("record", "dns_storage_address")
		verify = func(r tlb.DNSRecord) error {
			if r.SumType != "DNSStorageAddress" || !bytes.Equal(r.DNSStorageAddress[:], bag) {
				return fmt.Errorf("decodes as %s %x, the record is dns_storage_address %x", r.SumType, r.DNSStorageAddress, bag)
			}
			return nil
		}
	default:
		tag := uint64(c.U64("tag") & 0xffff)
		switch tag {
		case 0x1eda, 0xba93, 0xad01, 0x9fd3, 0x7473:
			tag ^= 0x0100
		}
		b.U(tag, 16).Raw(ref.Bits(c.Bits("rest", c.Range("restlen", 0, 200))))
		c.Note("record", fmt.Sprintf("non-standard record, tag %#04x", tag))
		want := b.Cell().ReprHash()
		verify = func(r tlb.DNSRecord) error {
			if r.SumType != "NotStandard" || r.NotStandard == nil {
				return fmt.Errorf("decodes as %s, the record has the unknown tag %#04x", r.SumType, tag)
			}
			if got := tlbgen.CellKey(r.NotStandard); got != fmt.Sprintf("%x", want) {
				return fmt.Errorf("non-standard record: kept cell %s, the record is cell %x", got, want)
			}
			return nil
		}
	}
	if !b.Fits() {
		c.Class("does not fit into a cell")
		return nil
	}
	rc := b.Cell()
	c.NonTrivial(rc.ReprHash())
	c.Class(fmt.Sprintf("record kind %d", kind))
	parse := func() (*boc.Cell, error) {
		cells, err := boc.DeserializeBoc(ref.SerializeBOC([]*ref.RCell{rc}, ref.BocVariant{}))
		if err != nil {
			return nil, fmt.Errorf("HARNESS: %v", err)
		}
		return cells[0], nil
	}
	for round, dec := range []*tlb.Decoder{nil, tlb.NewDecoder()} {
		cell, err := parse()
		if err != nil {
			return err
		}
		var r tlb.DNSRecord
		if dec == nil {
			err = tlb.Unmarshal(cell, &r)
		} else {
			err = dec.Unmarshal(cell, &r)
		}
		if err != nil {
			return fmt.Errorf("a valid DNS record (%s) does not decode (way %d): %v", rc.Bits().FiftHex(), round, err)
		}
		if err := verify(r); err != nil {
			return fmt.Errorf("%v (cell %s)", err, rc.Bits().FiftHex())
		}
	}
	// inside a record set: _ (HashmapE 256 ^DNSRecord), as DNSRecordSet reads it
	if c.Intn("set", 3) == 0 {
		k1, k2 := ref.BitsFromBytes(c.Content("cat1", 32), 256), ref.BitsFromBytes(c.Content("cat2", 32), 256)
		entries := []ref.DictEntry{{Key: k1, Value: ref.DictValue{Refs: []*ref.RCell{rc}}}}
		if !k1.Equal(k2) {
			var ob tlbref.B
			ob.U(0x7473, 16).Bytes(c.Content("otherbag", 32))
			entries = append(entries, ref.DictEntry{Key: k2, Value: ref.DictValue{Refs: []*ref.RCell{ob.Cell()}}})
		}
		root, err := ref.EncodeHashmap(entries, 256, nil)
		if err != nil {
			return fmt.Errorf("HARNESS: %v", err)
		}
		cells, err := boc.DeserializeBoc(ref.SerializeBOC([]*ref.RCell{root}, ref.BocVariant{}))
		if err != nil {
			return fmt.Errorf("HARNESS: %v", err)
		}
		var set tlb.DNSRecordSet
		if err := tlb.Unmarshal(cells[0], &set); err != nil {
			return fmt.Errorf("a record set with %d valid records does not decode: %v", len(entries), err)
		}
		found := false
		for _, it := range set.Records.Items() {
			if ref.BitsFromBytes(it.Key[:], 256).Equal(k1) {
				found = true
				if err := verify(it.Value.Value); err != nil {
					return fmt.Errorf("inside a record set: %v", err)
				}
			}
		}
		if !found || len(set.Records.Keys()) != len(entries) {
			return fmt.Errorf("record set decodes to %d records (category found: %v), it holds %d", len(set.Records.Keys()), found, len(entries))
		}
		c.Class("inside a record set")
	}
	return nil
}}

func TestDNS(t *testing.T) { core.Run(t, dnsCheck) }
