// C03 — TL-B values survive encode/decode for every type the library ships (R7 generator + comparator).
package c03

import (
	"fmt"
	"os"
	"reflect"
	"sort"
	"strings"
	"testing"

	"github.com/tonkeeper/tongo/boc"
	"github.com/tonkeeper/tongo/tlb"

	"verifharness/internal/core"
	"verifharness/internal/tlbgen"
	"verifharness/internal/typereg"
)

func TestMain(m *testing.M) { core.Main(m, "C03") }

var types = typereg.All()

var vmStackT = reflect.TypeOf(tlb.VmStack{})

func typeName(t reflect.Type) string {
	s := t.String()
	s = strings.ReplaceAll(s, "github.com/tonkeeper/tongo/", "")
	if len(s) > 90 {
		s = s[:90] + "…"
	}
	return s
}

func notImplemented(err error) bool {
	m := err.Error()
	return strings.Contains(m, "not implemented") || strings.Contains(m, "not supported")
}

func errBucket(err error) string {
	m := err.Error()
	switch {
	case notImplemented(err):
		return "not implemented"
	case strings.Contains(m, "overflow") || strings.Contains(m, "too many refs"):
		return "capacity"
	}
	if len(m) > 60 {
		m = m[:60]
	}
	return m
}

func reverseStack(s tlb.VmStack) tlb.VmStack {
	out := make(tlb.VmStack, len(s))
	for i := range s {
		out[len(s)-1-i] = s[i]
	}
	return out
}

// roundTripDecoders is the oracle for one value of one type: tlb.Unmarshal first (a decoder the library
// declares not implemented ends the case), then every decoder configuration of extra (decoders_test.go) on a
// fresh encoding of the same value.
func roundTripDecoders(c *core.Ctx, t reflect.Type, v reflect.Value, extra []int) error {
	name := typeName(t)
	cell := boc.NewCell()
	var encErr error
	if perr := core.Protect(func() error { encErr = tlb.Marshal(cell, v.Interface()); return nil }); perr != nil {
		return fmt.Errorf("%s: tlb.Marshal panicked on a value of the type's domain: %v", name, perr)
	}
	if encErr != nil {
		c.Class("encode error: " + errBucket(encErr))
		if notImplemented(encErr) {
			encoderMissing(name)
		}
		return nil
	}
	c.Class("encoded")
	key1 := tlbgen.CellKey(cell)
	cell.ResetCounters()
	missing, err := decodeBack(t, v, cell, key1, decPlain)
	if err != nil {
		return err
	}
	if missing {
		c.Class("decoder not implemented")
		decoderMissing(name)
		return nil
	}
	for _, d := range extra {
		// a fresh encoding for every decoder: decoding moves the read cursors of the cells it walks
		again := boc.NewCell()
		var enc error
		if perr := core.Protect(func() error { enc = tlb.Marshal(again, v.Interface()); return nil }); perr != nil {
			return fmt.Errorf("%s: tlb.Marshal panicked when the same value was encoded once more: %v", name, perr)
		}
		if enc != nil {
			return fmt.Errorf("%s: tlb.Marshal fails (%v) when the same value is encoded once more\nvalue: %s", name, enc, render(v))
		}
		if k := tlbgen.CellKey(again); k != key1 {
			return fmt.Errorf("%s: encoding the same value once more gives cell %s, the first time %s\nvalue: %s", name, k, key1, render(v))
		}
		c.Class("decoded also by " + decoderNames[d])
		missing, err := decodeBack(t, v, again, key1, d)
		if err != nil {
			return err
		}
		if missing {
			return fmt.Errorf("%s: tlb.Unmarshal decodes the cell %s, %s says it is not implemented\nvalue: %s", name, key1, decoderNames[d], render(v))
		}
	}
	if !tlbgen.IsZero(v) && cell.BitSize()+cell.RefsSize() > 0 {
		c.NonTrivial(name, key1)
	}
	return nil
}

// decodeBack decodes cell (the encoding of v, hash key1) with decoder configuration d, compares the result
// with v and encodes it again. missing: the library says that the decoder is not implemented.
func decodeBack(t reflect.Type, v reflect.Value, cell *boc.Cell, key1 string, d int) (missing bool, err error) {
	name := typeName(t)
	how := decoderNames[d]
	out := reflect.New(t)
	dec := newDecoder(d)
	var decErr error
	if perr := core.Protect(func() error { decErr = runDecoder(dec, cell, out.Interface()); return nil }); perr != nil {
		return false, fmt.Errorf("%s: %s panicked on the encoding of a value (cell %s): %v", name, how, key1, perr)
	}
	if decErr != nil {
		if notImplemented(decErr) {
			return true, nil
		}
		return false, fmt.Errorf("%s: the cell produced by Marshal does not decode with %s: %v\nvalue: %s", name, how, decErr, render(v))
	}
	want := v
	if t == vmStackT {
		want = reflect.ValueOf(reverseStack(v.Interface().(tlb.VmStack)))
	}
	if err := tlbgen.Equal(want, out.Elem()); err != nil {
		return false, fmt.Errorf("%s: decode(encode(v)) != v with %s: %v\nvalue: %s", name, how, err, render(v))
	}
	// encode the decoded value again: same cell. A caller may have read from the bit strings and cells the
	// value holds in the meantime (read cursors are not part of the value), so they are moved first.
	disturbCursors(out.Elem(), 0)
	again := out.Elem()
	if t == vmStackT {
		again = reflect.ValueOf(reverseStack(out.Elem().Interface().(tlb.VmStack)))
	}
	cell2 := boc.NewCell()
	var enc2 error
	if perr := core.Protect(func() error { enc2 = tlb.Marshal(cell2, again.Interface()); return nil }); perr != nil {
		return false, fmt.Errorf("%s: tlb.Marshal panicked on a value decoded with %s: %v", name, how, perr)
	}
	if enc2 != nil {
		return false, fmt.Errorf("%s: the value decoded with %s does not encode again: %v", name, how, enc2)
	}
	if key2 := tlbgen.CellKey(cell2); key2 != key1 {
		return false, fmt.Errorf("%s: re-encoding the value decoded with %s gives hash %s, first encoding %s\nvalue: %s", name, how, key2, key1, render(v))
	}
	return false, nil
}

var (
	bitStringT = reflect.TypeOf(boc.BitString{})
	cellT      = reflect.TypeOf(boc.Cell{})
	anyT       = reflect.TypeOf(tlb.Any{})
)

// disturbCursors moves the read cursor of every addressable BitString / Cell / Any found inside v.
func disturbCursors(v reflect.Value, depth int) {
	if depth > 10 {
		return
	}
	switch v.Kind() {
	case reflect.Pointer:
		if !v.IsNil() {
			disturbCursors(v.Elem(), depth+1)
		}
	case reflect.Struct:
		if v.CanAddr() {
			switch v.Type() {
			case bitStringT:
				v.Addr().Interface().(*boc.BitString).ReadBit()
				return
			case cellT:
				// both cursors: the read position of a cell is not part of its value
				cl := v.Addr().Interface().(*boc.Cell)
				cl.ReadBit()
				cl.NextRef()
				return
			case anyT:
				cl := (*boc.Cell)(v.Addr().Interface().(*tlb.Any))
				cl.ReadBit()
				cl.NextRef()
				return
			}
		}
		if v.Type().ConvertibleTo(bitStringT) && v.Type() != bitStringT {
			// SnakeData and friends are bit strings consumed from their cursor by their own encoder: left alone
			return
		}
		if st := v.FieldByName("SumType"); st.IsValid() && st.Kind() == reflect.String && st.String() != "" {
			if f := v.FieldByName(st.String()); f.IsValid() {
				disturbCursors(f, depth+1)
				return
			}
		}
		for i := 0; i < v.NumField(); i++ {
			if v.Type().Field(i).IsExported() {
				disturbCursors(v.Field(i), depth+1)
			}
		}
	}
}

func render(v reflect.Value) string {
	s := fmt.Sprintf("%+v", v.Interface())
	if len(s) > 700 {
		s = s[:700] + "…"
	}
	return s
}

var (
	encMissing = map[string]int{}
	decMissing = map[string]int{}
	unsupp     = map[string]string{}
	perType    = map[string]int{}
)

func encoderMissing(n string) { encMissing[n]++ }
func decoderMissing(n string) { decMissing[n]++ }

var valueCheck = &core.Check{Name: "c03/roundtrip", Quick: 25000, Thorough: 1500000, Fn: func(c *core.Ctx) error {
	ti := c.Choose("type", len(types))
	t := types[ti]
	name := typeName(t)
	c.Note("type", name)
	if ok, why := tlbgen.IsTLBType(t); !ok {
		c.Class("not a TL-B type")
		unsupp[name] = "not a TL-B type: " + why
		return nil
	}
	g := &tlbgen.G{C: c}
	var v reflect.Value
	var gerr error
	if perr := core.Protect(func() error { v, gerr = g.Value(t, 4); return nil }); perr != nil {
		return fmt.Errorf("HARNESS: generator panicked for %s: %v", name, perr)
	}
	if gerr != nil {
		if u, ok := asUnsupported(gerr); ok {
			c.Class("not generated: outside the modelled TL-B domain")
			unsupp[name] = u
			return nil
		}
		return fmt.Errorf("HARNESS: generator error for %s: %v", name, gerr)
	}
	c.Note("value", render(v))
	for _, e := range g.Events {
		if strings.HasPrefix(e, "ctor ") {
			ctorSeen[e]++
		} else {
			c.Class(e)
		}
	}
	perType[name]++
	err := roundTripDecoders(c, t, v, drawDecoders(c, g.Events))
	if err != nil && os.Getenv("VERIF_SURVEY") != "" {
		m := err.Error()
		if i := strings.Index(m, "\nvalue:"); i > 0 {
			m = m[:i]
		}
		if len(m) > 300 {
			m = m[:300]
		}
		survey[name] = append(survey[name], m)
		return nil
	}
	return err
}}

var survey = map[string][]string{}

var ctorSeen = map[string]int{}

func asUnsupported(err error) (string, bool) {
	for e := err; e != nil; {
		if u, ok := e.(*tlbgen.Unsupported); ok {
			return u.Why, true
		}
		un, ok := e.(interface{ Unwrap() error })
		if !ok {
			break
		}
		e = un.Unwrap()
	}
	return "", false
}

func pseudoTape(seed uint64, first ...uint64) []uint64 {
	sm := core.NewSplitMix(seed)
	tape := append([]uint64{}, first...)
	for i := 0; i < 600; i++ {
		tape = append(tape, sm.Next())
	}
	return tape
}

// focused: the types whose codecs are hand-written get extra values (the uniform choice over ~840 types
// gives each of them only a handful)
var focusTypes = func() []reflect.Type {
	var out []reflect.Type
	for _, t := range types {
		if ok, _ := tlbgen.IsTLBType(t); !ok {
			continue
		}
		if tlbgen.Reviewed[strings.SplitN(t.Name(), "[", 2)[0]] || (tlbgen.HasEncoder(t) && !isGeneratedInt(t)) {
			out = append(out, t)
		}
	}
	return out
}()

func isGeneratedInt(t reflect.Type) bool {
	n := t.Name()
	for _, p := range []string{"Uint", "Int", "Bits", "VarUInteger"} {
		if strings.HasPrefix(n, p) && len(n) > len(p) && n[len(p)] >= '0' && n[len(p)] <= '9' {
			return true
		}
	}
	return false
}

var focusCheck = &core.Check{Name: "c03/handwritten", Quick: 12000, Thorough: 800000, Fn: func(c *core.Ctx) error {
	t := focusTypes[c.Choose("type", len(focusTypes))]
	name := typeName(t)
	c.Note("type", name)
	g := &tlbgen.G{C: c}
	v, gerr := g.Value(t, 4)
	if gerr != nil {
		if _, ok := asUnsupported(gerr); ok {
			c.Class("not generated: outside the modelled TL-B domain")
			return nil
		}
		return fmt.Errorf("HARNESS: generator error for %s: %v", name, gerr)
	}
	c.Note("value", render(v))
	c.Class("type " + name)
	for _, e := range g.Events {
		if !strings.HasPrefix(e, "ctor ") || strings.HasPrefix(e, "ctor MsgAddress") || strings.HasPrefix(e, "ctor VmStackValue") {
			c.Class(e)
		}
	}
	return roundTripDecoders(c, t, v, drawDecoders(c, g.Events))
}}

func TestProp(t *testing.T) {
	t.Run("roundtrip", func(t *testing.T) { core.Run(t, valueCheck) })
	t.Run("handwritten", func(t *testing.T) { core.Run(t, focusCheck) })
}

// TestEnum gives every type of the registry the same number of pseudo-random values (the rapid search
// above samples types uniformly but cannot promise to visit each).
func TestEnum(t *testing.T) {
	per := core.Scale(10, 300)
	core.RunEnum(t, valueCheck, fmt.Sprintf("every type of the scanned registry (%d types) x %d pseudo-random values each", len(types), per), func(yield func(...uint64) bool) {
		for ti := range types {
			for k := 0; k < per; k++ {
				if !yield(pseudoTape(core.Seed()*1000003+uint64(ti)*131+uint64(k), uint64(ti))...) {
					return
				}
			}
		}
	})
	report()
}

func keys(m map[string]int) []string {
	var out []string
	for k := range m {
		out = append(out, k)
	}
	sort.Strings(out)
	return out
}

func report() {
	if os.Getenv("VERIF_SURVEY") != "" {
		var ns []string
		for k := range survey {
			ns = append(ns, k)
		}
		sort.Strings(ns)
		for _, k := range ns {
			fmt.Printf("SURVEY %s: %d failures; first: %s\n", k, len(survey[k]), survey[k][0])
		}
	}
	core.Extra("c03/roundtrip", "types_in_registry", len(types))
	core.Extra("c03/roundtrip", "types_with_values", len(perType))
	core.Extra("c03/roundtrip", "types_encoder_not_implemented", keys(encMissing))
	core.Extra("c03/roundtrip", "types_decoder_not_implemented", keys(decMissing))
	var us []string
	for k, v := range unsupp {
		us = append(us, k+": "+v)
	}
	sort.Strings(us)
	core.Extra("c03/roundtrip", "types_not_generated", us)
	core.Extra("c03/roundtrip", "constructors_hit", len(ctorSeen))
}

func TestReplay(t *testing.T) {
	core.Replay(t, valueCheck, focusCheck, abiCheck, dnsCheck, concurrentCheck, rawCellCheck, sharedSlots)
}
