package c03

import (
	"fmt"
	"testing"

	"github.com/tonkeeper/tongo/boc"
	"github.com/tonkeeper/tongo/tlb"

	"verifharness/internal/core"
)

// c03/shared-slots: values whose parts share the four reference slots (and the 1023 bits) of one cell. A
// message with an inline state-init (0..3 references: code, data, library) and an inline body with 0..4
// references and 0..900 bits either does not fit - then Marshal returns an error - or it fits and decodes
// to the same init and the same body (bits, number of references, hash). "Encoding succeeded" is never
// followed by a value that lost something.
// tape: references of the init 0..3, references of the body 0..4, bits of the body, body in a reference or inline.
var sharedSlots = &core.Check{Name: "c03/shared-slots", Fn: func(c *core.Ctx) error {
	initRefs, bodyRefs := c.Intn("init refs", 4), c.Intn("body refs", 5)
	bodyBits := c.Intn("body bits", 1001)
	bodyInRef, initInRef := c.Intn("body in ref", 2) == 1, c.Intn("init in ref", 2) == 1
	c.Note("shape", fmt.Sprintf("init with %d refs (in a reference: %v), body with %d bits and %d refs (in a reference: %v)", initRefs, initInRef, bodyBits, bodyRefs, bodyInRef))
	c.NonTrivial(initRefs, bodyRefs, bodyBits, bodyInRef, initInRef)
	leaf := func(v uint64) *boc.Cell {
		x := boc.NewCell()
		_ = x.WriteUint(v, 32)
		return x
	}
	var m tlb.Message
	m.Info.SumType = "ExtInMsgInfo"
	m.Info.ExtInMsgInfo = &struct {
		Src       tlb.MsgAddress
		Dest      tlb.MsgAddress
		ImportFee tlb.VarUInteger16
	}{}
	m.Info.ExtInMsgInfo.Src.SumType = "AddrNone"
	m.Info.ExtInMsgInfo.Dest.SumType = "AddrStd"
	m.Info.ExtInMsgInfo.Dest.AddrStd.Address[5] = 7
	m.Init.Exists = true
	m.Init.Value.IsRight = initInRef
	if initRefs >= 1 {
		m.Init.Value.Value.Code.Exists = true
		m.Init.Value.Value.Code.Value.Value = *leaf(0xc0de)
	}
	if initRefs >= 2 {
		m.Init.Value.Value.Data.Exists = true
		m.Init.Value.Value.Data.Value.Value = *leaf(0xda7a)
	}
	if initRefs >= 3 {
		m.Init.Value.Value.Library = tlb.NewHashmapE([]tlb.Bits256{{1}}, []tlb.SimpleLib{{Public: true, Root: *leaf(0x11b)}})
	}
	body := boc.NewCell()
	for i := 0; i < bodyBits; i++ {
		_ = body.WriteBit(i%3 == 0)
	}
	for i := 0; i < bodyRefs; i++ {
		if err := body.AddRef(leaf(uint64(i + 1))); err != nil {
			return fmt.Errorf("HARNESS: %v", err)
		}
	}
	wantHash, _ := body.HashString()
	m.Body.IsRight = bodyInRef
	m.Body.Value = tlb.Any(*body)
	cell := boc.NewCell()
	var merr error
	if perr := core.Protect(func() error { merr = tlb.Marshal(cell, m); return nil }); perr != nil {
		return fmt.Errorf("Marshal panicked: %v", perr)
	}
	if merr != nil {
		c.Class("does not fit: refused with an error")
		return nil
	}
	c.Class("fits")
	var out tlb.Message
	if err := tlb.Unmarshal(cell, &out); err != nil {
		return fmt.Errorf("Marshal reported success, the cell does not decode: %v", err)
	}
	ob := boc.Cell(out.Body.Value)
	ob.ResetCounters()
	gotHash, _ := ob.HashString()
	if out.Body.IsRight != bodyInRef || ob.RefsSize() != bodyRefs || ob.BitSize() != bodyBits || gotHash != wantHash {
		return fmt.Errorf("Marshal reported success, but the decoded body has %d bits and %d references (hash %s); the body encoded had %d bits and %d references (hash %s)", ob.BitSize(), ob.RefsSize(), gotHash, bodyBits, bodyRefs, wantHash)
	}
	oi := out.Init.Value.Value
	if !out.Init.Exists || oi.Code.Exists != (initRefs >= 1) || oi.Data.Exists != (initRefs >= 2) || len(oi.Library.Keys()) != map[bool]int{true: 1, false: 0}[initRefs >= 3] {
		return fmt.Errorf("Marshal reported success, but the decoded state-init differs (code %v, data %v, %d libraries; encoded with %d references)", oi.Code.Exists, oi.Data.Exists, len(oi.Library.Keys()), initRefs)
	}
	return nil
}}

func TestSharedSlots(t *testing.T) {
	core.RunEnum(t, sharedSlots, "messages with an inline or referenced state-init of 0..3 references and a body of 0, 1, 300, 600, 900 bits and 0..4 references, inline or referenced", func(yield func(...uint64) bool) {
		for ir := uint64(0); ir < 4; ir++ {
			for br := uint64(0); br < 5; br++ {
				for _, bits := range []uint64{0, 1, 300, 600, 900} {
					for k := uint64(0); k < 4; k++ {
						if !yield(ir, br, bits, k&1, k>>1) {
							return
						}
					}
				}
			}
		}
	})
}
