package c03

import (
	"errors"
	"fmt"
	"reflect"
	"strings"
	"testing"

	"github.com/tonkeeper/tongo/boc"
	"github.com/tonkeeper/tongo/tlb"

	"verifharness/internal/core"
	"verifharness/internal/tlbgen"
	"verifharness/internal/typereg"
)

// Decoder configurations. "Decoding returns an equal value" is said of decoding, and every way the library
// offers to make a decoder is decoding: the package function tlb.Unmarshal (zero decoder), NewDecoder() (with a
// hash cache), the switches WithDebug and WithLibraryResolver on either. A library resolver is consulted for
// library cells that stand where a typed value is expected; a raw-cell field (boc.Cell behind a reference,
// Ref[boc.Cell], the children of the cell a tlb.Any holds) holds the cell that was encoded whatever the decoder
// is, so the values of this package (whose library cells all stand in raw-cell fields) decode to the same value
// with every configuration, whether the resolver knows the library or not.
const (
	decPlain            = iota // tlb.Unmarshal
	decHasher                  // tlb.NewDecoder()
	decDebug                   // tlb.NewDecoder().WithDebug()
	decResolver                // tlb.NewDecoder().WithLibraryResolver(r), r knows every library
	decDebugResolver           // tlb.NewDecoder().WithDebug().WithLibraryResolver(r), r knows every library
	decNotFound                // tlb.NewDecoder().WithLibraryResolver(r), r knows no library
	decDebugNotFound           // tlb.NewDecoder().WithDebug().WithLibraryResolver(r), r knows no library
	decZeroDebug               // (&tlb.Decoder{}).WithDebug(): debug mode without a hash cache
	decZeroResolver            // (&tlb.Decoder{}).WithLibraryResolver(r), r knows every library
	decResolverThenDebug       // tlb.NewDecoder().WithLibraryResolver(r).WithDebug(), r knows every library
	nDecoders
)

var decoderNames = [nDecoders]string{
	"tlb.Unmarshal", "NewDecoder()", "NewDecoder().WithDebug()", "NewDecoder().WithLibraryResolver(found)",
	"NewDecoder().WithDebug().WithLibraryResolver(found)", "NewDecoder().WithLibraryResolver(not found)",
	"NewDecoder().WithDebug().WithLibraryResolver(not found)", "(&Decoder{}).WithDebug()",
	"(&Decoder{}).WithLibraryResolver(found)", "NewDecoder().WithLibraryResolver(found).WithDebug()",
}

var allExtraDecoders = func() []int {
	var out []int
	for d := decPlain + 1; d < nDecoders; d++ {
		out = append(out, d)
	}
	return out
}()

var errNoSuchLibrary = errors.New("library not found")

// resolved is what the knowing resolver answers for a library hash: a fresh small tree of ordinary cells that
// depends on the hash only (a store of libraries is a function of the hash).
func resolved(hash tlb.Bits256) (*boc.Cell, error) {
	c := boc.NewCell()
	if err := c.WriteUint(0xFF00F800, 32); err != nil {
		return nil, err
	}
	if err := c.WriteBytes(hash[:8]); err != nil {
		return nil, err
	}
	kid := boc.NewCell()
	if err := kid.WriteBytes(hash[8:16]); err != nil {
		return nil, err
	}
	if err := c.AddRef(kid); err != nil {
		return nil, err
	}
	return c, nil
}

func notFound(tlb.Bits256) (*boc.Cell, error) { return nil, errNoSuchLibrary }

// newDecoder makes a decoder of configuration d; nil stands for tlb.Unmarshal.
func newDecoder(d int) *tlb.Decoder {
	switch d {
	case decHasher:
		return tlb.NewDecoder()
	case decDebug:
		return tlb.NewDecoder().WithDebug()
	case decResolver:
		return tlb.NewDecoder().WithLibraryResolver(resolved)
	case decDebugResolver:
		return tlb.NewDecoder().WithDebug().WithLibraryResolver(resolved)
	case decNotFound:
		return tlb.NewDecoder().WithLibraryResolver(notFound)
	case decDebugNotFound:
		return tlb.NewDecoder().WithDebug().WithLibraryResolver(notFound)
	case decZeroDebug:
		return (&tlb.Decoder{}).WithDebug()
	case decZeroResolver:
		return (&tlb.Decoder{}).WithLibraryResolver(resolved)
	case decResolverThenDebug:
		return tlb.NewDecoder().WithLibraryResolver(resolved).WithDebug()
	}
	return nil
}

func runDecoder(dec *tlb.Decoder, cell *boc.Cell, dest any) error {
	if dec == nil {
		return tlb.Unmarshal(cell, dest)
	}
	return dec.Unmarshal(cell, dest)
}

// hasExotic: the generator put an exotic cell somewhere into the value.
func hasExotic(events []string) bool {
	for _, e := range events {
		if strings.HasPrefix(e, "library cell") || strings.HasPrefix(e, "merkle proof cell") || strings.HasPrefix(e, "exotic cells") {
			return true
		}
	}
	return false
}

// drawDecoders chooses the decoder configurations a generated value of the general checks is decoded with besides
// tlb.Unmarshal: for a value that holds exotic cells one configuration whose resolver knows the library and one
// whose resolver does not; otherwise one drawn configuration in a quarter of the cases (c03/raw-cells below goes
// through all of them). It is the last draw of a case (an exhausted tape of an older replay file gives 0: none
// resp. the first ones).
func drawDecoders(c *core.Ctx, events []string) []int {
	d := c.Choose("decoder", 4*(nDecoders-1))
	if hasExotic(events) {
		c.Class("exotic cells in raw-cell fields: a resolver that knows the library and one that does not")
		return []int{
			[]int{decResolver, decDebugResolver, decZeroResolver, decResolverThenDebug}[d%4],
			[]int{decNotFound, decDebugNotFound}[d/4%2],
		}
	}
	if d == decPlain || d >= nDecoders {
		return nil
	}
	return []int{d}
}

func t[T any]() reflect.Type { return reflect.TypeOf((*T)(nil)).Elem() }

// rawCellTypes: the types that hold raw cells close to their root (found by walking the Go types of the
// registry) and instantiations of the generic combinators over raw cells.
var rawCellTypes = func() []reflect.Type {
	out := []reflect.Type{
		t[tlb.Ref[boc.Cell]](),
		t[tlb.Maybe[tlb.Ref[boc.Cell]]](),
		t[tlb.Either[tlb.Ref[boc.Cell], tlb.Uint8]](),
		t[tlb.Either[tlb.Any, tlb.Ref[boc.Cell]]](),
		t[tlb.Either[tlb.Ref[tlb.Any], tlb.Ref[boc.Cell]]](),
		t[tlb.Maybe[tlb.Ref[tlb.Any]]](),
		t[tlb.EitherRef[tlb.Any]](),
		t[tlb.Ref[tlb.Ref[boc.Cell]]](),
		t[tlb.HashmapE[tlb.Uint8, tlb.Ref[boc.Cell]]](),
		t[tlb.Hashmap[tlb.Uint16, tlb.Maybe[tlb.Ref[boc.Cell]]]](),
		t[tlb.HashmapE[tlb.Bits256, tlb.Ref[tlb.Any]]](),
	}
	for _, rt := range typereg.All() {
		if ok, _ := tlbgen.IsTLBType(rt); !ok {
			continue
		}
		if holdsRawCell(rt, 4, map[reflect.Type]bool{}) {
			out = append(out, rt)
		}
	}
	return out
}()

func holdsRawCell(rt reflect.Type, depth int, seen map[reflect.Type]bool) bool {
	if rt == cellT || rt == anyT {
		return true
	}
	if depth == 0 || seen[rt] {
		return false
	}
	switch rt.Kind() {
	case reflect.Pointer, reflect.Slice:
		return holdsRawCell(rt.Elem(), depth, seen)
	case reflect.Struct:
		seen[rt] = true
		defer delete(seen, rt)
		for i := 0; i < rt.NumField(); i++ {
			if holdsRawCell(rt.Field(i).Type, depth-1, seen) {
				return true
			}
		}
	}
	return false
}

// c03/raw-cells: values of the types that hold raw cells, generated with exotic cells in them (library cells and
// Merkle proof cells behind references, library cells and pruned branches among the children of raw cells), are
// encoded and then decoded with every decoder configuration.
var rawCellCheck = &core.Check{Name: "c03/raw-cells", Quick: 1000, Thorough: 100000, Fn: func(c *core.Ctx) error {
	rt := rawCellTypes[c.Choose("type", len(rawCellTypes))]
	name := typeName(rt)
	c.Note("type", name)
	g := &tlbgen.G{C: c, Exotic: true}
	v, gerr := g.Value(rt, 4)
	if gerr != nil {
		if _, ok := asUnsupported(gerr); ok {
			c.Class("not generated: outside the modelled TL-B domain")
			return nil
		}
		return fmt.Errorf("HARNESS: generator error for %s: %v", name, gerr)
	}
	c.Note("value", render(v))
	for _, e := range g.Events {
		if !strings.HasPrefix(e, "ctor ") && !strings.HasPrefix(e, "raw cell with children") {
			c.Class(e)
		}
	}
	extra := allExtraDecoders
	if !hasExotic(g.Events) {
		c.Class("no exotic cell in the value")
		extra = []int{1 + c.Choose("decoder", nDecoders-1)}
	}
	return roundTripDecoders(c, rt, v, extra)
}}

func TestRawCells(t *testing.T) { core.Run(t, rawCellCheck) }
