package c03

import (
	"fmt"
	"reflect"
	"testing"

	"github.com/tonkeeper/tongo/boc"
	"github.com/tonkeeper/tongo/tlb"

	"verifharness/internal/core"
	"verifharness/internal/tlbgen"
)

// c03/concurrent: the codec is a function of its arguments. Values are generated and encoded once on one
// goroutine (what that gives is judged by the other checks); then 2..16 goroutines, each with values of its
// own, encode and decode them at the same time and must get exactly what the single goroutine got.
var concurrentCheck = &core.Check{Name: "c03/concurrent", Quick: 2, Thorough: 200, Fn: func(c *core.Ctx) error {
	workers := c.OneOf("goroutines", 2, 4, 8, 16)
	rounds := c.Range("rounds", 20, 120)
	procs := c.OneOf("gomaxprocs", 2, 4, 16)
	per := 6
	type item struct {
		t    reflect.Type
		v    reflect.Value
		hash string
		data []byte
		// stable: on one goroutine the decoded value encoded to the same cell again
		stable bool
	}
	sets := make([][]item, workers)
	total := 0
	for w := range sets {
		for len(sets[w]) < per {
			var t reflect.Type
			if c.Bool("focus") && len(focusTypes) > 0 {
				t = focusTypes[c.Choose("ftype", len(focusTypes))]
			} else {
				t = types[c.Choose("type", len(types))]
			}
			g := &tlbgen.G{C: c}
			v, err := g.Value(t, 3)
			if err != nil {
				total++
				if total > 40*workers*per {
					return fmt.Errorf("HARNESS: too few encodable values")
				}
				continue
			}
			cell := boc.NewCell()
			var encErr error
			if perr := core.Protect(func() error { encErr = tlb.Marshal(cell, v.Interface()); return nil }); perr != nil || encErr != nil {
				total++
				if total > 40*workers*per {
					return fmt.Errorf("HARNESS: too few encodable values")
				}
				continue
			}
			data, err := cell.ToBoc()
			if err != nil {
				continue
			}
			probe := reflect.New(t)
			cell.ResetCounters()
			if tlb.Unmarshal(cell, probe.Interface()) != nil {
				continue // decoder missing: nothing to compare concurrently
			}
			// whether the decoded value encodes to the same cell again is judged by c03/roundtrip for the types
			// it applies to; here only what one goroutine observes is the yardstick
			hash := tlbgen.CellKey(cell)
			stable := false
			again := boc.NewCell()
			if perr := core.Protect(func() error { return tlb.Marshal(again, probe.Elem().Interface()) }); perr == nil {
				stable = tlbgen.CellKey(again) == hash
			}
			sets[w] = append(sets[w], item{t: t, v: v, hash: hash, data: data, stable: stable})
		}
	}
	c.Note("goroutines", workers)
	c.Note("rounds", rounds)
	c.NonTrivial(workers, rounds, procs, sets[0][0].hash)
	return core.Parallel(workers, rounds, procs, func(w, r int) error {
		it := sets[w][r%per]
		name := typeName(it.t)
		cell := boc.NewCell()
		if err := tlb.Marshal(cell, it.v.Interface()); err != nil {
			return fmt.Errorf("%s: Marshal fails (%v) on a value that encoded on one goroutine", name, err)
		}
		if h := tlbgen.CellKey(cell); h != it.hash {
			return fmt.Errorf("%s: Marshal gives cell %s, on one goroutine it gave %s", name, h, it.hash)
		}
		roots, err := boc.DeserializeBoc(it.data)
		if err != nil {
			return fmt.Errorf("HARNESS: %v", err)
		}
		out := reflect.New(it.t)
		var dec error
		// every goroutine makes its own decoder; the configurations take turns (the values hold library cells in
		// raw-cell fields only, so a resolver changes nothing)
		switch r % 4 {
		case 0:
			dec = tlb.Unmarshal(roots[0], out.Interface())
		case 1:
			dec = tlb.NewDecoder().Unmarshal(roots[0], out.Interface())
		case 2:
			dec = newDecoder(decDebugResolver).Unmarshal(roots[0], out.Interface())
		default:
			dec = newDecoder(decNotFound).Unmarshal(roots[0], out.Interface())
		}
		if dec != nil {
			return fmt.Errorf("%s: Unmarshal fails (%v) on an encoding that decoded on one goroutine", name, dec)
		}
		if it.stable {
			again := boc.NewCell()
			if err := tlb.Marshal(again, out.Elem().Interface()); err != nil {
				return fmt.Errorf("%s: the decoded value does not encode (%v); on one goroutine it did", name, err)
			}
			if h := tlbgen.CellKey(again); h != it.hash {
				return fmt.Errorf("%s: the decoded value encodes to cell %s, on one goroutine it encoded to %s", name, h, it.hash)
			}
		}
		return nil
	})
}}

func TestConcurrent(t *testing.T) { core.Run(t, concurrentCheck) }
