package c03

import (
	"fmt"
	"os"
	"path/filepath"
	"reflect"
	"regexp"
	"sort"
	"strconv"
	"sync"
	"testing"

	"github.com/tonkeeper/tongo/abi"
	"github.com/tonkeeper/tongo/boc"
	"github.com/tonkeeper/tongo/tlb"

	"verifharness/internal/core"
	"verifharness/internal/realdata"
	"verifharness/internal/tlbgen"
)

// ABI message bodies through the public message decoders: a body of a registered type, written behind
// its operation code, must come back from InternalMessageDecoder under the same operation name with an
// equal value (or under an alias name whose re-encoding is the identical cell: several operations share
// an opcode and a layout).

type abiOp struct {
	name   string
	opcode uint32
	typ    reflect.Type
}

var (
	abiOnce sync.Once
	abiOps  []abiOp
	abiErr  error
)

func loadABI() {
	abiOnce.Do(func() {
		src, err := os.ReadFile(filepath.Join(realdata.Repo(), "abi", "messages_generated.go"))
		if err != nil {
			abiErr = err
			return
		}
		prefixOf := map[string]string{} // op name -> constant prefix
		for _, m := range regexp.MustCompile(`(?m)^\s*(\w+)MsgOp\s+MsgOpName = "(\w+)"`).FindAllStringSubmatch(string(src), -1) {
			prefixOf[m[2]] = m[1]
		}
		codeOf := map[string]uint32{}
		for _, m := range regexp.MustCompile(`(?m)^\s*(\w+)MsgOpCode\s+MsgOpCode = 0x([0-9a-fA-F]+)`).FindAllStringSubmatch(string(src), -1) {
			v, _ := strconv.ParseUint(m[2], 16, 32)
			codeOf[m[1]] = uint32(v)
		}
		var names []string
		for n := range abi.KnownMsgInTypes {
			names = append(names, n)
		}
		sort.Strings(names)
		for _, n := range names {
			// the constants of an internal-message operation "Xxx" are XxxMsgOp and XxxMsgOpCode
			if prefixOf[n] == "" {
				continue
			}
			code, ok := codeOf[n]
			if !ok {
				continue
			}
			abiOps = append(abiOps, abiOp{n, code, reflect.TypeOf(abi.KnownMsgInTypes[n])})
		}
		if len(abiOps) < 50 {
			abiErr = fmt.Errorf("HARNESS: only %d ABI operations recognised in messages_generated.go", len(abiOps))
		}
	})
}

var abiSeen = map[string]int{}

var abiCheck = &core.Check{Name: "c03/abi-bodies", Quick: 6000, Thorough: 400000, Fn: func(c *core.Ctx) error {
	loadABI()
	if abiErr != nil {
		return abiErr
	}
	op := abiOps[c.Choose("op", len(abiOps))]
	c.Note("operation", op.name)
	g := &tlbgen.G{C: c}
	v, gerr := g.Value(op.typ, 3)
	if gerr != nil {
		c.Class("not generated: outside the modelled TL-B domain")
		return nil
	}
	c.Note("value", render(v))
	cell := boc.NewCell()
	cell.WriteUint(uint64(op.opcode), 32)
	var merr error
	if perr := core.Protect(func() error { merr = tlb.Marshal(cell, v.Interface()); return nil }); perr != nil {
		return fmt.Errorf("%s: tlb.Marshal of the body panicked: %v", op.name, perr)
	}
	if merr != nil {
		c.Class("encode error: " + errBucket(merr))
		return nil
	}
	key := tlbgen.CellKey(cell)
	cell.ResetCounters()
	var tag *abi.MsgOpCode
	var name *abi.MsgOpName
	var val any
	var derr error
	if perr := core.Protect(func() error { tag, name, val, derr = abi.InternalMessageDecoder(cell, nil); return nil }); perr != nil {
		return fmt.Errorf("%s: InternalMessageDecoder panicked on a valid body (cell %s): %v", op.name, key, perr)
	}
	if derr != nil {
		return fmt.Errorf("%s: InternalMessageDecoder failed on a valid body: %v\nvalue: %s", op.name, derr, render(v))
	}
	if tag == nil || uint32(*tag) != op.opcode {
		return fmt.Errorf("%s: decoder reports opcode %v, the body starts with %#x", op.name, tag, op.opcode)
	}
	abiSeen[op.name]++
	if name == nil {
		// the decoder did not recognise the body although it is a valid value of a registered type
		return fmt.Errorf("%s (opcode %#08x): a valid body is not recognised by InternalMessageDecoder\nvalue: %s", op.name, op.opcode, render(v))
	}
	if !tlbgen.IsZero(v) {
		c.NonTrivial(op.name, key)
	}
	if *name == op.name {
		if err := tlbgen.Equal(v, reflect.ValueOf(val)); err != nil {
			return fmt.Errorf("%s: decoded body differs from the encoded one: %v\nvalue: %s", op.name, err, render(v))
		}
		c.Class("same operation name")
		return nil
	}
	// alias: another registered operation with the same opcode; accepted when it re-encodes to the same cell
	again := boc.NewCell()
	again.WriteUint(uint64(op.opcode), 32)
	if err := tlb.Marshal(again, val); err != nil || tlbgen.CellKey(again) != key {
		// Several operations are registered under one opcode; the decoder takes the first whose layout reads the
		// body completely. The bits of a valid body of one operation can also be a complete - possibly
		// non-canonical, e.g. a VarUInteger with leading zero bytes - body of another operation with the same
		// opcode: the layouts are ambiguous, nothing is wrong with the codec. No statement in that case.
		for _, o := range abiOps {
			if o.name == *name && o.opcode == op.opcode {
				c.Class("decoded under another operation of the same opcode whose layout also reads the body completely (ambiguous, not judged)")
				return nil
			}
		}
		return fmt.Errorf("%s: decoded as %s, which is not registered under opcode %#08x, and its re-encoding is a different cell (%v)\nvalue: %s", op.name, *name, op.opcode, err, render(v))
	}
	c.Class("decoded under an alias with identical encoding")
	return nil
}}

func TestABIBodies(t *testing.T) {
	core.Run(t, abiCheck)
	core.Extra(abiCheck.Name, "registered_internal_operations", len(abiOps))
	core.Extra(abiCheck.Name, "operations_exercised", len(abiSeen))
}
