// C01 — bag-of-cells serialisation round-trips and is canonical (reference models R2, R3).
package c01

import (
	"bytes"
	"encoding/hex"
	"errors"
	"fmt"
	"testing"

	"github.com/tonkeeper/tongo/boc"

	"verifharness/internal/core"
	"verifharness/internal/gen"
	"verifharness/internal/realdata"
	"verifharness/internal/ref"
)

func TestMain(m *testing.M) { core.Main(m, "C01") }

func distinctCells(root *ref.RCell) int {
	seen := map[string]bool{}
	ref.Walk([]*ref.RCell{root}, func(x *ref.RCell) { seen[x.Key()] = true })
	return len(seen)
}

// checkOwnOutput validates one serialisation produced by tongo for the reference image `want`.
func checkOwnOutput(data []byte, want *ref.RCell, idx, crc, cache bool) error {
	info, err := ref.ParseBOCInfo(data)
	if err != nil {
		return fmt.Errorf("reference parser rejects tongo's output: %v", err)
	}
	if info.IndexErr != "" {
		return fmt.Errorf("index of tongo's output is wrong: %s", info.IndexErr)
	}
	if info.Magic != 0xb5ee9c72 {
		return fmt.Errorf("magic %08x", info.Magic)
	}
	if info.HasIdx != idx || info.HasCRC != crc || info.HasCache != cache {
		return fmt.Errorf("header flags idx=%v crc=%v cache=%v, requested idx=%v crc=%v cache=%v", info.HasIdx, info.HasCRC, info.HasCache, idx, crc, cache)
	}
	if len(info.Roots) != 1 {
		return fmt.Errorf("%d roots", len(info.Roots))
	}
	if !bytes.Equal(info.Roots[0].ReprHash(), want.ReprHash()) {
		return fmt.Errorf("reference parser reads root hash %x from tongo's output, want %x", info.Roots[0].ReprHash(), want.ReprHash())
	}
	if n := distinctCells(want); len(info.Cells) != n {
		return fmt.Errorf("output stores %d cells, the DAG has %d distinct cells (shared sub-trees must be stored once)", len(info.Cells), n)
	}
	// minimal widths, as every conforming writer that claims canonical output uses
	input := append([]byte{}, data...)
	back, err := boc.DeserializeBoc(input)
	if err != nil {
		return fmt.Errorf("tongo cannot parse its own output: %v", err)
	}
	for i := range input { // the parsed cells must not share memory with the caller's buffer
		input[i] = 0xff
	}
	if len(back) != 1 {
		return fmt.Errorf("own output parses to %d roots", len(back))
	}
	if err := gen.SameCell(back[0], want); err != nil {
		return fmt.Errorf("parsed-back root differs structurally: %v", err)
	}
	h, err := back[0].Hash()
	if err != nil || !bytes.Equal(h, want.ReprHash()) {
		return fmt.Errorf("parsed-back root hash %x,%v want %x", h, err, want.ReprHash())
	}
	return nil
}

func optName(i int) string {
	return fmt.Sprintf("idx=%v crc=%v cache=%v", i&1 != 0, i&2 != 0, i&4 != 0)
}

func allOptions(root *boc.Cell, want *ref.RCell) ([8][]byte, error) {
	var outs [8][]byte
	for i := 0; i < 8; i++ {
		idx, crc, cache := i&1 != 0, i&2 != 0, i&4 != 0
		data, err := root.ToBocCustom(idx, crc, cache, 0)
		if err != nil {
			return outs, fmt.Errorf("ToBocCustom(%s): %v", optName(i), err)
		}
		if err := checkOwnOutput(data, want, idx, crc, cache); err != nil {
			return outs, fmt.Errorf("%s: %v", optName(i), err)
		}
		outs[i] = data
	}
	def, err := root.ToBoc()
	if err != nil {
		return outs, fmt.Errorf("ToBoc: %v", err)
	}
	if err := checkOwnOutput(def, want, false, false, false); err != nil {
		// ToBoc may choose its own flags; only the content is checked then
		info, e2 := ref.ParseBOCInfo(def)
		if e2 != nil || !bytes.Equal(info.Roots[0].ReprHash(), want.ReprHash()) {
			return outs, fmt.Errorf("ToBoc: %v", err)
		}
	}
	return outs, nil
}

func drawShape(c *core.Ctx) gen.DagOpts {
	switch c.Weighted("class", 12, 2, 2, 2, 1, 1) {
	case 1:
		return gen.DagOpts{MaxNodes: 2 + c.Intn("n", 40), Shape: 1}
	case 2:
		return gen.DagOpts{MaxNodes: 2 + c.Intn("n", 40), Shape: 2}
	case 3:
		return gen.DagOpts{MaxNodes: 2 + c.Intn("n", 40), Shape: 3}
	case 4: // around the one-byte ref index limit
		return gen.DagOpts{MaxNodes: c.OneOf("n", 254, 255, 256, 257, 258), Shape: c.OneOf("shape", 0, 1, 2), SmallBit: true}
	case 5: // total size around the one-byte / two-byte offset limits
		return gen.DagOpts{MaxNodes: c.OneOf("n", 30, 60, 400), Shape: 0}
	}
	return gen.DagOpts{MaxNodes: 1 + c.Intn("n", 16)}
}

var roundtrip = &core.Check{Name: "c01/roundtrip", Quick: 1200, Thorough: 60000, Fn: func(c *core.Ctx) error {
	o := drawShape(c)
	nodes := gen.Dag(c, o)
	root := nodes[len(nodes)-1]
	c.Note("nodes", len(nodes))
	c.Note("shape", o.Shape)
	c.Note("root_hash", hex.EncodeToString(root.ReprHash()))
	if c.Intn("refusedFirst", 5) == 0 {
		// a refused operation (over-deep tree, broken checksum) just before must not change this result
		gen.RefuseFirst(c.Intn("refusedFirst.extra", 4))
		c.Class("after a refused operation")
	}
	shared, err := gen.ToTongo(root, true, 100000)
	if err != nil {
		return err
	}
	outs, err := allOptions(shared, root)
	if err != nil {
		return fmt.Errorf("DAG built with shared pointers: %v", err)
	}
	c.Note("boc", trunc(hex.EncodeToString(outs[0])))
	copies, err := gen.ToTongo(root, false, 3000)
	if err == nil {
		outs2, err := allOptions(copies, root)
		if err != nil {
			return fmt.Errorf("DAG built from distinct copies: %v", err)
		}
		for i := range outs {
			if !bytes.Equal(outs[i], outs2[i]) {
				return fmt.Errorf("%s: structurally equal inputs (shared pointers vs distinct copies) serialise differently:\n%x\n%x", optName(i), outs[i], outs2[i])
			}
		}
		c.Class("compared shared vs copies")
	} else if !errors.Is(err, gen.ErrBudget) {
		return err
	}
	// parse and serialise again: same bytes (canonical)
	back, err := boc.DeserializeBoc(outs[c.Intn("reparse.opt", 8)])
	if err != nil {
		return err
	}
	for i := 0; i < 8; i += 7 {
		again, err := back[0].ToBocCustom(i&1 != 0, i&2 != 0, i&4 != 0, 0)
		if err != nil {
			return err
		}
		if !bytes.Equal(again, outs[i]) {
			return fmt.Errorf("%s: parse + serialise changes the bytes:\n%x\n%x", optName(i), outs[i], again)
		}
	}
	nd := distinctCells(root)
	odd, sharedNode := false, nd < countOccurrences(root, 5000)
	for _, x := range nodes {
		odd = odd || x.BitLen%8 != 0
	}
	if nd > 255 {
		c.Class("more than 255 cells")
	}
	if sharedNode {
		c.Class("has shared sub-tree")
	}
	if len(outs[0]) > 255 {
		c.Class("offsets need 2 bytes")
	}
	if nd >= 2 && (odd || sharedNode || nd > 255) {
		c.NonTrivial(root.ReprHash())
	}
	return nil
}}

func trunc(s string) string {
	if len(s) > 400 {
		return s[:400] + "…"
	}
	return s
}

func countOccurrences(root *ref.RCell, limit int) int {
	n := 0
	var rec func(x *ref.RCell)
	rec = func(x *ref.RCell) {
		if n > limit {
			return
		}
		n++
		for _, r := range x.Refs {
			rec(r)
		}
	}
	rec(root)
	return n
}

func drawVariant(c *core.Ctx) ref.BocVariant {
	v := ref.BocVariant{Magic: c.Weighted("magic", 4, 1, 1)}
	if v.Magic == 0 {
		v.Index, v.CRC = c.Bool("idx"), c.Bool("crc")
		if v.Index {
			v.CacheBits = c.Bool("cache")
		}
	}
	v.ExtraSize = c.Weighted("extraSize", 4, 1, 1, 1)
	v.ExtraOff = c.Weighted("extraOff", 4, 1, 1, 1, 1, 1, 1, 1)
	if c.Bool("reorder") {
		v.OrderSeed = c.U64("order") | 1
	}
	v.WithHashes = c.Intn("withHashes", 4) == 0
	return v
}

var foreign = &core.Check{Name: "c01/foreign", Quick: 1500, Thorough: 80000, Fn: func(c *core.Ctx) error {
	o := drawShape(c)
	o.Exotic = c.Intn("exotic", 3) != 0
	if o.MaxNodes > 60 && o.Exotic {
		o.MaxNodes = 60
	}
	nodes := gen.Dag(c, o)
	nroots := 1 + c.Weighted("nroots", 5, 2, 1, 1)
	var roots []*ref.RCell
	roots = append(roots, nodes[len(nodes)-1])
	for len(roots) < nroots { // duplicates allowed: the reference C++ writer lists a repeated root repeatedly
		roots = append(roots, nodes[c.Choose("root", len(nodes))])
	}
	v := drawVariant(c)
	if v.Magic != 0 {
		// serialized_boc_idx#68ff65f3 / serialized_boc_idx_crc32c#acc3a728: { roots = 1 }, no root list, root = cell 0
		roots = roots[:1]
		c.Class("legacy container")
	}
	data := ref.SerializeBOC(roots, v)
	// a bag may hold more cells than its root reaches: another writer's single-root bag in which a cell that
	// refers to the root comes first (topological order puts it there) and root_list names the second cell
	if v.Magic == 0 && len(roots) == 1 && c.Choose("cell before the root", 6) == 0 {
		parent := ref.NewRCell(ref.Bits{}.AppendUint(0xA5, 8), false, roots[0])
		raw := ref.RawFromDag([]*ref.RCell{parent, roots[0]}, v)
		if raw.Roots == 2 && len(raw.RootList) == 2 && raw.RootList[1] != 0 {
			raw.Roots, raw.RootList = 1, raw.RootList[1:]
			raw.Resize()
			if rr, err := ref.ParseBOC(raw.Bytes()); err == nil && len(rr) == 1 && bytes.Equal(rr[0].ReprHash(), roots[0].ReprHash()) {
				data = raw.Bytes()
				c.Class("single root that is not the first cell of the bag")
			}
		}
	}
	c.Note("variant", fmt.Sprintf("%+v", v))
	c.Note("roots", len(roots))
	c.Note("boc", trunc(hex.EncodeToString(data)))
	if _, err := ref.ParseBOCInfo(data); err != nil {
		return fmt.Errorf("HARNESS-SELF-CHECK: reference parser rejects reference output: %v", err)
	}
	input := append([]byte{}, data...)
	got, err := boc.DeserializeBoc(input)
	if err != nil {
		return fmt.Errorf("DeserializeBoc rejects a well-formed bag (variant %+v): %v", v, err)
	}
	// the caller owns its buffer again after the call: scribbling over it must not change the cells
	for i := range input {
		input[i] ^= 0xa5
	}
	if len(got) != len(roots) {
		return fmt.Errorf("%d roots parsed, %d written", len(got), len(roots))
	}
	special := false
	for i := range roots {
		if err := gen.SameCell(got[i], roots[i]); err != nil {
			return fmt.Errorf("root %d: %v", i, err)
		}
		h, err := got[i].Hash()
		if err != nil || !bytes.Equal(h, roots[i].ReprHash()) {
			return fmt.Errorf("root %d: hash %x,%v but the writer intended %x", i, h, err, roots[i].ReprHash())
		}
		// serialise what was parsed with all option combinations (exotic cells enter C01 this way)
		if _, err := allOptions(got[i], roots[i]); err != nil {
			return fmt.Errorf("root %d re-serialised: %v", i, err)
		}
		ref.Walk(roots[i:i+1], func(x *ref.RCell) { special = special || x.Special })
	}
	if special {
		c.Class("has exotic cell")
	}
	if v != (ref.BocVariant{}) {
		c.Class("non-default header variant")
	}
	if len(roots) > 1 {
		c.Class("multi-root")
	}
	if len(nodes) >= 2 {
		c.NonTrivial(roots[0].ReprHash(), fmt.Sprintf("%+v", v), len(roots))
	}
	return nil
}}

// big bags: tape = number of cells, shape
var bigCheck = &core.Check{Name: "c01/big", Fn: func(c *core.Ctx) error {
	n, shape := c.Intn("n", 1<<20), c.Intn("shape", 4)
	c.Note("cells", n)
	c.Note("shape", shape)
	if shape != 2 && n > 1025 {
		return nil // only the wide tree stays below the depth limit of 1024 at these sizes
	}
	// node i holds the number i: n distinct cells (drawn data would repeat and the bag would shrink to a few cells)
	nodes := gen.Dag(c, gen.DagOpts{MaxNodes: n, Shape: shape, Indexed: true})
	if d := distinctCells(nodes[len(nodes)-1]); shape != 0 && d != n {
		return fmt.Errorf("HARNESS: the generated bag has %d distinct cells, wanted %d", d, n)
	}
	root := nodes[len(nodes)-1]
	shared, err := gen.ToTongo(root, true, 1<<21)
	if err != nil {
		return err
	}
	for _, i := range []int{0, 7} {
		idx, crc, cache := i&1 != 0, i&2 != 0, i&4 != 0
		data, err := shared.ToBocCustom(idx, crc, cache, 0)
		if err != nil {
			return fmt.Errorf("ToBocCustom(%s) on %d cells: %v", optName(i), n, err)
		}
		if err := checkOwnOutput(data, root, idx, crc, cache); err != nil {
			return fmt.Errorf("%d cells, shape %d, %s: %v", n, shape, optName(i), err)
		}
	}
	c.NonTrivial(n, shape)
	return nil
}}

var realCheck = &core.Check{Name: "c01/real", Fn: func(c *core.Ctx) error {
	items := realdata.All()
	it := items[c.Intn("item", len(items))]
	c.Note("source", it.Name)
	c.Note("bytes", len(it.Bytes))
	got, err := boc.DeserializeBoc(it.Bytes)
	if err != nil {
		return fmt.Errorf("DeserializeBoc(%s): %v", it.Name, err)
	}
	if len(got) != len(it.Roots) {
		return fmt.Errorf("%s: %d roots, reference parser reads %d", it.Name, len(got), len(it.Roots))
	}
	cells := 0
	for i := range got {
		h, err := got[i].Hash()
		if err != nil || !bytes.Equal(h, it.Roots[i].ReprHash()) {
			return fmt.Errorf("%s root %d: hash %x,%v want %x", it.Name, i, h, err, it.Roots[i].ReprHash())
		}
		if err := gen.SameCell(got[i], it.Roots[i]); err != nil {
			return fmt.Errorf("%s root %d: %v", it.Name, i, err)
		}
		opt := c.Intn("opt", 8)
		if len(it.Bytes) > 100000 {
			opt = []int{0, 7}[opt&1]
		}
		data, err := got[i].ToBocCustom(opt&1 != 0, opt&2 != 0, opt&4 != 0, 0)
		if err != nil {
			return fmt.Errorf("%s root %d: ToBocCustom: %v", it.Name, i, err)
		}
		if err := checkOwnOutput(data, it.Roots[i], opt&1 != 0, opt&2 != 0, opt&4 != 0); err != nil {
			return fmt.Errorf("%s root %d re-serialised (%s): %v", it.Name, i, optName(opt), err)
		}
		cells += distinctCells(it.Roots[i])
	}
	if cells >= 2 {
		c.NonTrivial(it.Name)
	}
	return nil
}}

func TestProp(t *testing.T) {
	t.Run("roundtrip", func(t *testing.T) { core.Run(t, roundtrip) })
	t.Run("foreign", func(t *testing.T) { core.Run(t, foreign) })
}

func TestEnum(t *testing.T) {
	core.RunEnum(t, bigCheck, "bags around the ref-index and depth limits", func(yield func(...uint64) bool) {
		// 65536 cells is where reference indices start to need three bytes
		sizes := []int{255, 256, 257, 1024, 1025, 65535, 65536, 65537}
		for _, n := range sizes {
			for shape := 0; shape < 4; shape++ {
				if n > 1025 && shape != 2 {
					continue // only the wide tree stays below the depth limit at these sizes
				}
				if !yield(uint64(n), uint64(shape)) {
					return
				}
			}
		}
	})
}

func TestReal(t *testing.T) {
	n := len(realdata.All())
	core.RunEnum(t, realCheck, fmt.Sprintf("every real BOC harvested from the tree under test (%d inputs)", n), func(yield func(...uint64) bool) {
		for i := 0; i < n; i++ {
			if !yield(uint64(i), uint64(i%8)) {
				return
			}
		}
	})
}

func TestReplay(t *testing.T) { core.Replay(t, roundtrip, foreign, bigCheck, realCheck, nearCheck, historyCheck) }
