package c01

import (
	"fmt"
	"testing"

	"github.com/tonkeeper/tongo/boc"

	"verifharness/internal/core"
	"verifharness/internal/gen"
	"verifharness/internal/ref"
)

// c01/history: serialising is a function of the tree as it is at the call. A tree built in memory is
// serialised (SerializeBoc, ToBoc, ToBocCustom), then one of its cells gets more bits, and it is serialised
// again - other trees go through the serialiser in between. Children start as twins (distinct objects, same
// content), so a hash remembered from an earlier call would merge a changed cell with its former twin.
var historyCheck = &core.Check{Name: "c01/history", Quick: 400, Thorough: 40000, Fn: func(c *core.Ctx) error {
	mk := func(bits ref.Bits) *boc.Cell {
		x := boc.NewCell()
		_ = x.WriteBitString(gen.BitString(bits))
		return x
	}
	nkids := c.Range("kids", 2, 4)
	base := ref.Bits(c.Bits("base", c.Range("base.n", 0, 120)))
	rootBits := ref.Bits(c.Bits("root", c.Range("root.n", 0, 80)))
	root := mk(rootBits)
	kidBits := make([]ref.Bits, nkids)
	kids := make([]*boc.Cell, nkids)
	for i := range kids {
		kidBits[i] = base.Clone()
		kids[i] = mk(kidBits[i])
		if err := root.AddRef(kids[i]); err != nil {
			return fmt.Errorf("HARNESS: %v", err)
		}
	}
	image := func() *ref.RCell {
		var rk []*ref.RCell
		for _, b := range kidBits {
			rk = append(rk, ref.NewRCell(b, false))
		}
		return ref.NewRCell(rootBits, false, rk...)
	}
	serialise := func(when string) error {
		o := c.Intn("opt", 8)
		idx, crc, cache := o&1 != 0, o&2 != 0, o&4 != 0
		var data []byte
		var err error
		how := c.Choose("how", 3)
		switch how {
		case 0:
			data, err = boc.SerializeBoc(root, idx, crc, cache, 0)
		case 1:
			data, err = root.ToBocCustom(idx, crc, cache, 0)
		default:
			idx, crc, cache = false, false, false
			data, err = root.ToBoc()
			if err == nil {
				if info, e2 := ref.ParseBOCInfo(data); e2 == nil {
					idx, crc, cache = info.HasIdx, info.HasCRC, info.HasCache
				}
			}
		}
		if err != nil {
			return fmt.Errorf("%s: serialising (%s): %v", when, []string{"SerializeBoc", "ToBocCustom", "ToBoc"}[how], err)
		}
		if err := checkOwnOutput(data, image(), idx, crc, cache); err != nil {
			return fmt.Errorf("%s, through %s: %v", when, []string{"SerializeBoc", "ToBocCustom", "ToBoc"}[how], err)
		}
		return nil
	}
	if err := serialise("fresh tree"); err != nil {
		return err
	}
	for s, steps := 1, c.Range("steps", 1, 4); s <= steps; s++ {
		i := c.Choose("which", nkids)
		add := ref.Bits(c.Bits("add", c.Range("add.n", 1, 40)))
		if err := kids[i].WriteBitString(gen.BitString(add)); err != nil {
			return fmt.Errorf("HARNESS: %v", err)
		}
		kidBits[i] = append(kidBits[i], add...)
		if c.Bool("between") {
			if _, err := boc.SerializeBoc(mk(ref.Bits(c.Bits("other", 30))), false, false, false, 0); err != nil {
				return fmt.Errorf("HARNESS: %v", err)
			}
		}
		if err := serialise(fmt.Sprintf("after change %d (child %d got %d more bits)", s, i, len(add))); err != nil {
			return err
		}
	}
	c.NonTrivial(image().ReprHash())
	return nil
}}

func TestHistory(t *testing.T) { core.Run(t, historyCheck) }
