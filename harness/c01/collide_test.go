package c01

import (
	"fmt"
	"sync"
	"testing"

	"verifharness/internal/core"
	"verifharness/internal/gen"
	"verifharness/internal/ref"
)

// c01/near-hashes: two different cells of one bag whose representation hashes agree in their first (or last)
// 1..4 bytes - pairs found by search over 2^18 leaf cells - must stay two cells. A serialiser that recognises
// equal cells by anything less than the whole hash merges them.

type nearPair struct {
	a, b  *ref.RCell
	bytes int
	tail  bool
}

var (
	nearOnce  sync.Once
	nearPairs []nearPair
)

func leafOf(v uint64) *ref.RCell { return ref.NewRCell(ref.Bits{}.AppendUint(v, 64), false) }

func findNearPairs() {
	const n = 1 << 18
	type key struct {
		k    uint32
		tail bool
	}
	seen := make(map[key]uint64, 2*n)
	have := map[string]int{}
	for v := uint64(1); v <= n; v++ {
		h := leafOf(v).ReprHash()
		for _, tail := range []bool{false, true} {
			var k uint32
			if tail {
				k = uint32(h[28])<<24 | uint32(h[29])<<16 | uint32(h[30])<<8 | uint32(h[31])
			} else {
				k = uint32(h[0])<<24 | uint32(h[1])<<16 | uint32(h[2])<<8 | uint32(h[3])
			}
			if w, ok := seen[key{k, tail}]; ok {
				id := fmt.Sprint(4, tail)
				if have[id] < 3 {
					have[id]++
					nearPairs = append(nearPairs, nearPair{leafOf(w), leafOf(v), 4, tail})
				}
			} else {
				seen[key{k, tail}] = v
			}
		}
	}
	// shorter agreements: 1..3 bytes, found among the first few thousand leaves
	for nb := 1; nb <= 3; nb++ {
		for _, tail := range []bool{false, true} {
			first := map[uint32]uint64{}
			found := 0
			for v := uint64(1); v <= 1<<14 && found < 2; v++ {
				h := leafOf(v).ReprHash()
				var k uint32
				for i := 0; i < nb; i++ {
					if tail {
						k = k<<8 | uint32(h[32-nb+i])
					} else {
						k = k<<8 | uint32(h[i])
					}
				}
				if w, ok := first[k]; ok {
					nearPairs = append(nearPairs, nearPair{leafOf(w), leafOf(v), nb, tail})
					found++
				} else {
					first[k] = v
				}
			}
		}
	}
}

var nearCheck = &core.Check{Name: "c01/near-hashes", Fn: func(c *core.Ctx) error {
	nearOnce.Do(findNearPairs)
	if len(nearPairs) == 0 {
		return fmt.Errorf("HARNESS: no pair of leaves with nearly equal hashes found")
	}
	p := nearPairs[c.Intn("pair", len(nearPairs))]
	layout := c.Intn("layout", 3)
	c.Note("pair", fmt.Sprintf("x{%s} / x{%s}: hashes %x / %x agree in %d bytes (tail=%v)", p.a.Bits().FiftHex(), p.b.Bits().FiftHex(), p.a.ReprHash(), p.b.ReprHash(), p.bytes, p.tail))
	c.Class(fmt.Sprintf("hashes agree in %d bytes", p.bytes))
	var root *ref.RCell
	switch layout {
	case 0:
		root = ref.NewRCell(ref.Bits{true}, false, p.a, p.b)
	case 1:
		root = ref.NewRCell(ref.Bits{false}, false, p.b, p.a, p.b, p.a)
	default:
		root = ref.NewRCell(ref.Bits{true, true}, false, ref.NewRCell(ref.Bits{false}, false, p.a), ref.NewRCell(ref.Bits{false}, false, p.b))
	}
	c.NonTrivial(root.ReprHash())
	t, err := gen.ToTongo(root, true, 100)
	if err != nil {
		return err
	}
	all, err := allOptions(t, root)
	if err != nil {
		return err
	}
	for i, data := range all {
		if err := checkOwnOutput(data, root, i&1 != 0, i&2 != 0, i&4 != 0); err != nil {
			return fmt.Errorf("bag with two cells whose hashes agree in %d bytes (%x / %x), %s: %v", p.bytes, p.a.ReprHash(), p.b.ReprHash(), optName(i), err)
		}
	}
	return nil
}}

func TestNear(t *testing.T) {
	nearOnce.Do(findNearPairs)
	core.RunEnum(t, nearCheck, fmt.Sprintf("%d pairs of leaf cells whose hashes agree in their first or last 1..4 bytes x 3 layouts x 8 option sets", len(nearPairs)), func(yield func(...uint64) bool) {
		for i := range nearPairs {
			for l := 0; l < 3; l++ {
				if !yield(uint64(i), uint64(l)) {
					return
				}
			}
		}
	})
}
