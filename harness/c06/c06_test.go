// C06 — bit-string and cell read/write primitives behave like an ideal bit list (reference model R1).
package c06

import (
	"bytes"
	"encoding/json"
	"fmt"
	"math/big"
	"testing"

	"github.com/tonkeeper/tongo/boc"

	"verifharness/internal/core"
	"verifharness/internal/ref"
)

func TestMain(m *testing.M) { core.Main(m, "C06") }

// target abstracts over BitString and Cell, which expose the same primitives.
type target interface {
	WriteBit(bool) error
	WriteUint(uint64, int) error
	WriteInt(int64, int) error
	WriteBigUint(*big.Int, int) error
	WriteBigInt(*big.Int, int) error
	WriteBytes([]byte) error
	WriteUnary(uint) error
	WriteLimUint(int, int) error
	WriteBitString(boc.BitString) error
	ReadBit() (bool, error)
	ReadUint(int) (uint64, error)
	PickUint(int) (uint64, error)
	ReadInt(int) (int64, error)
	ReadBytes(int) ([]byte, error)
	ReadBits(int) (boc.BitString, error)
	ReadBigUint(int) (*big.Int, error)
	ReadBigInt(int) (*big.Int, error)
	ReadUnary() (uint, error)
	ReadLimUint(int) (uint, error)
	Skip(int) error
	ReadRemainingBits() boc.BitString
	BitsAvailableForRead() int
	BitsAvailableForWrite() int
}

type bsTarget struct{ *boc.BitString }
type cellTarget struct{ *boc.Cell }

func bitsOf(bs boc.BitString) (ref.Bits, error) {
	bs.ResetCounter()
	n := bs.BitsAvailableForRead()
	out := make(ref.Bits, 0, n)
	for i := 0; i < n; i++ {
		b, err := bs.ReadBit()
		if err != nil {
			return nil, err
		}
		out = append(out, b)
	}
	return out, nil
}

func drawWidthBoundary(c *core.Ctx, label string, max int) int {
	if c.Intn(label+".b", 3) == 0 {
		cands := []int{0, 1, 7, 8, 9, 15, 16, 17, 31, 32, 33, 55, 56, 57, 58, 63, 64, 65, 127, 128, 255, 256, 257}
		v := cands[c.Choose(label+".c", len(cands))]
		if v <= max {
			return v
		}
	}
	return c.Range(label, 0, max)
}

// drawBig draws a value of exactly-at-most n bits with boundary bias (unsigned).
func drawBigU(c *core.Ctx, label string, n int) *big.Int {
	max := new(big.Int).Sub(new(big.Int).Lsh(big.NewInt(1), uint(n)), big.NewInt(1))
	switch c.Weighted(label+".k", 1, 1, 1, 1, 4) {
	case 0:
		return big.NewInt(0)
	case 1:
		return max
	case 2:
		if n >= 1 {
			return new(big.Int).Lsh(big.NewInt(1), uint(n-1))
		}
		return big.NewInt(0)
	case 3:
		if n >= 1 {
			return big.NewInt(1)
		}
		return big.NewInt(0)
	}
	raw := c.Content(label+".v", (n+7)/8)
	x := new(big.Int).SetBytes(raw)
	return x.And(x, max)
}

func drawBigS(c *core.Ctx, label string, n int) *big.Int {
	u := drawBigU(c, label, n)
	// reinterpret as two's complement
	if n > 0 && u.Bit(n-1) == 1 {
		u.Sub(u, new(big.Int).Lsh(big.NewInt(1), uint(n)))
	}
	return u
}

// scribble writes into a bit string that a read operation handed out (growing it, as Append does) and overwrites
// what it held; the source it was read from must not change.
func scribble(piece *boc.BitString) {
	junk := boc.NewBitString(24)
	junk.WriteUint(0xa5c33c, 24)
	piece.Append(junk)
	piece.WriteBit(true)
}

var seqCheck = &core.Check{Name: "c06/sequence", Quick: 40000, Thorough: 4000000, Hang: caseHang, Fn: func(c *core.Ctx) error {
	useCell := c.Bool("cell")
	capacity := 1023
	var tg target
	var cell *boc.Cell
	var bsv boc.BitString
	if useCell {
		cell = boc.NewCell()
		tg = cellTarget{cell}
	} else {
		switch c.Weighted("cap.kind", 2, 3) {
		case 0:
			capacity = c.OneOf("cap.b", 0, 1, 7, 8, 9, 63, 64, 65, 1022, 1023, 1024, 1100)
		default:
			capacity = c.Range("cap", 0, 1100)
		}
		bsv = boc.NewBitString(capacity)
		tg = bsTarget{&bsv}
	}
	c.Note("cell", useCell)
	c.Note("capacity", capacity)
	var model ref.Bits
	var ops []string
	defer func() { c.Note("ops", ops) }()

	verifyPrefix := func() error {
		// read back the model's bits one by one through a copy of the raw bit string
		var raw boc.BitString
		if useCell {
			raw = cell.RawBitString()
		} else {
			raw = bsv
		}
		raw.ResetCounter()
		for i, want := range model {
			got, err := raw.ReadBit()
			if err != nil {
				return fmt.Errorf("bit %d of %d previously written bits unreadable: %v", i, len(model), err)
			}
			if got != want {
				return fmt.Errorf("previously written bit %d changed", i)
			}
		}
		return nil
	}

	nWrites := c.Range("nwrites", 0, 30)
	writes, oddWidth := 0, false
	overflowed := false
	for i := 0; i < nWrites && !overflowed; i++ {
		var add ref.Bits
		var err error
		var desc string
		switch c.Choose("wop", 11) {
		case 0:
			b := c.Bool("bit")
			add = ref.Bits{b}
			desc = fmt.Sprintf("WriteBit(%v)", b)
			err = tg.WriteBit(b)
		case 1:
			n := drawWidthBoundary(c, "uw", 64)
			v := drawBigU(c, "uv", n).Uint64()
			add = ref.Bits{}.AppendUint(v, n)
			desc = fmt.Sprintf("WriteUint(%d,%d)", v, n)
			err = tg.WriteUint(v, n)
		case 2:
			n := drawWidthBoundary(c, "iw", 63) + 1
			v := drawBigS(c, "iv", n).Int64()
			add = ref.Bits{}.AppendInt(v, n)
			desc = fmt.Sprintf("WriteInt(%d,%d)", v, n)
			err = tg.WriteInt(v, n)
		case 3:
			n := drawWidthBoundary(c, "buw", 256) + 1
			v := drawBigU(c, "buv", n)
			add = ref.Bits{}.AppendBig(v, n)
			desc = fmt.Sprintf("WriteBigUint(%v,%d)", v, n)
			err = tg.WriteBigUint(v, n)
		case 4:
			n := drawWidthBoundary(c, "biw", 256) + 1
			v := drawBigS(c, "biv", n)
			add = ref.Bits{}.AppendBig(v, n)
			desc = fmt.Sprintf("WriteBigInt(%v,%d)", v, n)
			err = tg.WriteBigInt(v, n)
		case 5:
			p := c.Content("bytes", c.Range("nbytes", 0, 40))
			add = ref.Bits{}.AppendBytes(p)
			desc = fmt.Sprintf("WriteBytes(%x)", p)
			err = tg.WriteBytes(p)
		case 6:
			n := c.Range("unary", 0, 70)
			for j := 0; j < n; j++ {
				add = append(add, true)
			}
			add = append(add, false)
			desc = fmt.Sprintf("WriteUnary(%d)", n)
			err = tg.WriteUnary(uint(n))
		case 7:
			lim := int(c.U64("lim") % (1 << 31))
			if c.Intn("lim.wide", 4) == 0 {
				// the bound is an int: bounds of 2^31 and more are part of the domain
				lim = int(c.OneOf("lim.w", 1<<31-1, 1<<31, 1<<32-1, 1<<32, 1<<32+1, 1<<33+1, 1<<40, 1<<47+12345, 1<<62, 1<<63-1))
			}
			val := 0
			if lim > 0 {
				val = int(c.U64("limv") % (uint64(lim) + 1))
				if c.Intn("limv.top", 3) == 0 {
					val = lim
				}
			}
			add = ref.Bits{}.AppendUint(uint64(val), big.NewInt(int64(lim)).BitLen())
			desc = fmt.Sprintf("WriteLimUint(%d,%d)", val, lim)
			err = tg.WriteLimUint(val, lim)
		case 8:
			n := c.Range("bsn", 0, 300)
			bits := c.Bits("bsbits", n)
			nb := boc.NewBitString(n + c.Intn("bsextra", 9))
			if e := nb.WriteBitArray(bits); e != nil {
				return fmt.Errorf("WriteBitArray of %d bits into a fresh %d-bit string failed: %v", n, n, e)
			}
			if c.Bool("bsread") && n > 0 { // a moved read cursor of the source must not matter
				nb.ReadBit()
			}
			add = ref.Bits(bits)
			desc = fmt.Sprintf("WriteBitString(%d bits)", n)
			err = tg.WriteBitString(nb)
		case 9:
			b := byte(c.Intn("byte", 256))
			add = ref.Bits{}.AppendUint(uint64(b), 8)
			desc = fmt.Sprintf("WriteByte(%d)", b)
			if useCell {
				err = cell.WriteBytes([]byte{b})
			} else {
				err = bsv.WriteByte(b)
			}
		case 10:
			n := c.Range("ban", 0, 100)
			bits := c.Bits("babits", n)
			add = ref.Bits(bits)
			desc = fmt.Sprintf("WriteBitArray(%d bits)", n)
			if useCell {
				nb := boc.NewBitString(n)
				nb.WriteBitArray(bits)
				err = cell.WriteBitString(nb)
			} else {
				err = bsv.WriteBitArray(bits)
			}
		}
		ops = append(ops, desc)
		fits := len(model)+len(add) <= capacity
		if fits {
			if err != nil {
				return fmt.Errorf("%s with %d of %d bits used: unexpected error %v", desc, len(model), capacity, err)
			}
			model = append(model, add...)
			writes++
			if len(add)%8 != 0 {
				oddWidth = true
			}
			if got := tg.BitsAvailableForWrite(); got != capacity-len(model) {
				return fmt.Errorf("after %s: BitsAvailableForWrite=%d want %d", desc, got, capacity-len(model))
			}
		} else {
			c.Class("overflowing write")
			if err == nil {
				return fmt.Errorf("%s with %d of %d bits used: no error although %d bits do not fit", desc, len(model), capacity, len(add))
			}
			if e := verifyPrefix(); e != nil {
				return fmt.Errorf("after the failed %s: %v", desc, e)
			}
			overflowed = true
		}
	}
	if overflowed {
		if writes >= 2 {
			c.NonTrivial(ops)
		}
		return nil
	}

	// refs (cells only)
	var refs []*boc.Cell
	if useCell {
		nrefs := c.Range("nrefs", 0, 5)
		for i := 0; i < nrefs; i++ {
			r := boc.NewCell()
			r.WriteUint(uint64(i+1), 8)
			err := cell.AddRef(r)
			if i < 4 {
				if err != nil {
					return fmt.Errorf("AddRef #%d failed: %v", i+1, err)
				}
				refs = append(refs, r)
			} else {
				c.Class("fifth ref")
				if err == nil {
					return fmt.Errorf("fifth AddRef succeeded")
				}
				if cell.RefsSize() != 4 {
					return fmt.Errorf("after failed fifth AddRef RefsSize=%d", cell.RefsSize())
				}
				for j, want := range refs {
					if cell.Refs()[j] != want {
						return fmt.Errorf("after failed fifth AddRef ref %d changed", j)
					}
				}
			}
		}
	}

	// text form
	var raw boc.BitString
	if useCell {
		raw = cell.RawBitString()
	} else {
		raw = bsv
	}
	if got, want := raw.ToFiftHex(), model.FiftHex(); got != want {
		return fmt.Errorf("ToFiftHex=%q want %q (bits %s)", got, want, model)
	}

	// read phase
	pos := 0
	refPos := 0
	unaligned := false
	nReads := c.Range("nreads", 0, 30)
	rem := func() int { return len(model) - pos }
	// most reads stay inside the written data; one in five may run past the end
	fit := func(n, min int) int {
		if n > rem() && rem() >= min && c.Intn("fit", 5) != 0 {
			return rem()
		}
		return n
	}
	expectErr := func(desc string, err error) error {
		c.Class("read past end")
		if err == nil {
			return fmt.Errorf("%s at cursor %d of %d: no error although not enough bits", desc, pos, len(model))
		}
		// cursor position after a failed read is unspecified: start over
		if useCell {
			cell.ResetCounters()
			refPos = 0
		} else {
			bsv.ResetCounter()
		}
		pos = 0
		return nil
	}
	checkBS := func(desc string, got boc.BitString, want ref.Bits) error {
		gb, err := bitsOf(got)
		if err != nil {
			return fmt.Errorf("%s: result unreadable: %v", desc, err)
		}
		if !gb.Equal(want) {
			return fmt.Errorf("%s: got bits %s want %s", desc, gb, want)
		}
		if h, w := got.ToFiftHex(), want.FiftHex(); h != w {
			return fmt.Errorf("%s: result ToFiftHex=%q want %q", desc, h, w)
		}
		if len(want) <= 1023 {
			nc := boc.NewCellWithBits(got)
			h, err := nc.Hash()
			if err != nil {
				return fmt.Errorf("%s: hash of NewCellWithBits(result): %v", desc, err)
			}
			if w := ref.NewRCell(want, false).ReprHash(); !bytes.Equal(h, w) {
				return fmt.Errorf("%s: NewCellWithBits(result).Hash()=%x, a cell holding the same %d bits hashes to %x", desc, h, len(want), w)
			}
		}
		return nil
	}
	for i := 0; i < nReads; i++ {
		if pos%8 != 0 {
			unaligned = true
		}
		var desc string
		switch c.Choose("rop", 16) {
		case 0:
			desc = "ReadBit"
			got, err := tg.ReadBit()
			if rem() < 1 {
				if e := expectErr(desc, err); e != nil {
					return e
				}
				break
			}
			if err != nil || got != model[pos] {
				return fmt.Errorf("ReadBit at %d: got %v,%v want %v", pos, got, err, model[pos])
			}
			pos++
		case 1, 2:
			n := fit(drawWidthBoundary(c, "ruw", 64), 0)
			pick := c.Bool("pick")
			desc = fmt.Sprintf("ReadUint(%d) pick=%v", n, pick)
			var got uint64
			var err error
			if pick {
				got, err = tg.PickUint(n)
			} else {
				got, err = tg.ReadUint(n)
			}
			if rem() < n {
				if pick {
					// a peek does not move the read position, whether it succeeds or not
					if got := tg.BitsAvailableForRead(); got != rem() {
						return fmt.Errorf("%s at cursor %d of %d: the failed peek changed BitsAvailableForRead from %d to %d", desc, pos, len(model), rem(), got)
					}
				}
				if e := expectErr(desc, err); e != nil {
					return e
				}
				break
			}
			if want := model.Uint(pos, n); err != nil || got != want {
				return fmt.Errorf("%s at %d: got %d,%v want %d", desc, pos, got, err, want)
			}
			if !pick {
				pos += n
			}
		case 3:
			n := fit(drawWidthBoundary(c, "riw", 63)+1, 1)
			desc = fmt.Sprintf("ReadInt(%d)", n)
			got, err := tg.ReadInt(n)
			if rem() < n {
				if e := expectErr(desc, err); e != nil {
					return e
				}
				break
			}
			if want := model.Int(pos, n); err != nil || got != want {
				return fmt.Errorf("%s at %d: got %d,%v want %d", desc, pos, got, err, want)
			}
			pos += n
		case 4:
			n := c.Range("rbytes", 0, 40)
			if 8*n > rem() && c.Intn("fit", 5) != 0 {
				n = rem() / 8
			}
			desc = fmt.Sprintf("ReadBytes(%d)", n)
			got, err := tg.ReadBytes(n)
			if rem() < 8*n {
				if e := expectErr(desc, err); e != nil {
					return e
				}
				break
			}
			want := ref.Bits(model[pos : pos+8*n]).Packed()
			if err != nil || !bytes.Equal(got, want) {
				return fmt.Errorf("%s at %d: got %x,%v want %x", desc, pos, got, err, want)
			}
			pos += 8 * n
		case 5:
			n := fit(c.Range("rbits", 0, 300), 0)
			desc = fmt.Sprintf("ReadBits(%d)", n)
			got, err := tg.ReadBits(n)
			if rem() < n {
				if e := expectErr(desc, err); e != nil {
					return e
				}
				break
			}
			if err != nil {
				return fmt.Errorf("%s at %d: %v", desc, pos, err)
			}
			if e := checkBS(fmt.Sprintf("%s at %d", desc, pos), got, model[pos:pos+n]); e != nil {
				return e
			}
			if c.Intn("rbits.scribble", 3) == 0 {
				scribble(&got)
				if e := verifyPrefix(); e != nil {
					return fmt.Errorf("after appending to the bit string returned by %s at %d: the source changed: %v", desc, pos, e)
				}
			}
			pos += n
		case 6:
			n := fit(drawWidthBoundary(c, "rbuw", 257), 0)
			desc = fmt.Sprintf("ReadBigUint(%d)", n)
			got, err := tg.ReadBigUint(n)
			if rem() < n {
				if e := expectErr(desc, err); e != nil {
					return e
				}
				break
			}
			if want := model.BigUint(pos, n); err != nil || got.Cmp(want) != 0 {
				return fmt.Errorf("%s at %d: got %v,%v want %v", desc, pos, got, err, want)
			}
			pos += n
		case 7:
			n := fit(drawWidthBoundary(c, "rbiw", 256)+1, 1)
			desc = fmt.Sprintf("ReadBigInt(%d)", n)
			got, err := tg.ReadBigInt(n)
			if rem() < n {
				if e := expectErr(desc, err); e != nil {
					return e
				}
				break
			}
			if want := model.BigInt(pos, n); err != nil || got.Cmp(want) != 0 {
				return fmt.Errorf("%s at %d: got %v,%v want %v", desc, pos, got, err, want)
			}
			pos += n
		case 8:
			desc = "ReadUnary"
			got, err := tg.ReadUnary()
			j := pos
			for j < len(model) && model[j] {
				j++
			}
			if j >= len(model) {
				if e := expectErr(desc, err); e != nil {
					return e
				}
				break
			}
			if err != nil || int(got) != j-pos {
				return fmt.Errorf("ReadUnary at %d: got %d,%v want %d", pos, got, err, j-pos)
			}
			pos = j + 1
		case 9:
			lim := int(c.U64("rlim") % (1 << 31))
			if c.Intn("rlim.wide", 4) == 0 {
				lim = int(c.OneOf("rlim.w", 1<<31-1, 1<<31, 1<<32-1, 1<<32, 1<<32+1, 1<<33+1, 1<<40, 1<<47+12345, 1<<62, 1<<63-1))
			}
			n := big.NewInt(int64(lim)).BitLen()
			desc = fmt.Sprintf("ReadLimUint(%d)", lim)
			got, err := tg.ReadLimUint(lim)
			if rem() < n {
				if e := expectErr(desc, err); e != nil {
					return e
				}
				break
			}
			if want := model.Uint(pos, n); err != nil || uint64(got) != want {
				return fmt.Errorf("%s at %d: got %d,%v want %d", desc, pos, got, err, want)
			}
			pos += n
		case 10:
			n := fit(c.Range("skip", 0, 100), 0)
			desc = fmt.Sprintf("Skip(%d)", n)
			err := tg.Skip(n)
			if rem() < n {
				if e := expectErr(desc, err); e != nil {
					return e
				}
				break
			}
			if err != nil {
				return fmt.Errorf("%s at %d: %v", desc, pos, err)
			}
			pos += n
		case 11:
			desc = "Reset"
			if useCell {
				cell.ResetCounters()
				refPos = 0
			} else {
				bsv.ResetCounter()
			}
			pos = 0
		case 12:
			desc = "ReadRemainingBits"
			got := tg.ReadRemainingBits()
			if e := checkBS(fmt.Sprintf("%s at %d", desc, pos), got, model[pos:]); e != nil {
				return e
			}
			if c.Intn("rrem.scribble", 3) == 0 {
				scribble(&got)
				if e := verifyPrefix(); e != nil {
					return fmt.Errorf("after appending to the bit string returned by %s at %d: the source changed: %v", desc, pos, e)
				}
			}
			pos = len(model)
		case 13:
			if !useCell {
				desc = "ReadByte"
				got, err := bsv.ReadByte()
				if rem() < 8 {
					if e := expectErr(desc, err); e != nil {
						return e
					}
					break
				}
				if want := byte(model.Uint(pos, 8)); err != nil || got != want {
					return fmt.Errorf("ReadByte at %d: got %d,%v want %d", pos, got, err, want)
				}
				pos += 8
				break
			}
			desc = "NextRef"
			got, err := cell.NextRef()
			if refPos >= len(refs) {
				if err == nil {
					return fmt.Errorf("NextRef #%d of %d: no error", refPos+1, len(refs))
				}
				break
			}
			if err != nil || got != refs[refPos] {
				return fmt.Errorf("NextRef #%d: got %p,%v want %p", refPos+1, got, err, refs[refPos])
			}
			refPos++
		case 14:
			if !useCell {
				desc = "Copy"
				cp := bsv.Copy()
				if e := checkBS("Copy", cp, model); e != nil {
					return e
				}
				break
			}
			desc = "CopyRemaining"
			cp := cell.CopyRemaining()
			if e := checkBS(fmt.Sprintf("CopyRemaining at %d", pos), cp.RawBitString(), model[pos:]); e != nil {
				return e
			}
			if cp.RefsSize() != len(refs)-refPos {
				return fmt.Errorf("CopyRemaining at ref cursor %d of %d: copy has %d refs", refPos, len(refs), cp.RefsSize())
			}
			for j, r := range cp.Refs() {
				if r != refs[refPos+j] {
					return fmt.Errorf("CopyRemaining: ref %d differs", j)
				}
			}
			// the copy is a cell of its own: its references are read from the start, and a reference added
			// to it goes behind the copied ones
			if cp.RefsAvailableForRead() != len(refs)-refPos {
				return fmt.Errorf("CopyRemaining at ref cursor %d of %d: copy reports %d refs available", refPos, len(refs), cp.RefsAvailableForRead())
			}
			for j := refPos; j < len(refs); j++ {
				got, err := cp.NextRef()
				if err != nil || got != refs[j] {
					return fmt.Errorf("CopyRemaining at ref cursor %d of %d: NextRef #%d on the copy gives %p,%v want %p", refPos, len(refs), j-refPos+1, got, err, refs[j])
				}
			}
			if _, err := cp.NextRef(); err == nil {
				return fmt.Errorf("CopyRemaining: NextRef past the copied refs succeeded")
			}
			if cp.RefsSize() < 4 {
				extra := boc.NewCell()
				if err := cp.AddRef(extra); err != nil {
					return fmt.Errorf("CopyRemaining: AddRef on the copy (%d refs): %v", cp.RefsSize(), err)
				}
				rs := cp.Refs()
				if rs[len(rs)-1] != extra {
					return fmt.Errorf("CopyRemaining: a reference added to the copy is not the last one")
				}
			}
			// cursors of the original must be unchanged: checked by the BitsAvailableForRead invariant
			if cell.RefsAvailableForRead() != len(refs)-refPos {
				return fmt.Errorf("CopyRemaining moved the ref cursor")
			}
		case 15:
			desc = "hash"
			if useCell {
				h, err := cell.Hash()
				if err != nil {
					return fmt.Errorf("Hash: %v", err)
				}
				var rr []*ref.RCell
				for j := range refs {
					rr = append(rr, ref.NewRCell(ref.Bits{}.AppendUint(uint64(j+1), 8), false))
				}
				if w := ref.NewRCell(model, false, rr...).ReprHash(); !bytes.Equal(h, w) {
					return fmt.Errorf("Hash with read cursor at %d: %x want %x", pos, h, w)
				}
			}
		}
		ops = append(ops, desc)
		if got := tg.BitsAvailableForRead(); got != rem() {
			return fmt.Errorf("after %s: BitsAvailableForRead=%d want %d", desc, got, rem())
		}
	}
	if writes >= 3 && unaligned && oddWidth {
		c.NonTrivial(ops)
	}
	if useCell {
		c.Class("cell")
	} else {
		c.Class("bitstring")
	}
	return nil
}}

func (t cellTarget) BitsAvailableForRead() int  { return t.Cell.BitsAvailableForRead() }
func (t cellTarget) BitsAvailableForWrite() int { return t.Cell.BitsAvailableForWrite() }

// ---------------------------------------------------------------------------------------------
// enumerated grids

var fixed [3]boc.BitString
var fixedBits [3]ref.Bits

func init() {
	for i := range fixed {
		raw := make([]byte, 128)
		core.NewSplitMix(uint64(1000 + i)).Fill(raw)
		fixedBits[i] = ref.BitsFromBytes(raw, 1023)
		fixed[i] = boc.NewBitString(1023)
		fixed[i].WriteBitArray(fixedBits[i])
	}
}

// tape: string index, offset, width
var gridCheck = &core.Check{Name: "c06/readgrid", Hang: caseHang, Fn: func(c *core.Ctx) error {
	si, off, n := c.Intn("s", 3), c.Intn("off", 1024), c.Intn("width", 65)
	model := fixedBits[si]
	c.Note("string", si)
	c.Note("offset", off)
	c.Note("width", n)
	if off%8 != 0 && n%8 != 0 {
		c.NonTrivial(si, off, n)
	}
	for _, op := range []string{"ReadUint", "PickUint", "ReadInt"} {
		bs := fixed[si].Copy()
		if err := bs.Skip(off); err != nil {
			return fmt.Errorf("Skip(%d): %v", off, err)
		}
		fits := off+n <= 1023
		switch op {
		case "ReadUint", "PickUint":
			var got uint64
			var err error
			if op == "ReadUint" {
				got, err = bs.ReadUint(n)
			} else {
				got, err = bs.PickUint(n)
			}
			if !fits {
				if err == nil {
					return fmt.Errorf("%s(%d) at %d of 1023: no error", op, n, off)
				}
				continue
			}
			if want := model.Uint(off, n); err != nil || got != want {
				return fmt.Errorf("%s(%d) at %d: got %d,%v want %d", op, n, off, got, err, want)
			}
			wantRem := 1023 - off - n
			if op == "PickUint" {
				wantRem = 1023 - off
			}
			if bs.BitsAvailableForRead() != wantRem {
				return fmt.Errorf("%s(%d) at %d: cursor left %d bits want %d", op, n, off, bs.BitsAvailableForRead(), wantRem)
			}
		case "ReadInt":
			if n == 0 {
				continue
			}
			got, err := bs.ReadInt(n)
			if !fits {
				if err == nil {
					return fmt.Errorf("ReadInt(%d) at %d of 1023: no error", n, off)
				}
				continue
			}
			if want := model.Int(off, n); err != nil || got != want {
				return fmt.Errorf("ReadInt(%d) at %d: got %d,%v want %d", n, off, got, err, want)
			}
		}
	}
	return nil
}}

// tape: string index, offset, width (1..257)
var bigGridCheck = &core.Check{Name: "c06/biggrid", Hang: caseHang, Fn: func(c *core.Ctx) error {
	si, off, n := c.Intn("s", 3), c.Intn("off", 1024), c.Intn("width", 258)
	model := fixedBits[si]
	c.Note("string", si)
	c.Note("offset", off)
	c.Note("width", n)
	if n%8 != 0 {
		c.NonTrivial(si, off, n)
	}
	if off+n > 1023 {
		return nil
	}
	bs := fixed[si].Copy()
	bs.Skip(off)
	got, err := bs.ReadBigUint(n)
	if want := model.BigUint(off, n); err != nil || got.Cmp(want) != 0 {
		return fmt.Errorf("ReadBigUint(%d) at %d: got %v,%v want %v", n, off, got, err, want)
	}
	if n >= 1 {
		bs = fixed[si].Copy()
		bs.Skip(off)
		got, err = bs.ReadBigInt(n)
		if want := model.BigInt(off, n); err != nil || got.Cmp(want) != 0 {
			return fmt.Errorf("ReadBigInt(%d) at %d: got %v,%v want %v", n, off, got, err, want)
		}
		// write side: the same value written with WriteBigInt/WriteBigUint gives the same bits
		for _, signed := range []bool{false, true} {
			w := boc.NewBitString(n)
			if signed {
				err = w.WriteBigInt(model.BigInt(off, n), n)
			} else {
				err = w.WriteBigUint(model.BigUint(off, n), n)
			}
			if err != nil {
				return fmt.Errorf("WriteBig(signed=%v) width %d: %v", signed, n, err)
			}
			wb, _ := bitsOf(w)
			if !wb.Equal(model[off : off+n]) {
				return fmt.Errorf("WriteBig(signed=%v) width %d: bits %s want %s", signed, n, wb, ref.Bits(model[off:off+n]))
			}
		}
	}
	return nil
}}

// tape: length, kind(0 = pseudo-random from length, 1 = exact value), value
var hexCheck = &core.Check{Name: "c06/fifthex", Quick: 4000, Thorough: 400000, Hang: caseHang, Fn: func(c *core.Ctx) error {
	n := c.Range("len", 0, 1023)
	var bits ref.Bits
	if c.Intn("kind", 2) == 1 && n <= 10 {
		v := c.Intn("value", 1<<uint(n))
		bits = ref.Bits{}.AppendUint(uint64(v), n)
	} else {
		bits = c.Bits("bits", n)
	}
	c.Note("bits", bits.String())
	if n%4 != 0 {
		c.NonTrivial(bits.String())
	}
	capacity := n + c.Intn("slack", 3)*7
	bs := boc.NewBitString(capacity)
	if err := bs.WriteBitArray(bits); err != nil {
		return err
	}
	text := bs.ToFiftHex()
	if want := bits.FiftHex(); text != want {
		return fmt.Errorf("ToFiftHex=%q want %q", text, want)
	}
	back, err := boc.BitStringFromFiftHex(text)
	if err != nil {
		return fmt.Errorf("BitStringFromFiftHex(%q): %v", text, err)
	}
	bb, err := bitsOf(*back)
	if err != nil || !bb.Equal(bits) {
		return fmt.Errorf("BitStringFromFiftHex(%q) = %s (%v) want %s", text, bb, err, bits)
	}
	js, err := json.Marshal(bs)
	if err != nil {
		return err
	}
	var viaJSON boc.BitString
	if err := json.Unmarshal(js, &viaJSON); err != nil {
		return fmt.Errorf("json %s: %v", js, err)
	}
	jb, err := bitsOf(viaJSON)
	if err != nil || !jb.Equal(bits) {
		return fmt.Errorf("JSON %s parses to %s want %s", js, jb, bits)
	}
	return nil
}}

func TestProp(t *testing.T) {
	t.Run("sequence", func(t *testing.T) { core.Run(t, seqCheck) })
	t.Run("fifthex", func(t *testing.T) { core.Run(t, hexCheck) })
}

func TestEnum(t *testing.T) {
	strs := core.Scale(1, 3)
	core.RunEnum(t, gridCheck, fmt.Sprintf("ReadUint/PickUint/ReadInt: %d fixed 1023-bit strings x offsets 0..1023 x widths 0..64", strs), func(yield func(...uint64) bool) {
		for s := 0; s < strs; s++ {
			for off := 0; off < 1024; off++ {
				for w := 0; w <= 64; w++ {
					if !yield(uint64(s), uint64(off), uint64(w)) {
						return
					}
				}
			}
		}
	})
	offs := core.Scale(16, 1024)
	core.RunEnum(t, bigGridCheck, fmt.Sprintf("ReadBigUint/ReadBigInt/WriteBig*: widths 0..257 x offsets 0..%d", offs-1), func(yield func(...uint64) bool) {
		for off := 0; off < offs; off++ {
			for w := 0; w <= 257; w++ {
				if !yield(0, uint64(off), uint64(w)) {
					return
				}
			}
		}
	})
	core.RunEnum(t, hexCheck, "Fift-hex text form: every bit string of length 0..10, and one pseudo-random string of every length 0..1023", func(yield func(...uint64) bool) {
		for n := 0; n <= 10; n++ {
			for v := 0; v < 1<<uint(n); v++ {
				if !yield(uint64(n), 1, uint64(v), 0) {
					return
				}
			}
		}
		for n := 0; n <= 1023; n++ {
			// len, kind=0, Content kind (3 -> random), seed, slack
			if !yield(uint64(n), 0, 3+3, uint64(n)*7919+1, uint64(n%3)) {
				return
			}
		}
	})
}

func TestReplay(t *testing.T) {
	core.Replay(t, seqCheck, gridCheck, bigGridCheck, hexCheck, treeCheck, appendCheck, appendGridCheck, parsedCheck)
}
