// C06, second part: cell trees that are walked more than once (reference cursors of the children) and the
// growing nested-bit-string write (BitString.Append / WriteBitString with sources whose read cursor is anywhere).
package c06

import (
	"bytes"
	"fmt"
	"testing"

	"github.com/tonkeeper/tongo/boc"

	"verifharness/internal/core"
	"verifharness/internal/ref"
)

// reader is what a walk needs from a bit string or a cell.
type reader interface {
	ReadBit() (bool, error)
	ReadUint(int) (uint64, error)
	ReadBits(int) (boc.BitString, error)
	Skip(int) error
	BitsAvailableForRead() int
}

// sameBits compares a bit string handed out by the library with the ideal bit list: bit by bit, as text and
// (when it fits a cell) through the hash of a cell holding it.
func sameBits(desc string, got boc.BitString, want ref.Bits) error {
	gb, err := bitsOf(got)
	if err != nil {
		return fmt.Errorf("%s: result unreadable: %v", desc, err)
	}
	if !gb.Equal(want) {
		return fmt.Errorf("%s: holds %d bits %s, want %d bits %s", desc, len(gb), gb, len(want), want)
	}
	if h, w := got.ToFiftHex(), want.FiftHex(); h != w {
		return fmt.Errorf("%s: ToFiftHex=%q want %q", desc, h, w)
	}
	if len(want) <= 1023 {
		h, err := boc.NewCellWithBits(got).Hash()
		if err != nil {
			return fmt.Errorf("%s: hash of NewCellWithBits(result): %v", desc, err)
		}
		if w := ref.NewRCell(want, false).ReprHash(); !bytes.Equal(h, w) {
			return fmt.Errorf("%s: NewCellWithBits(result).Hash()=%x, a cell holding the same %d bits hashes to %x", desc, h, len(want), w)
		}
	}
	return nil
}

// readChunk reads exactly n bits (n <= what is left) at *pos with a drawn primitive and compares with the model.
func readChunk(c *core.Ctx, r reader, model ref.Bits, pos *int, n int, what string) error {
	kind := c.Choose("chunk.kind", 4)
	if n > 64 && (kind == 0 || kind == 2) {
		kind = 1
	}
	switch kind {
	case 0:
		got, err := r.ReadUint(n)
		if want := model.Uint(*pos, n); err != nil || got != want {
			return fmt.Errorf("%s: ReadUint(%d) at bit %d of %d: got %d,%v want %d", what, n, *pos, len(model), got, err, want)
		}
	case 1:
		got, err := r.ReadBits(n)
		if err != nil {
			return fmt.Errorf("%s: ReadBits(%d) at bit %d of %d: %v", what, n, *pos, len(model), err)
		}
		gb, err := bitsOf(got)
		if err != nil || !gb.Equal(model[*pos:*pos+n]) {
			return fmt.Errorf("%s: ReadBits(%d) at bit %d of %d: got %s (%v) want %s", what, n, *pos, len(model), gb, err, ref.Bits(model[*pos:*pos+n]))
		}
	case 2:
		for i := 0; i < n; i++ {
			got, err := r.ReadBit()
			if err != nil || got != model[*pos+i] {
				return fmt.Errorf("%s: ReadBit at bit %d of %d: got %v,%v want %v", what, *pos+i, len(model), got, err, model[*pos+i])
			}
		}
	case 3:
		if err := r.Skip(n); err != nil {
			return fmt.Errorf("%s: Skip(%d) at bit %d of %d: %v", what, n, *pos, len(model), err)
		}
	}
	*pos += n
	if got := r.BitsAvailableForRead(); got != len(model)-*pos {
		return fmt.Errorf("%s: after reading up to bit %d of %d: BitsAvailableForRead=%d want %d", what, *pos, len(model), got, len(model)-*pos)
	}
	return nil
}

// readRest reads everything from *pos to the end in drawn chunks, then one bit more (which must fail).
func readRest(c *core.Ctx, r reader, model ref.Bits, pos *int, what string) error {
	for *pos < len(model) {
		rem := len(model) - *pos
		n := rem
		switch c.Weighted("rest.kind", 2, 2, 1) {
		case 1:
			if rem > 64 {
				n = 64
			}
			n = c.Range("rest.n", 1, n)
		case 2:
			n = c.Range("rest.m", 1, rem)
		}
		if err := readChunk(c, r, model, pos, n, what); err != nil {
			return err
		}
	}
	if _, err := r.ReadBit(); err == nil {
		return fmt.Errorf("%s: ReadBit after all %d bits were read: no error", what, len(model))
	}
	return nil
}

// ---------------------------------------------------------------------------------------------
// trees walked more than once

// mnode is the ideal cell: a bit list, an ordered list of children, and the two read positions.
type mnode struct {
	id     int
	bits   ref.Bits
	kids   []*mnode
	height int
	cell   *boc.Cell
	pos    int // bits read so far
	rp     int // references taken so far
	handed int // how often NextRef handed this cell out
	rc     *ref.RCell
}

func (m *mnode) rcell() *ref.RCell {
	if m.rc == nil {
		var rr []*ref.RCell
		for _, k := range m.kids {
			rr = append(rr, k.rcell())
		}
		m.rc = ref.NewRCell(m.bits, false, rr...)
	}
	return m.rc
}

type treeBuilder struct {
	c      *core.Ctx
	pool   []*mnode
	budget int
	ids    int
}

func (b *treeBuilder) build(height int, into *boc.Cell) (*mnode, error) {
	c := b.c
	b.budget--
	b.ids++
	m := &mnode{id: b.ids, cell: into}
	if m.cell == nil {
		m.cell = boc.NewCell()
	}
	n := 0
	switch c.Weighted("t.bits.kind", 3, 3, 2, 1) {
	case 1:
		n = c.Range("t.bits.small", 1, 16)
	case 2:
		n = c.Range("t.bits", 0, 300)
	case 3:
		n = c.OneOf("t.bits.big", 1022, 1023)
	}
	m.bits = ref.Bits(c.Bits("t.content", n))
	if n >= 8 { // make the cells of one tree different from each other
		for i := 0; i < 8; i++ {
			m.bits[i] = m.id>>(7-uint(i))&1 == 1
		}
	}
	writeBits := func() error {
		nb := boc.NewBitString(n)
		if err := nb.WriteBitArray(m.bits); err != nil {
			return fmt.Errorf("building cell %d: WriteBitArray of %d bits: %v", m.id, n, err)
		}
		if err := m.cell.WriteBitString(nb); err != nil {
			return fmt.Errorf("building cell %d: WriteBitString of %d bits into an empty cell: %v", m.id, n, err)
		}
		return nil
	}
	bitsFirst := c.Bool("t.bitsfirst")
	if bitsFirst {
		if err := writeBits(); err != nil {
			return nil, err
		}
	}
	nk := 0
	if height > 0 && b.budget > 0 {
		nk = c.Weighted("t.kids", 1, 3, 3, 1, 2)
	}
	for i := 0; i < nk; i++ {
		var shareable []*mnode
		for _, p := range b.pool {
			if p.height < height {
				shareable = append(shareable, p)
			}
		}
		var k *mnode
		switch {
		case len(shareable) > 0 && c.Intn("t.share", 5) == 0:
			// the same cell below two parents (or twice below one)
			k = shareable[c.Choose("t.share.which", len(shareable))]
			if err := m.cell.AddRef(k.cell); err != nil {
				return nil, fmt.Errorf("building cell %d: AddRef #%d: %v", m.id, i+1, err)
			}
		case b.budget <= 0:
			continue
		case c.Bool("t.newref"):
			kc, err := m.cell.NewRef()
			if err != nil {
				return nil, fmt.Errorf("building cell %d: NewRef #%d: %v", m.id, i+1, err)
			}
			if k, err = b.build(c.Range("t.h", 0, height-1), kc); err != nil {
				return nil, err
			}
		default:
			var err error
			if k, err = b.build(c.Range("t.h", 0, height-1), nil); err != nil {
				return nil, err
			}
			if err := m.cell.AddRef(k.cell); err != nil {
				return nil, fmt.Errorf("building cell %d: AddRef #%d: %v", m.id, i+1, err)
			}
		}
		m.kids = append(m.kids, k)
		if k.height+1 > m.height {
			m.height = k.height + 1
		}
	}
	if !bitsFirst {
		if err := writeBits(); err != nil {
			return nil, err
		}
	}
	b.pool = append(b.pool, m)
	return m, nil
}

const (
	modeRandom = iota
	modeRefsOnly
	modeBitsFirst
	modeRefsFirst
)

var modeNames = []string{"random", "refs-only", "bits-then-refs", "refs-then-bits"}

type walker struct {
	c       *core.Ctx
	budget  int
	hashes  int
	log     []string
	revisit bool // a child with children was handed out a second time
	stale   bool // ... and its previous visit took references without reading a bit
}

func (w *walker) logf(format string, a ...any) {
	if len(w.log) < 400 {
		w.log = append(w.log, fmt.Sprintf(format, a...))
	}
}

func (w *walker) drawMode() int { return w.c.Weighted("w.mode", 5, 3, 1, 2) }

// state compares the two read positions of a cell with the model.
func state(cell *boc.Cell, m *mnode, when string) error {
	if got, want := cell.BitsAvailableForRead(), len(m.bits)-m.pos; got != want {
		return fmt.Errorf("%s: cell %d (%d bits, %d refs): BitsAvailableForRead=%d want %d", when, m.id, len(m.bits), len(m.kids), got, want)
	}
	if got, want := cell.RefsAvailableForRead(), len(m.kids)-m.rp; got != want {
		return fmt.Errorf("%s: cell %d (%d bits, %d refs, %d taken): RefsAvailableForRead=%d want %d", when, m.id, len(m.bits), len(m.kids), m.rp, got, want)
	}
	return nil
}

// nextRef takes the next reference of the cell; the child comes back positioned at its start.
func (w *walker) nextRef(cell *boc.Cell, m *mnode, path string) (*boc.Cell, *mnode, error) {
	got, err := cell.NextRef()
	if m.rp >= len(m.kids) {
		w.logf("%s.NextRef!", path)
		if err == nil {
			return nil, nil, fmt.Errorf("%s: NextRef #%d on cell %d with %d refs: no error", path, m.rp+1, m.id, len(m.kids))
		}
		return nil, nil, nil
	}
	k := m.kids[m.rp]
	w.logf("%s.NextRef->%d", path, k.id)
	if err != nil {
		return nil, nil, fmt.Errorf("%s: NextRef #%d of %d on cell %d (handed out %d times before, %d of its %d bits read): %v", path, m.rp+1, len(m.kids), m.id, m.handed, m.pos, len(m.bits), err)
	}
	if got != k.cell {
		return nil, nil, fmt.Errorf("%s: NextRef #%d of %d on cell %d: not the reference that was added at this place", path, m.rp+1, len(m.kids), m.id)
	}
	m.rp++
	if len(k.kids) > 0 && k.handed > 0 {
		w.revisit = true
		if k.rp > 0 && k.pos == 0 {
			w.stale = true
		}
	}
	k.handed++
	k.pos, k.rp = 0, 0
	if err := state(got, k, fmt.Sprintf("%s: child #%d just handed out by NextRef (time %d)", path, m.rp, k.handed)); err != nil {
		return nil, nil, err
	}
	return got, k, nil
}

func (w *walker) visit(cell *boc.Cell, m *mnode, mode int, path string) error {
	c := w.c
	w.budget--
	if w.budget <= 0 {
		return nil
	}
	if err := state(cell, m, path+": on entry"); err != nil {
		return err
	}
	allBits := func() error {
		w.logf("%s.bits", path)
		return readRest(c, cell, m.bits, &m.pos, fmt.Sprintf("%s (cell %d)", path, m.id))
	}
	allRefs := func() error {
		for m.rp < len(m.kids) {
			kc, k, err := w.nextRef(cell, m, path)
			if err != nil {
				return err
			}
			if err := w.visit(kc, k, mode, fmt.Sprintf("%s/%d", path, m.rp)); err != nil {
				return err
			}
		}
		if _, _, err := w.nextRef(cell, m, path); err != nil {
			return err
		}
		return nil
	}
	switch mode {
	case modeRefsOnly:
		if err := allRefs(); err != nil {
			return err
		}
	case modeBitsFirst:
		if err := allBits(); err != nil {
			return err
		}
		if err := allRefs(); err != nil {
			return err
		}
	case modeRefsFirst:
		if err := allRefs(); err != nil {
			return err
		}
		if err := allBits(); err != nil {
			return err
		}
	default:
		nops := c.Range("w.nops", 0, 10)
		for i := 0; i < nops && w.budget > 0; i++ {
			w.budget--
			switch c.Weighted("w.op", 3, 6, 1, 1, 1) {
			case 0: // bits
				rem := len(m.bits) - m.pos
				n := c.Range("w.n", 0, 70)
				if n > rem && c.Intn("w.fit", 6) != 0 {
					n = c.Range("w.n.fit", 0, rem)
				}
				if n > rem {
					w.logf("%s.read(%d)!", path, n)
					var err error
					if n <= 64 && c.Bool("w.over.uint") {
						_, err = cell.ReadUint(n)
					} else {
						_, err = cell.ReadBits(n)
					}
					if err == nil {
						return fmt.Errorf("%s: read of %d bits at bit %d of %d of cell %d: no error", path, n, m.pos, len(m.bits), m.id)
					}
					// the position after a failed read is unspecified: start the cell over
					cell.ResetCounters()
					m.pos, m.rp = 0, 0
					break
				}
				w.logf("%s.read(%d)", path, n)
				if err := readChunk(c, cell, m.bits, &m.pos, n, fmt.Sprintf("%s (cell %d)", path, m.id)); err != nil {
					return err
				}
			case 1: // next reference, and most of the time what is below it
				kc, k, err := w.nextRef(cell, m, path)
				if err != nil {
					return err
				}
				if k != nil && c.Intn("w.descend", 5) != 0 {
					if err := w.visit(kc, k, w.drawMode(), fmt.Sprintf("%s/%d", path, m.rp)); err != nil {
						return err
					}
				}
			case 2:
				w.logf("%s.Reset", path)
				cell.ResetCounters()
				m.pos, m.rp = 0, 0
			case 3: // the remainder as a cell of its own, walked while the original waits
				w.logf("%s.CopyRemaining", path)
				cp := cell.CopyRemaining()
				cm := &mnode{id: m.id, bits: m.bits[m.pos:], kids: m.kids[m.rp:], cell: cp}
				if err := state(cell, m, path+": after CopyRemaining, the original"); err != nil {
					return err
				}
				if err := w.visit(cp, cm, w.drawMode(), path+"+copy"); err != nil {
					return err
				}
				if err := state(cell, m, path+": after walking its CopyRemaining, the original"); err != nil {
					return err
				}
			case 4: // the hash does not depend on what was read
				if w.hashes <= 0 {
					break
				}
				w.hashes--
				w.logf("%s.Hash", path)
				h, err := cell.Hash()
				if err != nil {
					return fmt.Errorf("%s: Hash of cell %d: %v", path, m.id, err)
				}
				if want := m.rcell().ReprHash(); !bytes.Equal(h, want) {
					return fmt.Errorf("%s: Hash of cell %d with %d bits and %d refs read: %x want %x", path, m.id, m.pos, m.rp, h, want)
				}
			}
			last := "the last step"
			if len(w.log) > 0 {
				last = w.log[len(w.log)-1]
			}
			if err := state(cell, m, fmt.Sprintf("%s: after %s", path, last)); err != nil {
				return err
			}
		}
	}
	return nil
}

var treeCheck = &core.Check{Name: "c06/treewalk", Quick: 12000, Thorough: 1200000, Hang: caseHang, Fn: func(c *core.Ctx) error {
	height := c.Weighted("height", 1, 1, 6, 4, 2)
	b := &treeBuilder{c: c, budget: 40}
	root, err := b.build(height, nil)
	if err != nil {
		return err
	}
	shape := make([]string, 0, len(b.pool))
	for _, m := range b.pool {
		s := fmt.Sprintf("%d:%db", m.id, len(m.bits))
		for _, k := range m.kids {
			s += fmt.Sprintf(",%d", k.id)
		}
		shape = append(shape, s)
	}
	c.Note("cells (id:bits,children)", shape)
	c.Note("root", root.id)
	w := &walker{c: c, hashes: 2}
	defer func() { c.Note("walk", w.log) }()

	cell, m := root.cell, root
	npass := c.Range("npass", 1, 5)
	for p := 0; p < npass; p++ {
		switch c.Weighted("pass.start", 6, 1, 2, 1) {
		case 0:
			w.logf("pass %d: ResetCounters", p+1)
			cell.ResetCounters()
			m.pos, m.rp = 0, 0
		case 1:
			w.logf("pass %d: continue", p+1)
		case 2:
			w.logf("pass %d: ResetCounters, CopyRemaining", p+1)
			cell.ResetCounters()
			m.pos, m.rp = 0, 0
			cell = cell.CopyRemaining()
			m = &mnode{id: m.id, bits: m.bits, kids: m.kids, cell: cell}
		case 3:
			w.logf("pass %d: CopyRemaining", p+1)
			cell = cell.CopyRemaining()
			m = &mnode{id: m.id, bits: m.bits[m.pos:], kids: m.kids[m.rp:], cell: cell}
		}
		mode := w.drawMode()
		w.logf("pass %d: %s", p+1, modeNames[mode])
		w.budget = 300
		if err := w.visit(cell, m, mode, "r"); err != nil {
			return fmt.Errorf("pass %d of %d (%s): %v", p+1, npass, modeNames[mode], err)
		}
	}
	if c.Bool("final.hash") {
		h, err := root.cell.Hash()
		if err != nil {
			return fmt.Errorf("Hash of the root after %d passes: %v", npass, err)
		}
		if want := root.rcell().ReprHash(); !bytes.Equal(h, want) {
			return fmt.Errorf("Hash of the root after %d passes: %x want %x", npass, h, want)
		}
	}
	if root.height >= 2 {
		c.Class("height >= 2")
	}
	if w.revisit {
		c.Class("a child with children handed out again")
	}
	if w.stale {
		c.Class("a child handed out again after a visit that took its references and read none of its bits")
	}
	if root.height >= 2 && npass >= 2 && w.revisit {
		c.NonTrivial(shape, w.log)
	}
	return nil
}}

// ---------------------------------------------------------------------------------------------
// Append / WriteBitString with sources whose read cursor is anywhere

// fillBits gives n content bits that depend on the salt only (enumerated cases).
func fillBits(salt uint64, n int) ref.Bits {
	raw := make([]byte, (n+7)/8+8)
	core.NewSplitMix(salt).Fill(raw)
	return ref.BitsFromBytes(raw, n)
}

// makeSource builds a bit string holding bits whose read cursor stands at k, in one of several ways.
// It returns the cell the bit string belongs to (kind 1) so that the caller can see that it is left alone.
func makeSource(kind int, bits ref.Bits, k, extra int) (boc.BitString, *boc.Cell, error) {
	n := len(bits)
	plain := boc.NewBitString(n + extra)
	if err := plain.WriteBitArray(bits); err != nil {
		return boc.BitString{}, nil, fmt.Errorf("source: WriteBitArray of %d bits into a %d-bit string: %v", n, n+extra, err)
	}
	var src boc.BitString
	var cell *boc.Cell
	switch kind {
	case 0: // written, then partly read; the variable it was copied from (same buffer) is written to afterwards,
		// so the buffer holds one-bits behind the end of the copy
		src = plain
		if extra > 0 {
			_ = plain.WriteUint(1<<uint(extra)-1, extra)
		}
	case 1: // the bits of a cell that has been read from (n <= 1023)
		cell = boc.NewCell()
		if err := cell.WriteBitString(plain); err != nil {
			return boc.BitString{}, nil, fmt.Errorf("source: WriteBitString of %d bits into an empty cell: %v", n, err)
		}
		if err := cell.Skip(k); err != nil {
			return boc.BitString{}, nil, fmt.Errorf("source: Skip(%d) on a cell of %d bits: %v", k, n, err)
		}
		return cell.RawBitString(), cell, nil
	case 2: // handed out by ReadBits at an unaligned place of a longer string
		long := boc.NewBitString(n + 3 + extra)
		long.WriteUint(5, 3)
		long.WriteBitArray(bits)
		long.WriteUint(0xff, extra)
		long.Skip(3)
		var err error
		if src, err = long.ReadBits(n); err != nil {
			return boc.BitString{}, nil, fmt.Errorf("source: ReadBits(%d) at 3 of %d: %v", n, n+3+extra, err)
		}
	case 3: // handed out by ReadRemainingBits at an aligned place
		long := boc.NewBitString(n + 8)
		long.WriteUint(0xa5, 8)
		long.WriteBitArray(bits)
		long.Skip(8)
		src = long.ReadRemainingBits()
	case 4: // parsed from text
		p, err := boc.BitStringFromFiftHex(bits.FiftHex())
		if err != nil {
			return boc.BitString{}, nil, fmt.Errorf("source: BitStringFromFiftHex(%q): %v", bits.FiftHex(), err)
		}
		src = *p
	}
	if err := src.Skip(k); err != nil {
		return boc.BitString{}, nil, fmt.Errorf("source (kind %d): Skip(%d) on %d bits: %v", kind, k, n, err)
	}
	return src, nil, nil
}

var sourceNames = []string{"written", "Cell.RawBitString", "ReadBits result", "ReadRemainingBits result", "parsed from Fift hex", "the destination itself"}

// appendStep performs one Append or WriteBitString of a source with read cursor k and compares with the model.
// It returns the new model, and done=true after a write that (rightly) did not fit.
func appendStep(dst *boc.BitString, model ref.Bits, dpos int, useAppend bool, srcKind int, bits ref.Bits, k, extra int) (ref.Bits, bool, error) {
	var src boc.BitString
	var cell *boc.Cell
	if srcKind == 5 {
		bits = model.Clone()
		src = *dst
		k = dpos
	} else {
		var err error
		if src, cell, err = makeSource(srcKind, bits, k, extra); err != nil {
			return nil, false, err
		}
	}
	n := len(bits)
	avail := dst.BitsAvailableForWrite()
	op := "WriteBitString"
	if useAppend {
		op = "Append"
	}
	desc := fmt.Sprintf("%s(%d bits, %s, %d of them read before) onto %d bits with room for %d more", op, n, sourceNames[srcKind], k, len(model), avail)
	if src.BitsAvailableForRead() != n-k {
		return nil, false, fmt.Errorf("%s: the source reports %d unread bits before the call, want %d", desc, src.BitsAvailableForRead(), n-k)
	}
	var err error
	if useAppend {
		dst.Append(src)
	} else {
		err = dst.WriteBitString(src)
	}
	// the source is left alone
	if srcKind != 5 {
		if got := src.BitsAvailableForRead(); got != n-k {
			return nil, false, fmt.Errorf("%s: the source has %d unread bits afterwards, had %d", desc, got, n-k)
		}
		if sb, e := bitsOf(src); e != nil || !sb.Equal(bits) {
			return nil, false, fmt.Errorf("%s: the source holds %s afterwards (%v), held %s", desc, sb, e, bits)
		}
		if cell != nil && cell.BitsAvailableForRead() != n-k {
			return nil, false, fmt.Errorf("%s: the cell the source came from has %d unread bits afterwards, had %d", desc, cell.BitsAvailableForRead(), n-k)
		}
	}
	if !useAppend && n > avail {
		if err == nil {
			return nil, false, fmt.Errorf("%s: no error although %d bits do not fit", desc, n)
		}
		raw := *dst
		raw.ResetCounter()
		for i, want := range model {
			got, e := raw.ReadBit()
			if e != nil {
				return nil, false, fmt.Errorf("after the failed %s: bit %d of %d previously written bits unreadable: %v", desc, i, len(model), e)
			}
			if got != want {
				return nil, false, fmt.Errorf("after the failed %s: previously written bit %d changed", desc, i)
			}
		}
		return model, true, nil
	}
	if err != nil {
		return nil, false, fmt.Errorf("%s: unexpected error %v", desc, err)
	}
	model = append(model.Clone(), bits...)
	if got := dst.GetWriteCursor(); got != len(model) {
		return nil, false, fmt.Errorf("%s: the destination holds %d bits afterwards, want %d (%s)", desc, got, len(model), dst.ToFiftHex())
	}
	if got := dst.BitsAvailableForRead(); got != len(model)-dpos {
		return nil, false, fmt.Errorf("%s: the destination has %d unread bits afterwards, want %d", desc, got, len(model)-dpos)
	}
	if got := dst.BitsAvailableForWrite(); got < 0 || (!useAppend && got != avail-n) {
		return nil, false, fmt.Errorf("%s: BitsAvailableForWrite=%d afterwards", desc, got)
	}
	return model, false, nil
}

// makeDest builds a destination of the given kind holding exactly the given bits.
func makeDest(kind, capacity int, bits ref.Bits) (boc.BitString, error) {
	switch kind {
	case 1: // zero value (only without bits)
		return boc.BitString{}, nil
	case 2: // handed out by ReadBits: exactly full
		long := boc.NewBitString(len(bits) + 5)
		long.WriteUint(9, 5)
		long.WriteBitArray(bits)
		long.Skip(5)
		return long.ReadBits(len(bits))
	case 3: // parsed from text: exactly full
		p, err := boc.BitStringFromFiftHex(bits.FiftHex())
		if err != nil {
			return boc.BitString{}, err
		}
		return *p, nil
	}
	d := boc.NewBitString(capacity)
	if err := d.WriteBitArray(bits); err != nil {
		return boc.BitString{}, fmt.Errorf("destination: WriteBitArray of %d bits into a fresh %d-bit string: %v", len(bits), capacity, err)
	}
	if kind == 4 {
		return d.Copy(), nil
	}
	return d, nil
}

var destNames = []string{"NewBitString", "zero value", "ReadBits result", "parsed from Fift hex", "Copy"}

var appendCheck = &core.Check{Name: "c06/append", Quick: 12000, Thorough: 1200000, Hang: caseHang, Fn: func(c *core.Ctx) error {
	dkind := c.Weighted("dst.kind", 8, 1, 1, 1, 1)
	capacity := 0
	switch c.Weighted("cap.kind", 2, 3) {
	case 0:
		capacity = c.OneOf("cap.b", 0, 1, 7, 8, 9, 15, 16, 17, 63, 64, 65, 1023)
	default:
		capacity = c.Range("cap", 0, 400)
	}
	fill := 0
	switch c.Weighted("fill.kind", 1, 4, 3, 1) {
	case 1:
		fill = capacity // exactly full
	case 2:
		fill = c.Range("fill", 0, capacity)
	case 3:
		if capacity > 0 {
			fill = capacity - 1
		}
	}
	if dkind == 1 {
		capacity, fill = 0, 0
	}
	model := ref.Bits(c.Bits("dst.bits", fill))
	dst, err := makeDest(dkind, capacity, model)
	if err != nil {
		return err
	}
	c.Note("destination", fmt.Sprintf("%s, capacity %d, %d bits written", destNames[dkind], capacity, fill))
	dpos := 0
	if c.Bool("dst.read") {
		if err := readChunk(c, &dst, model, &dpos, c.Range("dst.read.n", 0, fill), "destination before the first write"); err != nil {
			return err
		}
	}
	var ops []string
	defer func() { c.Note("ops", ops) }()
	nops := c.Range("nops", 1, 6)
	grown, movedCursor := 0, 0
	for i := 0; i < nops; i++ {
		useAppend := c.Weighted("op", 3, 2) == 0
		srcKind := c.Weighted("src.kind", 4, 3, 2, 1, 1, 1)
		n := 0
		switch c.Weighted("src.n.kind", 5, 1, 1) {
		case 0:
			n = c.Range("src.n", 0, 200)
		case 1:
			n = c.Range("src.n.long", 0, 1023)
		case 2: // exactly what fits, one more, one less
			n = dst.BitsAvailableForWrite() + c.Range("src.n.fit", -1, 1)
			if n < 0 || n > 1023 {
				n = 0
			}
		}
		if !useAppend && n > dst.BitsAvailableForWrite() && c.Intn("src.n.over", 4) != 0 {
			n = c.Range("src.n.room", 0, dst.BitsAvailableForWrite()) // most plain writes fit
		}
		k := 0
		switch c.Weighted("src.k.kind", 1, 1, 4) {
		case 1:
			k = n
		case 2:
			k = c.Range("src.k", 0, n)
		}
		bits := ref.Bits(c.Bits("src.bits", n))
		extra := c.Intn("src.extra", 9)
		avail := dst.BitsAvailableForWrite()
		if srcKind == 5 {
			n, k = len(model), dpos
			if n > 3000 {
				srcKind = 0
				n, k, bits = 0, 0, nil
			}
		}
		ops = append(ops, fmt.Sprintf("%s(%d bits, %s, cursor %d) room %d", map[bool]string{true: "Append", false: "WriteBitString"}[useAppend], n, sourceNames[srcKind], k, avail))
		var done bool
		model, done, err = appendStep(&dst, model, dpos, useAppend, srcKind, bits, k, extra)
		if err != nil {
			return fmt.Errorf("write %d of %d: %v", i+1, nops, err)
		}
		if done {
			c.Class("overflowing WriteBitString")
			return nil
		}
		if useAppend && n > avail {
			grown++
			if k > 0 {
				movedCursor++
			}
		}
		if c.Intn("between", 3) == 0 && dpos < len(model) { // consume a little before the next write
			if err := readChunk(c, &dst, model, &dpos, c.Range("between.n", 0, len(model)-dpos), fmt.Sprintf("destination after write %d", i+1)); err != nil {
				return err
			}
		}
	}
	if err := sameBits(fmt.Sprintf("the destination after %d writes", nops), dst, model); err != nil {
		return err
	}
	if err := readRest(c, &dst, model, &dpos, fmt.Sprintf("destination after %d writes", nops)); err != nil {
		return err
	}
	if grown > 0 {
		c.Class("Append had to grow the destination")
	}
	if movedCursor > 0 {
		c.Class("Append had to grow the destination, source partly read")
		c.NonTrivial(ops, model.String())
	}
	return nil
}}

// tape: capacity, bits written, source length, source cursor
var appendGridCheck = &core.Check{Name: "c06/appendgrid", Hang: caseHang, Fn: func(c *core.Ctx) error {
	capacity := c.Intn("cap", 18)
	fill := c.Intn("fill", capacity+1)
	n := c.Intn("n", 18)
	k := c.Intn("k", n+1)
	c.Note("capacity", capacity)
	c.Note("written", fill)
	c.Note("source bits", n)
	c.Note("source cursor", k)
	if k > 0 && n > capacity-fill {
		c.NonTrivial(capacity, fill, n, k)
	}
	salt := uint64(capacity)<<24 | uint64(fill)<<16 | uint64(n)<<8 | uint64(k)
	base := fillBits(salt, fill)
	bits := fillBits(salt^0x5bd1e995, n)
	for _, useAppend := range []bool{true, false} {
		for srcKind := 0; srcKind <= 4; srcKind++ {
			for _, dkind := range []int{0, 2} {
				if dkind == 2 && fill != capacity {
					continue
				}
				dst, err := makeDest(dkind, capacity, base)
				if err != nil {
					return err
				}
				model, done, err := appendStep(&dst, base, 0, useAppend, srcKind, bits, k, srcKind%2)
				if err != nil {
					return fmt.Errorf("destination %s: %v", destNames[dkind], err)
				}
				if done {
					continue
				}
				if err := sameBits(fmt.Sprintf("destination (%s, capacity %d, %d bits) after appending %d bits (%s, cursor %d)", destNames[dkind], capacity, fill, n, sourceNames[srcKind], k), dst, model); err != nil {
					return err
				}
			}
		}
	}
	return nil
}}

func TestWalkAppend(t *testing.T) {
	t.Run("treewalk", func(t *testing.T) { core.Run(t, treeCheck) })
	t.Run("append", func(t *testing.T) { core.Run(t, appendCheck) })
	core.RunEnum(t, appendGridCheck, "Append and WriteBitString: destination capacities 0..17 x fill 0..capacity x source lengths 0..17 x source read cursors 0..length, five kinds of source", func(yield func(...uint64) bool) {
		for capacity := 0; capacity < 18; capacity++ {
			for fill := 0; fill <= capacity; fill++ {
				for n := 0; n < 18; n++ {
					for k := 0; k <= n; k++ {
						if !yield(uint64(capacity), uint64(fill), uint64(n), uint64(k)) {
							return
						}
					}
				}
			}
		}
	})
}
