// C06, third part: writes to a cell that came out of the bag-of-cells parser. Such a cell is a cell like any
// other (capacity 1023 bits, 4 references): writes that fit succeed and are read back, a write beyond the
// capacity fails with an error and leaves what was there intact.
package c06

import (
	"bytes"
	"fmt"
	"testing"
	"time"

	"github.com/tonkeeper/tongo/boc"

	"verifharness/internal/core"
	"verifharness/internal/ref"
)

var parsedCheck = &core.Check{Name: "c06/parsed-cell", Quick: 6000, Thorough: 600000, Hang: caseHang, Fn: func(c *core.Ctx) error {
	n := 0
	switch c.Weighted("bits.kind", 3, 3, 1) {
	case 0:
		n = 8 * c.Range("bytes", 0, 127)
	case 1:
		n = c.Range("bits", 0, 1023)
	case 2:
		n = c.OneOf("bits.b", 0, 1, 7, 8, 9, 1015, 1016, 1017, 1022, 1023)
	}
	model := ref.Bits(c.Bits("content", n))
	var kids []*ref.RCell
	for i, k := 0, c.Weighted("refs", 4, 2, 1, 1, 1); i < k; i++ {
		kids = append(kids, ref.NewRCell(ref.Bits{}.AppendUint(uint64(i), 8), false))
	}
	image := ref.NewRCell(model, false, kids...)
	cells, err := boc.DeserializeBoc(ref.SerializeBOC([]*ref.RCell{image}, ref.BocVariant{}))
	if err != nil || len(cells) != 1 {
		return fmt.Errorf("HARNESS: %v", err)
	}
	cell := cells[0]
	if c.Intn("built", 3) == 0 {
		// the same for a cell that was built in memory with exactly these bits and references
		cell = boc.NewCell()
		_ = cell.WriteBitString(bitString(model))
		for i := range kids {
			k := boc.NewCell()
			_ = k.WriteUint(uint64(i), 8)
			_ = cell.AddRef(k)
		}
		c.Class("cell built in memory")
	}
	// a copy taken now (what a decoder keeps of a cell) is a value of its own: it still hashes like the cell
	// did at this moment after the cell was written to
	snap, snapWant := cell.CopyRemaining(), image.ReprHash()
	c.Note("parsed", fmt.Sprintf("%d bits, %d references", n, len(kids)))
	var ops []string
	defer func() { c.Note("ops", ops) }()
	wrote, refused := 0, 0
	for i, nops := 0, c.Range("nops", 1, 8); i < nops; i++ {
		room := 1023 - len(model)
		w := 0
		switch c.Weighted("w.kind", 4, 2, 1, 1) {
		case 0:
			w = c.Range("w", 0, 64)
		case 1:
			w = c.Range("w.long", 0, 300)
		case 2:
			w = room + c.Range("w.fit", -1, 1)
			if w < 0 {
				w = 0
			}
		case 3:
			w = 1
		}
		bits := ref.Bits(c.Bits("w.bits", w))
		var werr error
		kind := c.Choose("w.op", 4)
		if w > 64 && kind == 1 {
			kind = 2
		}
		if perr := core.Protect(func() error {
			switch kind {
			case 0:
				for _, b := range bits {
					if werr = cell.WriteBit(b); werr != nil {
						break
					}
				}
			case 1:
				werr = cell.WriteUint(bits.Uint(0, w), w)
			case 2:
				werr = cell.WriteBitString(bitString(bits))
			case 3:
				if w%8 == 0 {
					werr = cell.WriteBytes(bits.Packed())
				} else {
					werr = cell.WriteBitString(bitString(bits))
				}
			}
			return nil
		}); perr != nil {
			return fmt.Errorf("write %d (%d bits with %s) to a parsed cell of %d bits panicked: %v", i+1, w, []string{"WriteBit", "WriteUint", "WriteBitString", "WriteBytes"}[kind], len(model), perr)
		}
		ops = append(ops, fmt.Sprintf("%s %d bits (room %d): %v", []string{"WriteBit", "WriteUint", "WriteBitString", "WriteBytes"}[kind], w, room, werr))
		switch {
		case w <= room:
			if werr != nil {
				return fmt.Errorf("write %d: %d bits to a parsed cell that holds %d of 1023 bits failed: %v", i+1, w, len(model), werr)
			}
			model = append(model, bits...)
			wrote++
		case werr == nil:
			return fmt.Errorf("write %d: %d bits to a parsed cell that holds %d of 1023 bits returned no error", i+1, w, len(model))
		default:
			refused++
			// what was there stays; the writers work bit by bit and may have stored the bits that fitted
			got := cell.BitSize()
			if got < len(model) || got > 1023 {
				return fmt.Errorf("write %d: refused, but the cell now reports %d bits (had %d)", i+1, got, len(model))
			}
			model = append(model, bits[:got-len(model)]...)
		}
		if cell.BitSize() != len(model) {
			return fmt.Errorf("after write %d the cell reports %d bits, want %d", i+1, cell.BitSize(), len(model))
		}
	}
	for len(kids) < 4 && c.Bool("addref") {
		k := ref.NewRCell(ref.Bits{}.AppendUint(uint64(0xa0+len(kids)), 8), false)
		kc := boc.NewCell()
		_ = kc.WriteUint(uint64(0xa0+len(kids)), 8)
		if err := cell.AddRef(kc); err != nil {
			return fmt.Errorf("AddRef to a parsed cell with %d references: %v", len(kids), err)
		}
		kids = append(kids, k)
	}
	if sh, err := snap.Hash(); err != nil || !bytes.Equal(sh, snapWant) {
		return fmt.Errorf("a copy (CopyRemaining) taken from a cell of %d bits before %d writes to that cell now hashes to %x (%v), it was %x", n, wrote+refused, sh, err, snapWant)
	}
	want := ref.NewRCell(model, false, kids...)
	h, err := cell.Hash()
	if err != nil || !bytes.Equal(h, want.ReprHash()) {
		return fmt.Errorf("after the writes the cell hashes to %x (%v), a cell with these %d bits and %d references hashes to %x", h, err, len(model), len(kids), want.ReprHash())
	}
	cell.ResetCounters()
	pos := 0
	if err := readRest(c, cell, model, &pos, "parsed cell after the writes"); err != nil {
		return err
	}
	if _, err := cell.ReadBit(); err == nil {
		return fmt.Errorf("ReadBit behind the last written bit of a parsed cell returned no error")
	}
	out, err := cell.ToBoc()
	if err != nil {
		return fmt.Errorf("ToBoc after the writes: %v", err)
	}
	if rr, err := ref.ParseBOC(out); err != nil || len(rr) != 1 || !bytes.Equal(rr[0].ReprHash(), want.ReprHash()) {
		return fmt.Errorf("ToBoc after the writes: the reference parser reads another cell (%v)", err)
	}
	if wrote > 0 && n%8 == 0 {
		c.Class("wrote to a parsed cell whose bits ended on a byte boundary")
	}
	if refused > 0 {
		c.Class("write beyond 1023 bits refused")
	}
	if wrote > 0 {
		c.NonTrivial(want.ReprHash())
	}
	return nil
}}

func TestParsed(t *testing.T) { core.Run(t, parsedCheck) }

func bitString(b ref.Bits) boc.BitString {
	s := boc.NewBitString(len(b))
	_ = s.WriteBitArray(b)
	return s
}

// caseHang: every case of this package is a few microseconds of pure computation; a case that is still running
// after a minute does not come to an end (the property's operations return values or errors).
const caseHang = 60 * time.Second
