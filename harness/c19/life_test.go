package c19

import (
	"fmt"
	"testing"
	"time"

	"verifharness/internal/core"
	"verifharness/internal/tcref"
)

// Payload lifetime, measured from the moment of issue.
//
// ageCheck ages a payload that the server issues now without waiting: the payload has a time field F; a
// payload with the same nonce layout and the field F-d under the same secret is what the server would have
// issued d seconds earlier, so for d > lifetime it must be rejected and for d well inside the lifetime it
// must be accepted. Nothing is assumed about what the field means (issue time or expiry time), only that
// the server's clock arithmetic is shift invariant.
var ageCheck = &core.Check{Name: "c19/payload-age", Quick: 3000, Thorough: 150000, Fn: func(c *core.Ctx) error {
	secret := drawSecret(c, "secret")
	lives := []int64{0, 1, 2, 3, 5, 60, 300, 900, 3600, 86400}
	lOpt := lives[c.Choose("lifetime", len(lives))]
	l := effLife(lOpt)
	e := &execDouble{}
	srv, err := newServer(e, secret, 0, lOpt)
	if err != nil {
		return fmt.Errorf("NewTonConnect: %v", err)
	}
	f, fresh, err := freshField(srv, secret)
	if err != nil {
		return err
	}
	if ok, err := srv.CheckPayload(fresh); !ok || err != nil {
		return fmt.Errorf("lifetime %d s: payload %q was refused immediately after GeneratePayload: %v, %v", l, fresh, ok, err)
	}
	var d int64
	expired := false
	switch k := c.Weighted("age.kind", 3, 2, 2, 1, 2); k {
	case 0: // just past the lifetime
		d, expired = l+2+int64(c.Intn("age.over", 3)), true
	case 1: // between one and two lifetimes
		d, expired = l+2+int64(c.Intn("age.mid", int(l))), true
	case 2: // far past
		d, expired = 2*l+probe+int64(c.Intn("age.far", 100000)), true
	case 3: // well inside (only for lifetimes that leave a margin against scheduling delays)
		if l < 2*probe {
			c.Class("young payload skipped: lifetime shorter than the margin")
			return nil
		}
		d = int64(c.Intn("age.in", int(l-probe)))
	default:
		d = 0
	}
	if d > 0 {
		c.NonTrivial(fmt.Sprintf("%s|%d|%d", secret, l, d))
	}
	aged := tcref.Payload(secret, c.Content("nonce", 8), f-uint64(d))
	ok, err := srv.CheckPayload(aged)
	if expired {
		c.Class("payload older than the lifetime")
		if ok || err == nil {
			return fmt.Errorf("lifetime %d s: the server writes time field %d now; a payload with field %d, i.e. issued %d s ago, was accepted by CheckPayload (%v, %v)", l, f, f-uint64(d), d, ok, err)
		}
		return nil
	}
	c.Class("payload younger than the lifetime")
	if !ok || err != nil {
		return fmt.Errorf("lifetime %d s: the server writes time field %d now; a payload with field %d, i.e. issued %d s ago, was refused by CheckPayload (%v, %v)", l, f, f-uint64(d), d, ok, err)
	}
	return nil
}}

// clockCheck lets real time pass: a payload issued by GeneratePayload with a lifetime of L seconds is
// accepted at once and refused after L+1.2 .. 2L-1.8 seconds (the field has whole seconds, so one second
// of slack on each side).
var clockCheck = &core.Check{Name: "c19/payload-clock", Quick: 2, Thorough: 32, Fn: func(c *core.Ctx) error {
	secret := drawSecret(c, "secret")
	l := int64(3 + c.Intn("lifetime", 3))
	wait := time.Duration(l)*time.Second + 1200*time.Millisecond + time.Duration(c.Intn("wait.ms", int(l-3)*1000+1))*time.Millisecond
	srv, err := newServer(&execDouble{}, secret, 0, l)
	if err != nil {
		return fmt.Errorf("NewTonConnect: %v", err)
	}
	p, err := srv.GeneratePayload()
	if err != nil {
		return fmt.Errorf("GeneratePayload: %v", err)
	}
	t0 := time.Now()
	if ok, err := srv.CheckPayload(p); !ok || err != nil {
		if time.Since(t0) > time.Duration(l-1)*time.Second {
			c.Class("inconclusive: the process was suspended")
			return nil
		}
		return fmt.Errorf("lifetime %d s: payload %q refused immediately after GeneratePayload: %v, %v", l, p, ok, err)
	}
	time.Sleep(wait)
	c.Class("payload presented after its lifetime, real time")
	c.NonTrivial(fmt.Sprintf("%s|%d|%v", secret, l, wait))
	if ok, err := srv.CheckPayload(p); ok || err == nil {
		return fmt.Errorf("lifetime %d s: payload %q from GeneratePayload was still accepted %v after it was issued (%v, %v)", l, p, time.Since(t0).Round(time.Millisecond), ok, err)
	}
	return nil
}}

func TestLife(t *testing.T) {
	t.Run("payload-age", func(t *testing.T) { core.Run(t, ageCheck) })
	t.Run("payload-clock", func(t *testing.T) { core.Run(t, clockCheck) })
}
