// C19 — TON Connect proofs are accepted only for the key controlling the address.
//
// The oracle is internal/tcref (signed message, payload and state-init layouts written from the protocol
// description with the standard library and the reference cell model) plus the standard library's
// Ed25519: a presented proof must be accepted exactly when its payload was issued under the server's
// secret and is fresh, its timestamp is fresh, its domain is the expected one, and its signature verifies
// over the presented address/domain/timestamp/payload under the key that the chain reports for the
// address or, if the chain has none, under the key found in a state-init of a known wallet whose hash is
// the address.
package c19

import (
	"bytes"
	"context"
	"crypto/ed25519"
	"encoding/base64"
	"encoding/hex"
	"errors"
	"fmt"
	"math"
	"math/big"
	"strconv"
	"strings"
	"testing"
	"time"
	"unicode/utf8"

	"github.com/tonkeeper/tongo/boc"
	"github.com/tonkeeper/tongo/tlb"
	"github.com/tonkeeper/tongo/ton"
	"github.com/tonkeeper/tongo/tonconnect"
	"github.com/tonkeeper/tongo/wallet"

	"verifharness/internal/core"
	"verifharness/internal/gen"
	"verifharness/internal/ref"
	"verifharness/internal/tcref"
)

func TestMain(m *testing.M) { core.Main(m, "C19") }

// Identifiers of the findings this package can run into (see known_findings.json).
const (
	findNilKey    = "C19-parsestateinit-nil-key"       // D16: ParseStateInit returns (nil, nil); CheckProof panics in ed25519.Verify
	findLockupKey = "C19-lockup-zero-key"              // ParseStateInit returns 32 zero bytes for the V3R2Lockup code
	margin        = int64(20)                          // seconds; cases are generated at least 30 s away from a lifetime boundary
	probe         = int64(30)                          // distance of generated timestamps from a lifetime boundary
	getPublicKey  = 78748                              // method id of get_public_key
	defaultLife   = int64(300)                         // documented default of both lifetimes
	farFuture     = int64(3600)                        // the reference makes no statement about timestamps further ahead
	l25519hex     = "edd3f55c1a631258d69cf7a2def9de14" // low half of the group order L (little endian), high half is 0..010
)

// ---------------------------------------------------------------------------------------------
// wallet versions

type verRow struct {
	v      wallet.Version
	name   string
	layout tcref.Layout
	code   *ref.RCell
}

// buildable: versions of the server's table for which wallet.GenerateStateInit builds the initial state.
var buildable = []*verRow{
	{v: wallet.V1R1, name: "v1R1", layout: tcref.LayoutV1V2},
	{v: wallet.V1R2, name: "v1R2", layout: tcref.LayoutV1V2},
	{v: wallet.V1R3, name: "v1R3", layout: tcref.LayoutV1V2},
	{v: wallet.V2R1, name: "v2R1", layout: tcref.LayoutV1V2},
	{v: wallet.V2R2, name: "v2R2", layout: tcref.LayoutV1V2},
	{v: wallet.V3R1, name: "v3R1", layout: tcref.LayoutV3},
	{v: wallet.V3R2, name: "v3R2", layout: tcref.LayoutV3},
	{v: wallet.V4R1, name: "v4R1", layout: tcref.LayoutV4},
	{v: wallet.V4R2, name: "v4R2", layout: tcref.LayoutV4},
	{v: wallet.V5Beta, name: "v5Beta", layout: tcref.LayoutV5Beta},
	{v: wallet.V5R1, name: "v5R1", layout: tcref.LayoutV5R1},
}

var lockup = &verRow{v: wallet.V3R2Lockup, name: "v3R2Lockup", layout: tcref.LayoutLockup}

// table is the reference's image of the server's table of known wallets (V1R1 … V5R1, lockup included).
var table []tcref.Known

func init() {
	for _, r := range append(append([]*verRow{}, buildable...), lockup) {
		rc, err := gen.FromTongo(wallet.GetCodeByVer(r.v), 10000)
		if err != nil {
			panic(fmt.Sprintf("code of %s: %v", r.name, err))
		}
		r.code = rc
		table = append(table, tcref.Known{Name: r.name, CodeHash: string(rc.ReprHash()), Layout: r.layout})
	}
}

// ---------------------------------------------------------------------------------------------
// executor double: a chain on which some addresses answer get_public_key

type execDouble struct {
	deployed map[ton.AccountID][]byte
	exitOne  bool // deployed wallets finish with exit code 1 (alternative success code of the TVM)
	failMode int  // what an address without a deployed wallet answers
	calls    int
	badCall  string
}

const (
	failError = iota
	failExitCode
	failEmptyStack
	failTwoInts
	failCell
	failShortInt
	nFailModes
)

var failNames = []string{"error", "exit code 11", "empty stack", "two ints", "cell on stack", "8-byte int"}

func intEntry(b []byte) tlb.VmStackValue {
	var x big.Int
	x.SetBytes(b)
	return tlb.VmStackValue{SumType: "VmStkInt", VmStkInt: tlb.Int257(x)}
}

func (e *execDouble) RunSmcMethodByID(ctx context.Context, a ton.AccountID, methodID int, params tlb.VmStack) (uint32, tlb.VmStack, error) {
	e.calls++
	if methodID != getPublicKey || len(params) != 0 {
		e.badCall = fmt.Sprintf("method %d with %d parameters", methodID, len(params))
		return 0, nil, errors.New("unknown method")
	}
	if k, ok := e.deployed[a]; ok {
		code := uint32(0)
		if e.exitOne {
			code = 1
		}
		return code, tlb.VmStack{intEntry(k)}, nil
	}
	switch e.failMode {
	case failExitCode:
		return 11, tlb.VmStack{}, nil
	case failEmptyStack:
		return 0, tlb.VmStack{}, nil
	case failTwoInts:
		return 0, tlb.VmStack{intEntry(bytes.Repeat([]byte{7}, 32)), intEntry(bytes.Repeat([]byte{9}, 32))}, nil
	case failCell:
		return 0, tlb.VmStack{{SumType: "VmStkCell", VmStkCell: tlb.Ref[boc.Cell]{Value: *boc.NewCell()}}}, nil
	case failShortInt:
		return 0, tlb.VmStack{intEntry([]byte{1, 2, 3, 4, 5, 6, 7, 8})}, nil
	}
	return 0, nil, errors.New("account is not initialized")
}

// ---------------------------------------------------------------------------------------------
// the reference model of the server

type world struct {
	secret           string
	lProof, lPayload int64 // effective lifetimes in seconds
	exec             *execDouble
	expectDomain     string
	now              int64
}

type verdict struct {
	accept bool
	sure   bool
	key    []byte
	why    string
	siPath bool // the key had to come from the state-init
	info   tcref.Info
}

func parseAddr(s string) (wc int32, hash []byte, ok bool) {
	i := strings.IndexByte(s, ':')
	if i < 0 {
		return 0, nil, false
	}
	w := s[:i]
	if w == "" || (w[0] == '-' && len(w) == 1) {
		return 0, nil, false
	}
	for j, ch := range w {
		if !(ch >= '0' && ch <= '9') && !(j == 0 && ch == '-') {
			return 0, nil, false
		}
	}
	v, err := strconv.ParseInt(w, 10, 32)
	if err != nil {
		return 0, nil, false
	}
	h := s[i+1:]
	if len(h) != 64 || strings.ToLower(h) != h {
		return 0, nil, false
	}
	hash, err = hex.DecodeString(h)
	if err != nil {
		return 0, nil, false
	}
	return int32(v), hash, true
}

// judge decides what the property demands for a presented proof.
func judge(w *world, p *tonconnect.Proof) verdict {
	var rejects, unsure []string
	v := verdict{}
	// payload
	field, wf, auth := tcref.PayloadInfo(w.secret, p.Proof.Payload)
	switch {
	case !wf:
		rejects = append(rejects, "payload is not the hex form of 32 bytes")
	case !auth:
		rejects = append(rejects, "payload was not issued under the server's secret")
	default:
		f := int64(field)
		switch {
		case field > math.MaxInt64/2:
			unsure = append(unsure, "payload time field out of range")
		case f <= w.now-w.lPayload-margin:
			rejects = append(rejects, "payload expired")
		case f >= w.now-w.lPayload+margin:
		default:
			unsure = append(unsure, "payload age too close to the lifetime")
		}
	}
	// proof timestamp
	ts := p.Proof.Timestamp
	switch {
	case ts <= w.now-w.lProof-margin:
		rejects = append(rejects, "proof expired")
	case ts >= w.now-w.lProof+margin && ts <= w.now+farFuture:
	default:
		unsure = append(unsure, "timestamp too close to the lifetime or far in the future")
	}
	if p.Proof.Domain != w.expectDomain {
		rejects = append(rejects, "domain is not the expected one")
	}
	wc, hash, ok := parseAddr(p.Address)
	if !ok {
		rejects = append(rejects, "address is not <workchain>:<64 hex digits>")
	} else {
		var key []byte
		if k, dep := w.exec.deployed[ton.AccountID{Workchain: wc, Address: tlb.Bits256(hash)}]; dep {
			key = k
		} else {
			v.siPath = true
			in := tcref.Analyse(p.Proof.StateInit, table)
			v.info = in
			switch {
			case p.Proof.StateInit == "":
				rejects = append(rejects, "wallet not deployed and no state-init supplied")
			case !in.Decoded:
				rejects = append(rejects, "state-init is not base64")
			case !in.Bag:
				rejects = append(rejects, "state-init is not a bag of cells")
			case in.Roots != 1:
				rejects = append(rejects, fmt.Sprintf("state-init bag has %d roots", in.Roots))
			case !bytes.Equal(in.Hash, hash):
				rejects = append(rejects, "state-init does not hash to the address")
			case in.Exotic:
				unsure = append(unsure, "exotic cell in the state-init")
			case !in.Shape:
				rejects = append(rejects, "cell is not a StateInit")
			case !in.HasCode:
				rejects = append(rejects, "state-init without code")
			case !in.HasData:
				rejects = append(rejects, "state-init without data")
			case in.Known == nil:
				rejects = append(rejects, "state-init code is not a known wallet")
			case in.Known.Layout == tcref.LayoutLockup:
				v.key = in.Key
				unsure = append(unsure, "lockup wallet: in the table, but the server has no data layout for it")
			case in.Key == nil:
				rejects = append(rejects, "state-init data too short to hold a key")
			default:
				key = in.Key
			}
		}
		if key != nil {
			v.key = key
			if !tcref.Verify(key, wc, hash, p.Proof.Domain, ts, p.Proof.Payload, p.Proof.Signature) {
				rejects = append(rejects, "signature does not verify over the presented fields under the wallet's key")
			}
		}
	}
	switch {
	case len(rejects) > 0:
		v.sure, v.accept, v.why = true, false, strings.Join(rejects, "; ")
	case len(unsure) > 0:
		v.sure, v.why = false, strings.Join(unsure, "; ")
	default:
		v.sure, v.accept, v.why = true, true, "honest"
	}
	return v
}

type outcome struct {
	ok  bool
	key ed25519.PublicKey
	err error
}

func (o outcome) String() string {
	return fmt.Sprintf("(%v, %x, %v)", o.ok, []byte(o.key), o.err)
}

func isNilKeyPanic(err error) bool {
	var pe *core.PanicError
	return errors.As(err, &pe) && strings.Contains(fmt.Sprint(pe.Val), "bad public key length: 0")
}

// nilKeyShape: the state-init shapes for which finding D16 describes the (nil, nil) answer.
func nilKeyShape(in tcref.Info) bool {
	return in.Bag && (in.Roots > 1 || (in.Roots == 1 && in.Shape && (!in.HasCode || !in.HasData)))
}

// present runs CheckProof and compares with the verdict. It returns the violation, if any.
// lenient: an expected acceptance is not enforced (the reference cannot tell whether the server has to
// support the presented state-init).
func present(c *core.Ctx, w *world, srv *tonconnect.Server, p *tonconnect.Proof, what string, lenient bool) error {
	v := judge(w, p)
	var o outcome
	perr := core.Protect(func() error {
		o.ok, o.key, o.err = srv.CheckProof(context.Background(), p, srv.CheckPayload, tonconnect.StaticDomain(w.expectDomain))
		return nil
	})
	if perr != nil {
		if isNilKeyPanic(perr) && v.siPath && (nilKeyShape(v.info) || (lenient && (v.info.Exotic || !v.info.Bag))) && c.Known(findNilKey) {
			return nil
		}
		return fmt.Errorf("%s: CheckProof panicked (expected: %s): %w", what, v.why, perr)
	}
	if w.exec.badCall != "" {
		return fmt.Errorf("%s: executor was asked for %s instead of get_public_key()", what, w.exec.badCall)
	}
	if o.ok && (o.err != nil || len(o.key) != ed25519.PublicKeySize) {
		return fmt.Errorf("%s: CheckProof = %v: accepted with an error or without a 32-byte key", what, o)
	}
	if !o.ok && o.err == nil {
		return fmt.Errorf("%s: CheckProof = %v: rejected without an error", what, o)
	}
	if !v.sure {
		c.Class("no statement: " + v.why)
		if o.ok && v.key != nil && !bytes.Equal(o.key, v.key) {
			if v.info.Known != nil && v.info.Known.Layout == tcref.LayoutLockup && c.Known(findLockupKey) {
				return nil
			}
			return fmt.Errorf("%s: CheckProof = %v, but the wallet's key is %x", what, o, v.key)
		}
		return nil
	}
	if v.accept {
		if !o.ok && lenient {
			c.Class("acceptable proof rejected (not judged)")
			return nil
		}
		if !o.ok {
			return fmt.Errorf("%s: honest proof rejected: CheckProof = %v", what, o)
		}
		if !bytes.Equal(o.key, v.key) {
			return fmt.Errorf("%s: CheckProof = %v, but the wallet's key is %x", what, o, v.key)
		}
		return nil
	}
	if o.ok {
		if v.siPath && v.info.Known != nil && v.info.Known.Layout == tcref.LayoutLockup && c.Known(findLockupKey) {
			return nil
		}
		return fmt.Errorf("%s: proof accepted: CheckProof = %v, although: %s", what, o, v.why)
	}
	return nil
}

const (
	parseLenient = iota // the string may be a damaged bag: the two bag parsers may disagree about it
	parseSound          // the bag is well-formed by construction
	parseWallet         // ... and if the reference finds a known wallet with a key in it, it was built completely
)

// checkParse compares ParseStateInit with the reference's reading of the same string.
func checkParse(c *core.Ctx, si string, mode int) error {
	conclusive := mode != parseLenient
	in := tcref.Analyse(si, table)
	var key []byte
	var err error
	if perr := core.Protect(func() error { key, err = tonconnect.ParseStateInit(si); return nil }); perr != nil {
		return fmt.Errorf("ParseStateInit(%s) panicked: %w", clip(si), perr)
	}
	if err == nil && len(key) != ed25519.PublicKeySize {
		// (for a damaged bag that only tongo's parser accepts, the shape is what tongo saw, not what the reference sees)
		if key == nil && (nilKeyShape(in) || !conclusive) && c.Known(findNilKey) {
			return nil
		}
		return fmt.Errorf("ParseStateInit(%s) = (%x, nil): neither a 32-byte key nor an error (reference: %s)", clip(si), key, describe(in))
	}
	if !in.Bag && in.Decoded && !conclusive {
		if err == nil {
			c.Class("bag parsers disagree (not judged here)")
		}
		return nil
	}
	if in.Exotic {
		return nil
	}
	definitelyNot := !in.Decoded || !in.Bag || in.Roots != 1 || !in.Shape || !in.HasCode || !in.HasData || in.Known == nil || in.Key == nil
	if err == nil {
		if in.Known != nil && in.Known.Layout == tcref.LayoutLockup && bytes.Equal(key, make([]byte, 32)) && !bytes.Equal(key, in.Key) && c.Known(findLockupKey) {
			return nil
		}
		if definitelyNot {
			return fmt.Errorf("ParseStateInit(%s) = (%x, nil), but the string is no state-init of a known wallet: %s", clip(si), key, describe(in))
		}
		if !bytes.Equal(key, in.Key) {
			return fmt.Errorf("ParseStateInit(%s) = (%x, nil), but the data of this %s wallet holds the key %x", clip(si), key, in.Known.Name, in.Key)
		}
		return nil
	}
	if !definitelyNot && in.Known.Layout != tcref.LayoutLockup && mode == parseWallet {
		return fmt.Errorf("ParseStateInit(%s) = error %v, but it is the state-init of a %s wallet with key %x", clip(si), err, in.Known.Name, in.Key)
	}
	return nil
}

func clip(s string) string {
	if len(s) > 400 {
		return fmt.Sprintf("%q…(%d bytes)", s[:400], len(s))
	}
	return fmt.Sprintf("%q", s)
}

func describe(in tcref.Info) string {
	switch {
	case !in.Decoded:
		return "not base64"
	case !in.Bag:
		return "not a bag of cells"
	case in.Roots != 1:
		return fmt.Sprintf("bag with %d roots", in.Roots)
	case in.Exotic:
		return "exotic cell"
	case !in.Shape:
		return "root is not a StateInit"
	case !in.HasCode || !in.HasData:
		return fmt.Sprintf("StateInit with code=%v data=%v", in.HasCode, in.HasData)
	case in.Known == nil:
		return "unknown code"
	case in.Key == nil:
		return fmt.Sprintf("%s wallet with %d data bits", in.Known.Name, in.DataBits)
	}
	return fmt.Sprintf("%s wallet, key %x", in.Known.Name, in.Key)
}

// ---------------------------------------------------------------------------------------------
// generators

type wal struct {
	row  *verRow
	priv ed25519.PrivateKey
	pub  []byte
	si   string         // base64 bag
	siT  *tlb.StateInit // set when tongo's wallet package built the state-init
	root *ref.RCell
	hash []byte
}

func b64(b []byte) string { return base64.StdEncoding.EncodeToString(b) }

func drawVariant(c *core.Ctx, label string) ref.BocVariant {
	return ref.BocVariant{Index: c.Bool(label + ".idx"), CRC: c.Bool(label + ".crc")}
}

func bag(roots []*ref.RCell, v ref.BocVariant) string { return b64(ref.SerializeBOC(roots, v)) }

func drawKey(c *core.Ctx, label string) ed25519.PrivateKey {
	return ed25519.NewKeyFromSeed(c.Content(label, 32))
}

// drawWallet builds the initial state of a wallet either with tongo's wallet package (what a client of
// the library does) or with the reference builder (any seqno / subwallet, any bag variant).
func drawWallet(c *core.Ctx, label string, row *verRow, priv ed25519.PrivateKey) (*wal, error) {
	w := &wal{row: row, priv: priv, pub: []byte(priv.Public().(ed25519.PublicKey))}
	if c.Weighted(label+".builder", 1, 1) == 0 {
		var netID *int32
		switch c.Choose(label+".net", 3) {
		case 1:
			v := int32(wallet.MainnetGlobalID)
			netID = &v
		case 2:
			v := int32(wallet.TestnetGlobalID)
			netID = &v
		}
		var sub *uint32
		if c.Bool(label + ".hassub") {
			v := uint32(c.U64(label + ".sub"))
			sub = &v
		}
		wcOpt := -c.Intn(label+".wcopt", 2)
		st, err := wallet.GenerateStateInit(ed25519.PublicKey(w.pub), row.v, netID, wcOpt, sub)
		if err != nil {
			return nil, fmt.Errorf("wallet.GenerateStateInit(%s): %v", row.name, err)
		}
		cell := boc.NewCell()
		if err := tlb.Marshal(cell, st); err != nil {
			return nil, fmt.Errorf("marshal of the %s state-init: %v", row.name, err)
		}
		s, err := cell.ToBocBase64()
		if err != nil {
			return nil, fmt.Errorf("ToBocBase64 of the %s state-init: %v", row.name, err)
		}
		w.si, w.siT = s, &st
		in := tcref.Analyse(s, table)
		if in.Known == nil || in.Known.Name != row.name || !bytes.Equal(in.Key, w.pub) {
			return nil, fmt.Errorf("wallet.GenerateStateInit(%s) for key %x: the reference reads the result as: %s", row.name, w.pub, describe(in))
		}
		w.hash = in.Hash
		c.Class("state-init built by tongo/wallet")
		return w, nil
	}
	p := tcref.DataParams{Seqno: uint64(c.Intn(label+".seqno", 1<<20)), SubWallet: c.U64(label + ".sub"), NetID: uint32(c.U64(label + ".net")), Workchain: uint8(c.Intn(label+".wcid", 256))}
	w.root = tcref.StateInit(row.code, tcref.DataCell(row.layout, w.pub, p), tcref.PlainSI())
	w.si = bag([]*ref.RCell{w.root}, drawVariant(c, label+".bag"))
	w.hash = w.root.ReprHash()
	c.Class("state-init built by the reference")
	return w, nil
}

func refWallet(row *verRow, priv ed25519.PrivateKey, p tcref.DataParams) *wal {
	w := &wal{row: row, priv: priv, pub: []byte(priv.Public().(ed25519.PublicKey))}
	w.root = tcref.StateInit(row.code, tcref.DataCell(row.layout, w.pub, p), tcref.PlainSI())
	w.si = bag([]*ref.RCell{w.root}, ref.BocVariant{})
	w.hash = w.root.ReprHash()
	return w
}

var runeRanges = [][2]rune{{0x430, 0x44f}, {0x4e00, 0x4fff}, {0x1f600, 0x1f64f}, {0xe0, 0xff}, {0x5d0, 0x5ea}, {0x3b1, 0x3c9}}

func drawDomain(c *core.Ctx, label string) string {
	const alpha = "abcdefghijklmnopqrstuvwxyz0123456789-."
	ascii := func(n int, seed uint64) string {
		sm := core.NewSplitMix(seed)
		b := make([]byte, n)
		for i := range b {
			b[i] = alpha[sm.Intn(len(alpha))]
		}
		return string(b)
	}
	switch c.Weighted(label+".kind", 4, 1, 3, 1, 1) {
	case 0:
		return ascii(c.Range(label+".len", 1, 127), c.U64(label+".seed"))
	case 1:
		return ""
	case 2:
		n := c.Range(label+".runes", 1, 40)
		sm := core.NewSplitMix(c.U64(label + ".seed"))
		var sb strings.Builder
		for i := 0; i < n; i++ {
			r := runeRanges[sm.Intn(len(runeRanges))]
			ch := r[0] + rune(sm.Intn(int(r[1]-r[0]+1)))
			if i%5 == 4 {
				ch = '.'
			}
			if sb.Len()+utf8.RuneLen(ch) > 128 {
				break
			}
			sb.WriteRune(ch)
		}
		return sb.String()
	case 3:
		return ascii(128, c.U64(label+".seed"))
	}
	tricky := []string{"Example.COM", "example.com.", "a\x00b", " example.com", "ton-connect", "ton-proof-item-v2/", "a:b/c?d", "\x7f", "localhost:8080", "xn--e1afmkfd.xn--p1ai"}
	return tricky[c.Choose(label+".tricky", len(tricky))]
}

func otherDomain(c *core.Ctx, label, d string) string {
	var o string
	switch c.Choose(label+".how", 5) {
	case 0:
		o = d + "."
	case 1:
		if len(d) > 0 {
			o = d[:len(d)-1]
		}
	case 2:
		o = strings.ToUpper(d)
	case 3:
		o = "evil." + d
	default:
		o = drawDomain(c, label+".fresh")
	}
	if o == d {
		o = d + "x"
	}
	return o
}

func isASCII(s string) bool {
	for i := 0; i < len(s); i++ {
		if s[i] >= 0x80 {
			return false
		}
	}
	return true
}

var lifetimes = []int64{0, 60, 300, 900, 3600, 86400}

func effLife(opt int64) int64 {
	if opt == 0 {
		return defaultLife
	}
	return opt
}

func drawSecret(c *core.Ctx, label string) string {
	switch c.Weighted(label+".kind", 1, 4, 1) {
	case 0:
		return ""
	case 1:
		return fmt.Sprintf("secret-%x", c.Content(label, 8))
	}
	return strings.Repeat("long secret ", 20) + fmt.Sprint(c.Intn(label+".n", 1000))
}

func newServer(e *execDouble, secret string, lpOpt, lplOpt int64) (*tonconnect.Server, error) {
	var opts []tonconnect.Option
	if lpOpt != 0 {
		opts = append(opts, tonconnect.WithLifeTimeProof(lpOpt))
	}
	if lplOpt != 0 {
		opts = append(opts, tonconnect.WithLifeTimePayload(lplOpt))
	}
	return tonconnect.NewTonConnect(e, secret, opts...)
}

func addrString(wc int32, hash []byte) string { return fmt.Sprintf("%d:%x", wc, hash) }

var workchains = []int32{0, 0, 0, -1, -1, 1, -2, 127, -128, 255, math.MaxInt32, math.MinInt32}

// what is signed
type signing struct {
	priv    ed25519.PrivateKey
	wc      int32
	addr    []byte
	dl      [4]byte
	domain  string
	ts      int64
	payload string
	wrap    int // 0 = as specified; 1 = sha256(message) without the ton-connect envelope; 2 = other item prefix
}

func (s *signing) sign() []byte {
	m := tcref.Message(s.wc, s.addr, s.dl, s.domain, s.ts, s.payload)
	var d []byte
	switch s.wrap {
	case 1:
		d = tcref.Wrap(m)
		d = tcref.Wrap(d) // envelope applied twice
	case 2:
		d = tcref.Wrap(bytes.Replace(m, []byte("ton-proof-item-v2/"), []byte("ton-proof-item-v1/"), 1))
	default:
		d = tcref.Wrap(m)
	}
	return ed25519.Sign(s.priv, d)
}

// freshField reads the time field of a payload that the server issues now.
func freshField(srv *tonconnect.Server, secret string) (uint64, string, error) {
	p, err := srv.GeneratePayload()
	if err != nil {
		return 0, "", fmt.Errorf("GeneratePayload: %v", err)
	}
	f, wf, auth := tcref.PayloadInfo(secret, p)
	if !wf || !auth {
		return 0, "", fmt.Errorf("GeneratePayload() = %q: not hex(nonce8 ‖ time8 ‖ HMAC-SHA256(secret, nonce ‖ time)[:16]) under the server's secret", p)
	}
	return f, p, nil
}

// mutations of a valid proof, one at a time
const (
	mNone = iota
	mAddrOtherWallet
	mAddrWorkchain
	mAddrBit
	mAddrMalformed
	mOtherSigner
	mAttackerSI
	mDomainOther
	mDomainForeign
	mDomainLenLie
	mTsShift
	mPayloadOther
	mPayloadBadHex
	mPayloadWrongLen
	mPayloadTamper
	mSIOtherKey
	mSIOtherVer
	mSIUnknownCode
	mSINoCode
	mSINoData
	mSINoCodeNoData
	mSITwoRoots
	mSIRandom
	mSIBadBase64
	mSIMissing
	mSINotStateInit
	mSIExtraFields
	mSIShortData
	mSigFlip
	mSigLen
	mSigBadBase64
	mSigConst
	mSigWrongWrap
	nMut
)

var mutNames = []string{"none", "address of another wallet", "other workchain", "address bit flipped", "malformed address",
	"signed by another key", "attacker's key and state-init for the victim's address", "other domain", "signed for a domain the server does not expect", "domain length field lies",
	"timestamp shifted by one", "another valid payload", "payload with a non-hex character", "payload of wrong length", "payload tampered",
	"state-init of another key", "state-init of another version", "state-init with unknown code", "state-init without code",
	"state-init without data", "state-init without code and data", "state-init bag with two roots", "state-init random bytes",
	"state-init bad base64", "state-init missing", "state-init bag holds no StateInit", "state-init with extra fields", "state-init with short data",
	"signature bit flipped", "signature of wrong length", "signature bad base64", "constant signature", "signature over another envelope"}

func isSIMut(m int) bool { return m >= mSIOtherKey && m <= mSIShortData }

func badBase64(c *core.Ctx, label, s string) string {
	switch c.Choose(label+".how", 4) {
	case 0:
		i := c.Intn(label+".pos", len(s)+1)
		return s[:i] + "!" + s[i:]
	case 1:
		if len(s) > 0 {
			i := c.Intn(label+".pos", len(s))
			return s[:i] + "*" + s[i+1:]
		}
	case 2:
		t := strings.TrimRight(s, "=")
		if len(t) > 0 {
			for len(t)%4 != 1 {
				t = t[:len(t)-1]
			}
			return t
		}
	}
	return "-_" + s + "é"
}

func randomCell(c *core.Ctx, label string) *ref.RCell {
	n := c.Range(label+".bits", 0, 1023)
	return ref.NewRCell(ref.Bits(c.Bits(label, n)), false)
}

// ---------------------------------------------------------------------------------------------
// c19/proof

var proofCheck = &core.Check{Name: "c19/proof", Quick: 12000, Thorough: 600000, Fn: func(c *core.Ctx) error {
	mut := mNone
	if c.Weighted("mutate", 2, 5) == 1 {
		mut = 1 + c.Choose("mutation", nMut-1)
	}
	row := buildable[c.Choose("version", len(buildable))]
	priv := drawKey(c, "key")
	w, err := drawWallet(c, "wallet", row, priv)
	if err != nil {
		return err
	}
	wc := workchains[c.Choose("workchain", len(workchains))]
	domain := drawDomain(c, "domain")
	secret := drawSecret(c, "secret")
	lpOpt, lplOpt := lifetimes[c.Choose("lifetime.proof", len(lifetimes))], lifetimes[c.Choose("lifetime.payload", len(lifetimes))]

	// chain
	e := &execDouble{deployed: map[ton.AccountID][]byte{}, failMode: c.Choose("exec.fail", nFailModes), exitOne: c.Intn("exec.exit1", 4) == 3}
	execW := []int{3, 1, 4}
	if mut != mNone {
		execW = []int{3, 0, 4}
	}
	if isSIMut(mut) || mut == mAttackerSI {
		execW = []int{0, 0, 1}
	}
	execMode := c.Weighted("exec", execW...) // 0 deployed, 1 deployed under another key, 2 not deployed
	self := ton.AccountID{Workchain: wc, Address: tlb.Bits256(w.hash)}
	switch execMode {
	case 0:
		e.deployed[self] = w.pub
	case 1:
		ok := []byte(drawKey(c, "exec.otherkey").Public().(ed25519.PublicKey))
		if bytes.Equal(ok, w.pub) {
			ok = []byte(ed25519.NewKeyFromSeed(bytes.Repeat([]byte{0xa5}, 32)).Public().(ed25519.PublicKey))
		}
		e.deployed[self] = ok
	}
	srv, err := newServer(e, secret, lpOpt, lplOpt)
	if err != nil {
		return fmt.Errorf("NewTonConnect: %v", err)
	}
	wld := &world{secret: secret, lProof: effLife(lpOpt), lPayload: effLife(lplOpt), exec: e, expectDomain: domain, now: time.Now().Unix()}

	// timestamp
	tsW := []int{4, 1, 2, 2, 1}
	if mut != mNone {
		tsW = []int{4, 1, 2, 0, 0}
	}
	var ts int64
	tsKind := c.Weighted("ts.kind", tsW...)
	switch tsKind {
	case 0:
		ts = wld.now
	case 1:
		ts = wld.now + probe
	case 2:
		ts = wld.now - wld.lProof + probe
	case 3:
		ts = wld.now - wld.lProof - probe
	default:
		ts = []int64{0, 1, -1, wld.now - 10*wld.lProof, math.MinInt64, wld.now - wld.lProof - probe - 1000000}[c.Choose("ts.old", 6)]
	}

	// payload
	plW := []int{4, 2, 1, 1, 1}
	if mut != mNone {
		plW = []int{4, 2, 0, 0, 0}
	}
	var payload string
	plKind := c.Weighted("payload.kind", plW...)
	field, fresh, err := freshField(srv, secret)
	if err != nil {
		return err
	}
	if d := int64(field) - wld.now; d < -5 || d > wld.lPayload+5 {
		c.Class("payload time field is not within [now, now+lifetime]")
	}
	switch plKind {
	case 0:
		payload = fresh
	case 1: // built by the harness from the documented layout, time field as the server writes it now
		payload = tcref.Payload(secret, c.Content("payload.nonce", 8), field)
	case 2: // issued by a server with another secret
		other := secret + "'"
		if c.Bool("payload.foreign.own") {
			payload = tcref.Payload(other, c.Content("payload.nonce", 8), field)
		} else {
			srv2, err := newServer(e, other, lpOpt, lplOpt)
			if err != nil {
				return fmt.Errorf("NewTonConnect: %v", err)
			}
			if payload, err = srv2.GeneratePayload(); err != nil {
				return fmt.Errorf("GeneratePayload: %v", err)
			}
		}
	case 3: // expired
		old := []int64{wld.now - wld.lPayload - probe, wld.now - wld.lPayload - probe - 100000, 0, 1}[c.Choose("payload.old", 4)]
		payload = tcref.Payload(secret, c.Content("payload.nonce", 8), uint64(old))
	default: // no tag at all / tag of the wrong half
		raw := tcref.PayloadBytes(secret, c.Content("payload.nonce", 8), field)
		if c.Bool("payload.zero") {
			copy(raw[16:], make([]byte, 16))
		} else {
			copy(raw[16:], raw[:16])
		}
		payload = hex.EncodeToString(raw)
	}

	includeSI := true
	if execMode != 2 && mut == mNone {
		includeSI = c.Intn("stateinit.omit", 4) != 0
	}
	sg := &signing{priv: priv, wc: wc, addr: w.hash, dl: tcref.LenLE(len(domain)), domain: domain, ts: ts, payload: payload}
	pr := &tonconnect.Proof{Address: addrString(wc, w.hash)}
	pr.Proof.Timestamp, pr.Proof.Domain, pr.Proof.Payload = ts, domain, payload
	if includeSI {
		pr.Proof.StateInit = w.si
	}
	neutral := false // the drawn mutation turned out to change nothing that matters

	// second wallet for substitutions
	var w2 *wal
	need2 := mut == mAddrOtherWallet || mut == mOtherSigner || mut == mAttackerSI || mut == mSIOtherKey || mut == mSIOtherVer || mut == mSITwoRoots
	if need2 {
		row2, priv2 := row, priv
		if mut == mSIOtherVer {
			row2 = buildable[(c.Choose("version2", len(buildable)-1)+1+indexOf(row))%len(buildable)]
		} else {
			priv2 = drawKey(c, "key2")
			if bytes.Equal(priv2.Seed(), priv.Seed()) {
				priv2 = ed25519.NewKeyFromSeed(bytes.Repeat([]byte{0x5a}, 32))
			}
		}
		if w2, err = drawWallet(c, "wallet2", row2, priv2); err != nil {
			return err
		}
	}
	// rebind: the mutated state-init is presented together with ITS address, and that address is what gets signed
	rebind := false
	setSI := func(s string) {
		pr.Proof.StateInit = s
		if isSIMut(mut) && mut != mSIMissing && c.Bool("rebind") {
			if in := tcref.Analyse(s, table); in.Hash != nil {
				rebind = true
				sg.addr = in.Hash
				pr.Address = addrString(wc, in.Hash)
			}
		}
	}

	// --- before signing
	switch mut {
	case mOtherSigner:
		sg.priv = w2.priv
	case mAttackerSI:
		sg.priv = w2.priv
		pr.Proof.StateInit = w2.si
	case mDomainForeign: // an honest proof made for another site is relayed to this server
		sg.domain = otherDomain(c, "domain2", domain)
		sg.dl = tcref.LenLE(len(sg.domain))
		pr.Proof.Domain = sg.domain
	case mDomainLenLie:
		n := len(domain)
		cands := [][4]byte{tcref.LenLE(n + 1), tcref.LenLE(n + 256), {byte(n >> 24), byte(n >> 16), byte(n >> 8), byte(n)}, tcref.LenLE(0), tcref.LenLE(n - 1)}
		sg.dl = cands[c.Choose("dl", len(cands))]
		if sg.dl == tcref.LenLE(n) {
			sg.dl = tcref.LenLE(n + 1)
		}
	case mPayloadBadHex:
		i := c.Intn("payload.pos", len(payload))
		ch := "gZ x-"[c.Choose("payload.char", 5)]
		sg.payload = payload[:i] + string(ch) + payload[i+1:]
		pr.Proof.Payload = sg.payload
	case mPayloadWrongLen:
		switch c.Choose("payload.len", 6) {
		case 0:
			sg.payload = payload[:62]
		case 1:
			sg.payload = payload + "00"
		case 2:
			sg.payload = payload[:63]
		case 3:
			sg.payload = ""
		case 4:
			sg.payload = payload[:32]
		default:
			sg.payload = payload + payload
		}
		pr.Proof.Payload = sg.payload
	case mPayloadTamper:
		raw, _ := hex.DecodeString(payload)
		bit := c.Intn("payload.bit", 256)
		raw[bit/8] ^= 0x80 >> uint(bit%8)
		sg.payload = hex.EncodeToString(raw)
		pr.Proof.Payload = sg.payload
	case mSIOtherKey, mSIOtherVer:
		setSI(w2.si)
	case mSIUnknownCode:
		var code *ref.RCell
		switch c.Choose("code", 3) {
		case 0:
			code = randomCell(c, "code.random")
		case 1:
			code = ref.NewRCell(nil, false)
		default: // the wallet's code with one more reference-less bit appended or, for full cells, the last bit cut
			bits := row.code.Bits()
			if row.code.Special || len(bits) == 1023 {
				code = ref.NewRCell(ref.Bits{true}, false, row.code)
			} else {
				code = ref.NewRCell(append(bits.Clone(), true), false, row.code.Refs...)
			}
		}
		data := tcref.DataCell(row.layout, w.pub, tcref.DataParams{})
		setSI(bag([]*ref.RCell{tcref.StateInit(code, data, tcref.PlainSI())}, drawVariant(c, "bag")))
	case mSINoCode:
		setSI(bag([]*ref.RCell{tcref.StateInit(nil, tcref.DataCell(row.layout, w.pub, tcref.DataParams{}), tcref.PlainSI())}, drawVariant(c, "bag")))
	case mSINoData:
		setSI(bag([]*ref.RCell{tcref.StateInit(row.code, nil, tcref.PlainSI())}, drawVariant(c, "bag")))
	case mSINoCodeNoData:
		setSI(bag([]*ref.RCell{tcref.StateInit(nil, nil, tcref.PlainSI())}, drawVariant(c, "bag")))
	case mSITwoRoots:
		good := w.root
		if good == nil {
			good = tcref.StateInit(row.code, tcref.DataCell(row.layout, w.pub, tcref.DataParams{}), tcref.PlainSI())
		}
		second := good
		if c.Bool("tworoots.other") {
			second = tcref.StateInit(w2.row.code, tcref.DataCell(w2.row.layout, w2.pub, tcref.DataParams{}), tcref.PlainSI())
		}
		setSI(bag([]*ref.RCell{good, second}, drawVariant(c, "bag")))
	case mSIRandom:
		raw := c.Content("stateinit.bytes", c.Range("stateinit.len", 0, 200))
		if c.Bool("stateinit.magic") && len(raw) >= 4 {
			copy(raw, []byte{0xb5, 0xee, 0x9c, 0x72})
		}
		setSI(b64(raw))
	case mSIBadBase64:
		pr.Proof.StateInit = badBase64(c, "stateinit.b64", w.si)
	case mSIMissing:
		pr.Proof.StateInit = ""
	case mSINotStateInit:
		setSI(bag([]*ref.RCell{ref.NewRCell(ref.Bits(c.Bits("cell", c.Range("cell.bits", 0, 4))), false)}, drawVariant(c, "bag")))
	case mSIExtraFields:
		o := tcref.PlainSI()
		switch c.Choose("extra", 3) {
		case 0:
			o.SplitDepth = c.Intn("split", 32)
		case 1:
			o.Special = c.Intn("ticktock", 4)
		default: // library field present: the hash differs, code and data are intact
			o.Library = randomCell(c, "library")
		}
		s := bag([]*ref.RCell{tcref.StateInit(row.code, tcref.DataCell(row.layout, w.pub, tcref.DataParams{}), o)}, drawVariant(c, "bag"))
		pr.Proof.StateInit = s // never rebound: whether such a state-init is "a known wallet" is not stated
	case mSIShortData:
		off := tcref.KeyOffset(row.layout)
		full := tcref.DataCell(row.layout, w.pub, tcref.DataParams{}).Bits()
		n := c.Range("data.bits", 0, off+255)
		setSI(bag([]*ref.RCell{tcref.StateInit(row.code, ref.NewRCell(full[:n].Clone(), false), tcref.PlainSI())}, drawVariant(c, "bag")))
	case mSigWrongWrap:
		sg.wrap = 1 + c.Choose("wrap", 2)
	}
	sig := sg.sign()
	sig0 := append([]byte{}, sig...)

	// --- after signing
	switch mut {
	case mAddrOtherWallet:
		pr.Address = addrString(wc, w2.hash)
		if c.Bool("other.deployed") {
			e.deployed[ton.AccountID{Workchain: wc, Address: tlb.Bits256(w2.hash)}] = w2.pub
		}
	case mAddrWorkchain:
		wc2 := workchains[c.Choose("workchain2", len(workchains))]
		if wc2 == wc {
			wc2 = wc ^ 1
		}
		pr.Address = addrString(wc2, w.hash)
	case mAddrBit:
		h := append([]byte{}, w.hash...)
		bit := c.Intn("addr.bit", 256)
		h[bit/8] ^= 0x80 >> uint(bit%8)
		pr.Address = addrString(wc, h)
	case mAddrMalformed:
		hx := hex.EncodeToString(w.hash)
		forms := []string{"", "0", fmt.Sprint(wc) + ":", ":" + hx, fmt.Sprint(wc) + ":" + hx[:63], fmt.Sprint(wc) + ":" + hx[:62], fmt.Sprint(wc) + ":" + hx + "00",
			"x:" + hx, fmt.Sprint(wc) + ":" + hx[:10] + "g" + hx[11:], fmt.Sprint(wc) + ":0:" + hx, hx, fmt.Sprint(wc) + " :" + hx, "99999999999:" + hx}
		pr.Address = forms[c.Choose("addr.form", len(forms))]
	case mDomainOther:
		pr.Proof.Domain = otherDomain(c, "domain2", domain)
		if c.Bool("expect.presented") {
			wld.expectDomain = pr.Proof.Domain
		}
	case mTsShift:
		pr.Proof.Timestamp = ts + int64(c.OneOf("ts.shift", 1, -1))
	case mPayloadOther:
		if c.Bool("payload2.own") {
			pr.Proof.Payload = tcref.Payload(secret, c.Content("payload2.nonce", 8), field)
		} else if pr.Proof.Payload, err = srv.GeneratePayload(); err != nil {
			return fmt.Errorf("GeneratePayload: %v", err)
		}
		neutral = pr.Proof.Payload == payload
	case mSigFlip:
		bit := c.Intn("sig.bit", 512)
		sig[bit/8] ^= 0x80 >> uint(bit%8)
	case mSigLen:
		switch c.Choose("sig.len", 6) {
		case 0:
			sig = sig[:63]
		case 1:
			sig = append(sig, 0)
		case 2:
			sig = sig[:32]
		case 3:
			sig = nil
		case 4:
			sig = append(sig, sig...)
		default:
			sig = sig[1:]
		}
	case mSigConst:
		switch c.Choose("sig.const", 4) {
		case 0:
			sig = make([]byte, 64)
		case 1: // R = neutral element, S = 0
			sig = make([]byte, 64)
			sig[0] = 1
		case 2: // S + L: the same signature in a non-canonical form
			l, _ := hex.DecodeString(l25519hex)
			l = append(l, make([]byte, 16)...)
			l[31] = 0x10
			carry := 0
			for i := 0; i < 32; i++ {
				s := int(sig[32+i]) + int(l[i]) + carry
				sig[32+i], carry = byte(s), s>>8
			}
		default: // R of the signature with S of a signature over the same message by another key
			o := ed25519.Sign(ed25519.NewKeyFromSeed(bytes.Repeat([]byte{3}, 32)), tcref.Digest(sg.wc, sg.addr, sg.domain, sg.ts, sg.payload))
			copy(sig[32:], o[32:])
		}
	}
	if mut == mSigConst && bytes.Equal(sig, sig0) {
		neutral = true
	}
	pr.Proof.Signature = b64(sig)
	if mut == mSigBadBase64 {
		pr.Proof.Signature = badBase64(c, "sig.b64", pr.Proof.Signature)
	}

	c.Note("mutation", mutNames[mut])
	c.Note("version", row.name)
	c.Note("proof", pr)
	c.Note("signed", fmt.Sprintf("by %x over wc=%d addr=%x dl=%x domain=%q ts=%d payload=%q wrap=%d", []byte(sg.priv.Public().(ed25519.PublicKey)), sg.wc, sg.addr, sg.dl, sg.domain, sg.ts, sg.payload, sg.wrap))
	c.Note("server", fmt.Sprintf("secret=%q lifetimes proof=%d payload=%d expects domain %q; now=%d", secret, wld.lProof, wld.lPayload, wld.expectDomain, wld.now))
	c.Note("chain", fmt.Sprintf("exec mode %d, %d deployed, otherwise %s", execMode, len(e.deployed), failNames[e.failMode]))

	v := judge(wld, pr)
	c.Note("expected", fmt.Sprintf("accept=%v sure=%v: %s", v.accept, v.sure, v.why))
	if mut == mNone {
		c.Class("no mutation")
		honest := tsKind <= 2 && plKind <= 1 && execMode != 1
		if honest && !(v.sure && v.accept) {
			return fmt.Errorf("harness: honest case judged %+v", v.why)
		}
		if !honest && (!v.sure || v.accept) {
			return fmt.Errorf("harness: dishonest base case judged accept=%v sure=%v %s", v.accept, v.sure, v.why)
		}
		switch {
		case execMode == 1:
			c.Class("reject: chain reports another key")
		case tsKind > 2:
			c.Class("reject: proof expired")
		case plKind == 2, plKind == 4:
			c.Class("reject: foreign payload")
		case plKind == 3:
			c.Class("reject: payload expired")
		case v.siPath:
			c.Class("accept: key from state-init")
		default:
			c.Class("accept: key from chain")
		}
	} else {
		c.Class("mutation: " + mutNames[mut])
		if v.sure && v.accept {
			if !(neutral || (rebind && mut == mSIOtherVer)) {
				// rebinding the address to another wallet of the same key is an honest proof for that wallet
				return fmt.Errorf("harness: mutation %q judged acceptable: %s", mutNames[mut], v.why)
			}
			c.Class("mutation is an honest proof again")
		}
		if rebind {
			c.Class("address rebound to the mutated state-init")
		}
	}
	if v.siPath || !isASCII(pr.Proof.Domain) || mut != mNone {
		c.NonTrivial(mut, pr.Address, pr.Proof.Domain, pr.Proof.Timestamp-wld.now, plKind, pr.Proof.StateInit, execMode, e.failMode, wld.lProof, wld.lPayload, sg.dl)
	}
	if !isASCII(pr.Proof.Domain) {
		c.Class("non-ASCII domain")
	}
	if v.siPath {
		c.Class("not deployed: " + failNames[e.failMode])
	}

	if err := present(c, wld, srv, pr, "harness-signed proof", false); err != nil {
		return err
	}
	if pr.Proof.StateInit != "" {
		mode := parseWallet
		if isSIMut(mut) {
			mode = parseSound
		}
		if mut == mSIBadBase64 || mut == mSIRandom {
			mode = parseLenient
		}
		if err := checkParse(c, pr.Proof.StateInit, mode); err != nil {
			return err
		}
	}
	// the library's own client-side helper must produce proofs the server accepts
	if mut == mNone && w.siT != nil {
		acc := ton.AccountID{Workchain: wc, Address: tlb.Bits256(w.hash)}
		hp, err := tonconnect.CreateSignedProof(payload, acc, priv, *w.siT, tonconnect.ProofOptions{Timestamp: time.Unix(ts, 0), Domain: domain})
		if err != nil {
			return fmt.Errorf("CreateSignedProof: %v", err)
		}
		c.Class("CreateSignedProof cross-check")
		// a proof the key holder makes with the library's own helper is a genuine proof: where the harness-signed
		// proof for the same wallet, payload, domain and time is one the server has to accept, this one is too
		// (the reference reads the state-init text the way the server is specified to: padded standard base64)
		if v0, v1 := judge(wld, pr), judge(wld, hp); v0.accept && v0.sure && !v1.accept {
			return fmt.Errorf("CreateSignedProof made a proof that is not a genuine one by the reference's reading (%s) although the harness-signed proof for the same wallet, payload, domain and time is; state-init text %q, the wallet's state-init is %q", v1.why, hp.Proof.StateInit, w.si)
		}
		if err := present(c, wld, srv, hp, fmt.Sprintf("proof made by CreateSignedProof %+v", *hp), false); err != nil {
			return err
		}
	}
	return nil
}}

func indexOf(r *verRow) int {
	for i, x := range buildable {
		if x == r {
			return i
		}
	}
	return 0
}

// ---------------------------------------------------------------------------------------------
// c19/sweep: every single-bit / single-character substitution of the fields of a few valid proofs
// tape: proof number, field, index

var sweepFirst = []int{8, 10, 6, 9, 0, 3, 5, 7, 1, 2, 4}

const (
	fSig = iota
	fAddr
	fPayload
	fTs
	fDomain
	nFields
)

var sweepDomains = []string{"example.com", "пример.рф", "ton-connect.github.io", "例え.jp"}

func sweepSizes(pi int) [nFields]int {
	return [nFields]int{513, 256, 64, 64, len(sweepDomains[pi%len(sweepDomains)])}
}

var sweepCheck = &core.Check{Name: "c19/sweep", Fn: func(c *core.Ctx) error {
	pi, field, idx := c.Intn("proof", 1024), c.Intn("field", nFields), c.Intn("index", 513)
	row := buildable[sweepFirst[pi%len(sweepFirst)]]
	sm := core.NewSplitMix(uint64(pi)*7919 + 17)
	seed := make([]byte, 32)
	sm.Fill(seed)
	priv := ed25519.NewKeyFromSeed(seed)
	w := refWallet(row, priv, tcref.DataParams{SubWallet: uint64(wallet.DefaultSubWallet), Seqno: uint64(pi)})
	wc := int32(-(pi / 2 % 2))
	domain := sweepDomains[pi%len(sweepDomains)]
	e := &execDouble{deployed: map[ton.AccountID][]byte{}}
	if pi%2 == 0 {
		e.deployed[ton.AccountID{Workchain: wc, Address: tlb.Bits256(w.hash)}] = w.pub
	}
	secret := fmt.Sprintf("sweep-%d", pi)
	srv, err := newServer(e, secret, 0, 0)
	if err != nil {
		return err
	}
	wld := &world{secret: secret, lProof: defaultLife, lPayload: defaultLife, exec: e, expectDomain: domain, now: time.Now().Unix()}
	payload, err := srv.GeneratePayload()
	if err != nil {
		return err
	}
	sg := &signing{priv: priv, wc: wc, addr: w.hash, dl: tcref.LenLE(len(domain)), domain: domain, ts: wld.now, payload: payload}
	sig := sg.sign()
	pr := &tonconnect.Proof{Address: addrString(wc, w.hash)}
	pr.Proof.Timestamp, pr.Proof.Domain, pr.Proof.Payload, pr.Proof.StateInit = wld.now, domain, payload, w.si
	untouched := false
	sizes := sweepSizes(pi)
	idx %= sizes[field]
	switch field {
	case fSig:
		if idx == 512 {
			untouched = true
		} else {
			sig[idx/8] ^= 0x80 >> uint(idx%8)
		}
	case fAddr:
		h := append([]byte{}, w.hash...)
		h[idx/8] ^= 0x80 >> uint(idx%8)
		pr.Address = addrString(wc, h)
	case fPayload:
		b := []byte(payload)
		b[idx] ^= 1
		pr.Proof.Payload = string(b)
	case fTs:
		pr.Proof.Timestamp ^= int64(1) << uint(idx)
	case fDomain:
		b := []byte(domain)
		b[idx] ^= 1
		pr.Proof.Domain = string(b)
		wld.expectDomain = pr.Proof.Domain
	}
	pr.Proof.Signature = b64(sig)
	c.Note("proof number", pi)
	c.Note("version", row.name)
	c.Note("field", []string{"signature bit", "address bit", "payload character", "timestamp bit", "domain byte"}[field])
	c.Note("index", idx)
	c.Note("proof", pr)
	v := judge(wld, pr)
	if untouched != (v.sure && v.accept) {
		return fmt.Errorf("harness: untouched=%v but judged accept=%v sure=%v: %s", untouched, v.accept, v.sure, v.why)
	}
	if !untouched {
		c.NonTrivial(pi, field, idx)
	}
	if v.siPath {
		c.Class("key from state-init")
	} else {
		c.Class("key from chain")
	}
	return present(c, wld, srv, pr, "swept proof", false)
}}

// ---------------------------------------------------------------------------------------------
// c19/stateinit: ParseStateInit and the state-init path of CheckProof on arbitrary state-init strings

var allRows = append(append([]*verRow{}, buildable...), lockup)

var stateInitCheck = &core.Check{Name: "c19/stateinit", Quick: 6000, Thorough: 300000, Fn: func(c *core.Ctx) error {
	priv := drawKey(c, "key")
	pub := []byte(priv.Public().(ed25519.PublicKey))
	var si string
	mode := parseSound
	complete := true // built completely by the reference builder: a known wallet in it must be read
	kind := c.Weighted("kind", 6, 3, 1, 1)
	build := func() []byte {
		// a state-init shaped bag: any code (table rows weighted up), any data, optional fields, 1..3 roots
		var code, data *ref.RCell
		var row *verRow
		switch c.Weighted("code", 6, 1, 1) {
		case 0:
			row = allRows[c.Choose("row", len(allRows))]
			code = row.code
		case 1:
			code = randomCell(c, "code.random")
		}
		switch c.Weighted("data", 4, 2, 2, 1) {
		case 0:
			if row != nil {
				data = tcref.DataCell(row.layout, pub, tcref.DataParams{Seqno: c.U64("seqno"), SubWallet: c.U64("sub"), NetID: uint32(c.U64("net"))})
			} else {
				data = tcref.DataCell(tcref.LayoutV3, pub, tcref.DataParams{})
			}
		case 1:
			data = randomCell(c, "data.random")
			complete = false
		case 2: // cut at or around the key
			complete = false
			l := tcref.LayoutV5Beta
			if row != nil {
				l = row.layout
			}
			full := tcref.DataCell(l, pub, tcref.DataParams{}).Bits()
			n := c.Range("data.cut", 0, len(full))
			data = ref.NewRCell(full[:n].Clone(), false)
		}
		o := tcref.PlainSI()
		if c.Intn("split", 8) == 7 {
			o.SplitDepth = c.Intn("split.v", 32)
			complete = false
		}
		if c.Intn("special", 8) == 7 {
			o.Special = c.Intn("special.v", 4)
			complete = false
		}
		roots := []*ref.RCell{tcref.StateInit(code, data, o)}
		for n := c.Weighted("roots", 8, 1, 1); n > 0; n-- {
			roots = append(roots, tcref.StateInit(code, data, tcref.PlainSI()))
		}
		return ref.SerializeBOC(roots, drawVariant(c, "bag"))
	}
	switch kind {
	case 0:
		si = b64(build())
		if complete {
			mode = parseWallet
		}
		c.Class("constructed bag")
	case 1:
		raw := build()
		for n := c.Range("nmut", 1, 3); n > 0 && len(raw) > 0; n-- {
			i := c.Intn("mut.pos", len(raw))
			switch c.Choose("mut.kind", 3) {
			case 0:
				raw[i] ^= 1 << uint(c.Intn("mut.bit", 8))
			case 1:
				raw[i] = byte(c.Intn("mut.byte", 256))
			default:
				raw = raw[:i]
			}
		}
		si = b64(raw)
		mode = parseLenient
		c.Class("mutated bag")
	case 2:
		si = b64(c.Blob("bytes", 300))
		mode = parseLenient
		c.Class("arbitrary bytes")
	default:
		si = string(c.Blob("string", 100))
		mode = parseLenient
		c.Class("arbitrary string")
	}
	c.Note("state-init", si)
	in := tcref.Analyse(si, table)
	c.Note("reference", describe(in))
	c.Class("reference: " + strings.SplitN(strings.SplitN(describe(in), ",", 2)[0], " with ", 2)[0])
	if in.Bag && (in.Known == nil || in.Key == nil || !bytes.Equal(in.Key, pub) || in.Roots != 1) || !in.Bag {
		c.NonTrivial(si)
	}
	if err := checkParse(c, si, mode); err != nil {
		return err
	}
	if in.Hash == nil || (mode == parseLenient && !in.Bag) {
		return nil
	}
	// the attacker presents the string together with its own hash as the address
	e := &execDouble{deployed: map[ton.AccountID][]byte{}, failMode: c.Choose("exec.fail", nFailModes)}
	srv, err := newServer(e, "s", 0, 0)
	if err != nil {
		return err
	}
	wld := &world{secret: "s", lProof: defaultLife, lPayload: defaultLife, exec: e, expectDomain: "d.example", now: time.Now().Unix()}
	payload := tcref.Payload("s", c.Content("nonce", 8), uint64(wld.now))
	signer := priv
	if c.Intn("signer.other", 4) == 3 {
		signer = ed25519.NewKeyFromSeed(bytes.Repeat([]byte{0x11}, 32))
	}
	sg := &signing{priv: signer, wc: 0, addr: in.Hash, dl: tcref.LenLE(len(wld.expectDomain)), domain: wld.expectDomain, ts: wld.now, payload: payload}
	pr := &tonconnect.Proof{Address: addrString(0, in.Hash)}
	pr.Proof.Timestamp, pr.Proof.Domain, pr.Proof.Payload, pr.Proof.StateInit, pr.Proof.Signature = wld.now, wld.expectDomain, payload, si, b64(sg.sign())
	c.Note("proof", pr)
	v := judge(wld, pr)
	if v.sure && v.accept {
		c.Class("honest proof for a wallet with unusual initial data")
	}
	return present(c, wld, srv, pr, "proof for the address of the presented state-init", mode != parseWallet)
}}

// ---------------------------------------------------------------------------------------------
// c19/lockup: the one table entry without a data layout. A proof that nobody signed must not be accepted.

var lockupCheck = &core.Check{Name: "c19/lockup", Quick: 300, Thorough: 20000, Fn: func(c *core.Ctx) error {
	priv := drawKey(c, "key")
	pub := []byte(priv.Public().(ed25519.PublicKey))
	data := tcref.DataCell(tcref.LayoutLockup, pub, tcref.DataParams{Seqno: uint64(c.Intn("seqno", 100)), SubWallet: c.U64("sub")})
	if c.Intn("data.random", 4) == 3 {
		data = randomCell(c, "data")
	}
	root := tcref.StateInit(lockup.code, data, tcref.PlainSI())
	si := bag([]*ref.RCell{root}, drawVariant(c, "bag"))
	hash := root.ReprHash()
	wc := int32(-c.Intn("wc", 2))
	c.Note("state-init", si)
	c.NonTrivial(si, wc)
	e := &execDouble{deployed: map[ton.AccountID][]byte{}, failMode: c.Choose("exec.fail", nFailModes)}
	domain := drawDomain(c, "domain")
	srv, err := newServer(e, "lockup", 0, 0)
	if err != nil {
		return err
	}
	wld := &world{secret: "lockup", lProof: defaultLife, lPayload: defaultLife, exec: e, expectDomain: domain, now: time.Now().Unix()}
	payload, err := srv.GeneratePayload()
	if err != nil {
		return err
	}
	pr := &tonconnect.Proof{Address: addrString(wc, hash)}
	pr.Proof.Domain, pr.Proof.Payload, pr.Proof.StateInit = domain, payload, si
	if c.Bool("honest") {
		// the real owner signs: the server may or may not support lockup wallets, but it must not name another key
		c.Class("signed by the owner")
		pr.Proof.Timestamp = wld.now
		sg := &signing{priv: priv, wc: wc, addr: hash, dl: tcref.LenLE(len(domain)), domain: domain, ts: wld.now, payload: payload}
		pr.Proof.Signature = b64(sg.sign())
		c.Note("proof", pr)
		if err := present(c, wld, srv, pr, "lockup wallet proof signed by its owner", true); err != nil {
			return err
		}
		return checkParse(c, si, parseSound)
	}
	// nobody signs: R = neutral element, S = 0 verifies under the all-zero "key" (a point of order 4) for one
	// message in four; the attacker picks the timestamp accordingly
	forged := make([]byte, 64)
	forged[0] = 1
	pr.Proof.Signature = b64(forged)
	zero := make([]byte, 32)
	found := false
	for d := int64(0); d < 100; d++ {
		if ed25519.Verify(zero, tcref.Digest(wc, hash, domain, wld.now-d, payload), forged) {
			pr.Proof.Timestamp = wld.now - d
			found = true
			break
		}
	}
	if !found {
		c.Class("no forgeable timestamp among 100")
		pr.Proof.Timestamp = wld.now
	} else {
		c.Class("forged signature for the all-zero key")
	}
	c.Note("proof", pr)
	var o outcome
	perr := core.Protect(func() error {
		o.ok, o.key, o.err = srv.CheckProof(context.Background(), pr, srv.CheckPayload, tonconnect.StaticDomain(domain))
		return nil
	})
	if perr != nil {
		return fmt.Errorf("CheckProof panicked: %w", perr)
	}
	if o.ok {
		in := tcref.Analyse(si, table)
		if in.Key != nil && bytes.Equal(o.key, in.Key) && tcref.Verify(in.Key, wc, hash, domain, pr.Proof.Timestamp, payload, pr.Proof.Signature) {
			// drawn data whose key field itself is a weak key: the server read the data correctly
			c.Class("the data holds a weak key")
			return nil
		}
		if c.Known(findLockupKey) {
			return nil
		}
		return fmt.Errorf("a proof that no key holder signed (signature = neutral element, 0) is accepted for the address of a state-init with the V3R2Lockup code: CheckProof = %v; the key field of the wallet's data is %x", o, in.Key)
	}
	if o.err == nil {
		return fmt.Errorf("CheckProof = %v: rejected without an error", o)
	}
	return checkParse(c, si, parseSound)
}}

// ---------------------------------------------------------------------------------------------

func TestProp(t *testing.T) {
	t.Run("proof", func(t *testing.T) { core.Run(t, proofCheck) })
	t.Run("stateinit", func(t *testing.T) { core.Run(t, stateInitCheck) })
	t.Run("lockup", func(t *testing.T) { core.Run(t, lockupCheck) })
}

func TestEnum(t *testing.T) {
	n := core.Scale(4, 44)
	core.RunEnum(t, sweepCheck, fmt.Sprintf("%d valid proofs (wallet versions rotating, key from chain / from state-init alternating): every signature bit, every address bit, the low bit of every payload character, every timestamp bit, the low bit of every domain byte flipped, and the untouched proof", n), func(yield func(...uint64) bool) {
		for pi := 0; pi < n; pi++ {
			sizes := sweepSizes(pi)
			for f := 0; f < nFields; f++ {
				for i := 0; i < sizes[f]; i++ {
					if !yield(uint64(pi), uint64(f), uint64(i)) {
						return
					}
				}
			}
		}
	})
}

// TestLayouts pins the reference's data layouts to the addresses tongo's wallet package computes for
// default parameters (a disagreement here is a harness or wallet-package problem, not a C19 violation).
func TestLayouts(t *testing.T) {
	priv := ed25519.NewKeyFromSeed(bytes.Repeat([]byte{42}, 32))
	pub := priv.Public().(ed25519.PublicKey)
	for _, r := range buildable {
		want, err := wallet.GenerateWalletAddress(pub, r.v, nil, 0, nil)
		if err != nil {
			t.Fatalf("%s: %v", r.name, err)
		}
		p := tcref.DataParams{SubWallet: uint64(wallet.DefaultSubWallet)}
		switch r.layout {
		case tcref.LayoutV5Beta:
			id := int32(wallet.MainnetGlobalID)
			p = tcref.DataParams{NetID: uint32(id)}
		case tcref.LayoutV5R1:
			id := int32(wallet.MainnetGlobalID)
			p = tcref.DataParams{SubWallet: uint64(uint32(id) ^ 0x80000000)}
		}
		got := tcref.StateInit(r.code, tcref.DataCell(r.layout, pub, p), tcref.PlainSI()).ReprHash()
		if !bytes.Equal(got, want.Address[:]) {
			t.Errorf("%s: reference state-init hashes to %x, wallet.GenerateWalletAddress gives %x", r.name, got, want.Address[:])
		}
	}
}

func TestReplay(t *testing.T) {
	core.Replay(t, proofCheck, sweepCheck, stateInitCheck, lockupCheck, ageCheck, clockCheck, concurrentCheck, sequenceCheck)
}
