package c19

import (
	"bytes"
	"context"
	"crypto/ed25519"
	"errors"
	"fmt"
	"runtime"
	"sync"
	"testing"
	"time"

	"github.com/tonkeeper/tongo/tlb"
	"github.com/tonkeeper/tongo/ton"
	"github.com/tonkeeper/tongo/tonconnect"
	"github.com/tonkeeper/tongo/wallet"

	"verifharness/internal/core"
	"verifharness/internal/tcref"
)

// c19/concurrent: one server is used by many goroutines at once, as a web backend does: each asks for
// payloads, checks them and presents proofs of its own wallets. Every payload the server issued must be
// accepted, every payload under another secret refused, every valid proof accepted with the wallet's key and
// every proof signed by another key refused - whatever the other goroutines are doing.

type chainKeys struct{ keys map[ton.AccountID][]byte } // read-only after construction

func (e chainKeys) RunSmcMethodByID(ctx context.Context, a ton.AccountID, methodID int, params tlb.VmStack) (uint32, tlb.VmStack, error) {
	if k, ok := e.keys[a]; ok && methodID == getPublicKey {
		return 0, tlb.VmStack{intEntry(k)}, nil
	}
	return 0, nil, errors.New("account is not deployed")
}

var concurrentCheck = &core.Check{Name: "c19/concurrent", Quick: 1, Thorough: 60, Fn: func(c *core.Ctx) error {
	workers := c.OneOf("goroutines", 2, 4, 8, 16)
	rounds := c.Range("rounds", 100, 400)
	procs := c.OneOf("gomaxprocs", 2, 4, 16)
	seed := c.U64("seed")
	secret := drawSecret(c, "secret")
	c.Note("goroutines", workers)
	c.Note("rounds", rounds)
	c.NonTrivial(workers, rounds, procs, seed)
	prev := runtime.GOMAXPROCS(procs)
	defer runtime.GOMAXPROCS(prev)

	// every goroutine owns two wallets: one known to the chain, one that must be proven through its state-init
	type own struct {
		priv  ed25519.PrivateKey
		w     *wal
		other ed25519.PrivateKey
	}
	owns := make([][2]own, workers)
	exec := chainKeys{keys: map[ton.AccountID][]byte{}}
	for g := range owns {
		for k := 0; k < 2; k++ {
			sm := core.NewSplitMix(seed + uint64(g*2+k)*104729)
			s1, s2 := make([]byte, 32), make([]byte, 32)
			sm.Fill(s1)
			sm.Fill(s2)
			priv := ed25519.NewKeyFromSeed(s1)
			row := buildable[sweepFirst[(g+k)%len(sweepFirst)]]
			w := refWallet(row, priv, tcref.DataParams{SubWallet: uint64(wallet.DefaultSubWallet), Seqno: uint64(g)})
			owns[g][k] = own{priv: priv, w: w, other: ed25519.NewKeyFromSeed(s2)}
			if k == 0 {
				exec.keys[ton.AccountID{Workchain: 0, Address: tlb.Bits256(w.hash)}] = w.pub
			}
		}
	}
	srv, err := tonconnect.NewTonConnect(exec, secret)
	if err != nil {
		return fmt.Errorf("NewTonConnect: %v", err)
	}
	foreign, err := tonconnect.NewTonConnect(exec, secret+"'")
	if err != nil {
		return fmt.Errorf("NewTonConnect: %v", err)
	}
	const domain = "example.com"
	errs := make([]error, workers)
	var wg sync.WaitGroup
	start := make(chan struct{})
	for g := 0; g < workers; g++ {
		wg.Add(1)
		go func(g int) {
			defer wg.Done()
			defer func() {
				if r := recover(); r != nil {
					errs[g] = fmt.Errorf("goroutine %d (%d goroutines on one server): panic: %v", g, workers, r)
				}
			}()
			<-start
			for r := 0; r < rounds; r++ {
				fail := func(format string, args ...any) {
					errs[g] = fmt.Errorf("goroutine %d round %d (%d goroutines on one server): %s", g, r, workers, fmt.Sprintf(format, args...))
				}
				payload, err := srv.GeneratePayload()
				if err != nil {
					fail("GeneratePayload: %v", err)
					return
				}
				if _, wf, auth := tcref.PayloadInfo(secret, payload); !wf || !auth {
					fail("GeneratePayload() = %q is not a payload under the server's secret", payload)
					return
				}
				if ok, err := srv.CheckPayload(payload); !ok || err != nil {
					fail("CheckPayload refuses the payload %q the server has just issued: %v, %v", payload, ok, err)
					return
				}
				if r%4 == 0 {
					fp, err := foreign.GeneratePayload()
					if err == nil {
						if ok, _ := srv.CheckPayload(fp); ok {
							fail("CheckPayload accepts %q, which was issued under another secret", fp)
							return
						}
					}
				}
				o := owns[g][r%2]
				now := time.Now().Unix()
				sg := &signing{priv: o.priv, wc: 0, addr: o.w.hash, dl: tcref.LenLE(len(domain)), domain: domain, ts: now, payload: payload}
				forged := r%3 == 0
				if forged {
					sg.priv = o.other
				}
				pr := &tonconnect.Proof{Address: addrString(0, o.w.hash)}
				pr.Proof.Timestamp, pr.Proof.Domain, pr.Proof.Payload, pr.Proof.StateInit = now, domain, payload, o.w.si
				pr.Proof.Signature = b64(sg.sign())
				ok, key, err := srv.CheckProof(context.Background(), pr, srv.CheckPayload, tonconnect.StaticDomain(domain))
				switch {
				case forged && (ok || err == nil):
					fail("a proof signed by another key was accepted: %v, %x, %v", ok, key, err)
					return
				case !forged && (!ok || err != nil || !bytes.Equal(key, o.w.pub)):
					fail("a valid proof of this goroutine's own wallet (key from %s) gives %v, %x, %v; want true, %x", []string{"the chain", "the state-init"}[r%2], ok, key, err, o.w.pub)
					return
				}
			}
		}(g)
	}
	close(start)
	wg.Wait()
	for _, e := range errs {
		if e != nil {
			return e
		}
	}
	return nil
}}

func TestConcurrent(t *testing.T) { core.Run(t, concurrentCheck) }
