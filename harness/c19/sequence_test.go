package c19

import (
	"crypto/ed25519"
	"crypto/sha256"
	"fmt"
	"strings"
	"testing"
	"time"

	"github.com/tonkeeper/tongo/tlb"
	"github.com/tonkeeper/tongo/ton"
	"github.com/tonkeeper/tongo/tonconnect"

	"verifharness/internal/core"
	"verifharness/internal/tcref"
)

// c19/sequence: ONE server value checks several proofs one after the other while the chain changes between
// the calls. The property speaks about the key controlling the address, i.e. what the chain (the executor)
// answers when the proof is presented; nothing the server has seen in an earlier call may enter the verdict.
// Between two presentations for the same address the account's key may change (K -> K'), the account may
// stop answering get_public_key (so the key has to come from the state-init) or start answering it (so the
// key in the state-init no longer counts). Every presentation is judged by the same reference model as
// c19/proof against the chain state at the time of the call.

type seqAddr struct {
	w    *wal
	wc   int32
	id   ton.AccountID
	last *tonconnect.Proof // the proof presented last for this address
	seen string            // what the chain said about the address when a proof for it was last presented
}

// seqKey: a key from drawn content; the role byte keeps the keys of one case apart when the drawn contents
// coincide (all zero, all ff).
func seqKey(c *core.Ctx, label string, role byte) ed25519.PrivateKey {
	seed := append([]byte{}, c.Content(label, 32)...)
	seed[31] ^= role
	return ed25519.NewKeyFromSeed(seed)
}

var sequenceCheck = &core.Check{Name: "c19/sequence", Quick: 1500, Thorough: 80000, Fn: func(c *core.Ctx) error {
	secret := drawSecret(c, "secret")
	domain := "example.com"
	if c.Intn("domain.other", 4) == 0 {
		domain = drawDomain(c, "domain")
	}
	nAddr := 1 + c.Weighted("addresses", 3, 2)
	steps := c.Range("steps", 2, 8)

	// key 0 is the address's own key (the one in its state-init), keys 1 and 2 are foreign to every address
	foreign := [2]ed25519.PrivateKey{}
	for i := range foreign {
		foreign[i] = seqKey(c, fmt.Sprintf("foreign%d", i+1), byte(i+1))
	}
	addrs := make([]*seqAddr, nAddr)
	for i := range addrs {
		row := buildable[c.Choose(fmt.Sprintf("a%d.version", i), len(buildable))]
		priv := seqKey(c, fmt.Sprintf("a%d.key", i), byte(0x10+i))
		w := refWallet(row, priv, tcref.DataParams{SubWallet: c.U64(fmt.Sprintf("a%d.sub", i)), Seqno: uint64(c.Intn(fmt.Sprintf("a%d.seqno", i), 1<<16))})
		wc := []int32{0, 0, -1}[c.Choose(fmt.Sprintf("a%d.wc", i), 3)]
		addrs[i] = &seqAddr{w: w, wc: wc, id: ton.AccountID{Workchain: wc, Address: tlb.Bits256(w.hash)}}
	}
	keyOf := func(a *seqAddr, k int) ed25519.PrivateKey {
		if k == 0 {
			return a.w.priv
		}
		return foreign[k-1]
	}
	// the three keys of an address must differ, otherwise "old key" and "new key" mean nothing
	for i, a := range addrs {
		for k := 0; k < 3; k++ {
			for k2 := k + 1; k2 < 3; k2++ {
				if keyOf(a, k).Equal(keyOf(a, k2)) {
					c.Class("skipped: drawn keys coincide")
					return nil
				}
			}
		}
		for j := 0; j < i; j++ {
			if addrs[j].id == a.id {
				c.Class("skipped: drawn addresses coincide")
				return nil
			}
		}
	}
	keyNames := []string{"own key", "K1", "K2"}

	e := &execDouble{deployed: map[ton.AccountID][]byte{}, failMode: c.Choose("exec.fail", nFailModes)}
	srv, err := newServer(e, secret, 0, 0)
	if err != nil {
		return fmt.Errorf("NewTonConnect: %v", err)
	}
	wld := &world{secret: secret, lProof: defaultLife, lPayload: defaultLife, exec: e, expectDomain: domain}
	chainSays := func(a *seqAddr) string {
		if k, ok := e.deployed[a.id]; ok {
			return fmt.Sprintf("get_public_key = %x", k[:4])
		}
		return "no key on chain"
	}

	var history []string
	changed := 0
	var trace strings.Builder
	for s := 0; s < steps; s++ {
		lab := fmt.Sprintf("s%d", s)
		ai := 0
		if nAddr > 1 {
			ai = c.Choose(lab+".addr", nAddr)
		}
		a := addrs[ai]
		// 1. the chain moves on
		var op string
		switch k := c.Weighted(lab+".chain", 2, 3, 3, 3, 3, 1, 1); k {
		case 0:
			op = "chain unchanged"
		case 1, 2, 3:
			e.deployed[a.id] = []byte(keyOf(a, k-1).Public().(ed25519.PublicKey))
			op = fmt.Sprintf("get_public_key of address %d now returns %s", ai, keyNames[k-1])
		case 4:
			delete(e.deployed, a.id)
			op = fmt.Sprintf("address %d no longer answers get_public_key (%s)", ai, failNames[e.failMode])
		case 5:
			e.failMode = c.Choose(lab+".fail", nFailModes)
			op = "addresses without a wallet now answer: " + failNames[e.failMode]
		default:
			e.exitOne = !e.exitOne
			op = fmt.Sprintf("deployed wallets finish with exit code 1: %v", e.exitOne)
		}
		// 2. a proof for the address is presented
		var pr *tonconnect.Proof
		var how string
		if a.last != nil && c.Intn(lab+".again", 5) == 0 {
			pr, how = a.last, "the same proof as before"
		} else {
			signer := c.Choose(lab+".signer", 3)
			withSI := c.Intn(lab+".si", 3) != 0
			payload, err := srv.GeneratePayload()
			if err != nil {
				return fmt.Errorf("GeneratePayload: %v", err)
			}
			now := time.Now().Unix()
			sg := &signing{priv: keyOf(a, signer), wc: a.wc, addr: a.w.hash, dl: tcref.LenLE(len(domain)), domain: domain, ts: now, payload: payload}
			pr = &tonconnect.Proof{Address: addrString(a.wc, a.w.hash)}
			pr.Proof.Timestamp, pr.Proof.Domain, pr.Proof.Payload = now, domain, payload
			pr.Proof.Signature = b64(sg.sign())
			how = "signed by " + keyNames[signer]
			if withSI {
				pr.Proof.StateInit = a.w.si
				how += ", with the address's state-init"
			} else {
				how += ", without state-init"
			}
		}
		a.last = pr
		now := chainSays(a)
		if a.seen != "" && a.seen != now {
			changed++
			switch {
			case a.seen == "no key on chain":
				c.Class("address started to answer get_public_key between two proofs")
			case now == "no key on chain":
				c.Class("address stopped answering get_public_key between two proofs")
			default:
				c.Class("key of the address changed on chain between two proofs")
			}
		}
		a.seen = now
		line := fmt.Sprintf("step %d: %s; proof for address %d (%s) %s", s, op, ai, now, how)
		history = append(history, line)
		fmt.Fprintf(&trace, "%d|%s|%s|%s;", ai, op, now, how)
		c.Note(lab, line)
		wld.now = time.Now().Unix()
		if err := present(c, wld, srv, pr, "one server, calls in sequence:\n    "+strings.Join(history, "\n    ")+"\n  last call", false); err != nil {
			return err
		}
	}
	if changed > 0 {
		h := sha256.Sum256([]byte(trace.String()))
		c.NonTrivial(fmt.Sprintf("%s|%s|%x", secret, domain, h[:12]))
	} else {
		c.Class("chain answer never changed between two proofs for one address")
	}
	return nil
}}

func TestSequence(t *testing.T) { core.Run(t, sequenceCheck) }
