package c08

import (
	"bytes"
	"fmt"
	"reflect"
	"testing"

	"github.com/tonkeeper/tongo/boc"
	"github.com/tonkeeper/tongo/liteclient"
	"github.com/tonkeeper/tongo/tl"

	"verifharness/internal/core"
	"verifharness/internal/ref"
)

// Byte-level entry points for coverage-guided fuzzing (thorough tier). The first two bytes select the
// decode target, the rest is the input; the oracle is the same totality/resource oracle as above.

var tlRaw = &core.Check{Name: "c08/tl-raw", Hang: hang, Fn: func(c *core.Ctx) error {
	in := c.Blob("input", 1<<16)
	if len(in) < 2 {
		return nil
	}
	t := tlTypes[(int(in[0])<<8|int(in[1]))%len(tlTypes)]
	data := in[2:]
	c.Note("type", typeName(t))
	c.NonTrivial(typeName(t), data)
	out := reflect.New(t)
	var perr error
	alloc := core.AllocDelta(func() {
		perr = core.Protect(func() error { tl.Unmarshal(bytes.NewReader(data), out.Interface()); return nil })
	})
	if perr != nil {
		return fmt.Errorf("tl.Unmarshal into %s panicked: %v\ninput %x", typeName(t), perr, trunc(data))
	}
	if bound := uint64(64<<20) + 1024*uint64(len(data)); alloc > bound {
		return fmt.Errorf("tl.Unmarshal into %s allocated %d bytes for %d input bytes\ninput %x", typeName(t), alloc, len(data), trunc(data))
	}
	if perr := core.Protect(func() error { liteclient.LiteapiRequestDecoder(data); return nil }); perr != nil {
		return fmt.Errorf("LiteapiRequestDecoder panicked: %v\ninput %x", perr, trunc(data))
	}
	return nil
}}

var tlbRaw = &core.Check{Name: "c08/tlb-raw", Hang: hang, Fn: func(c *core.Ctx) error {
	in := c.Blob("input", 1<<16)
	if len(in) < 2 {
		return nil
	}
	sel := int(in[0])<<8 | int(in[1])
	t := tlbTypes[sel%len(tlbTypes)]
	// the selector's quotient picks the decoder configuration (0: the caching decoder, as before)
	d := rawDecoders[sel/len(tlbTypes)%len(rawDecoders)]
	data := in[2:]
	c.Note("type", typeName(t))
	c.Note("decoder", decoderNames[d])
	roots, err := ref.ParseBOC(data)
	if err != nil || len(roots) == 0 {
		return nil
	}
	cells, err := boc.DeserializeBoc(data)
	if err != nil || len(cells) == 0 {
		return nil
	}
	u := unfolded(roots[0], maxUnfold)
	if u > maxUnfold {
		return nil
	}
	c.NonTrivial(typeName(t), data)
	out := reflect.New(t)
	var perr error
	alloc := core.AllocDelta(func() {
		perr = core.Protect(func() error { runDecoder(newDecoder(d, fixedLibTree, nil), cells[0], out.Interface()); return nil })
	})
	if perr != nil {
		return fmt.Errorf("decoding into %s with %s panicked: %v\ninput BOC %x", typeName(t), describeDecoder(d), perr, trunc(data))
	}
	if bound := uint64(16<<20) + uint64(64<<10)*uint64(u)*uint64(1+fixedLibTree.cells()); alloc > bound {
		return fmt.Errorf("decoding into %s allocated %d bytes for a tree that unfolds to %d cells\ninput BOC %x", typeName(t), alloc, u, trunc(data))
	}
	return nil
}}

var rawDecoders = []int{decHasher, decDebug, decDebugResolver, decPlain, decZeroDebug, decResolver, decDebugNotFound}

func fuzzSeedsTL() [][]byte {
	var out [][]byte
	for i := 0; i < len(tlTypes); i += 3 {
		v := reflect.New(tlTypes[i]).Elem()
		b, err := func() (b []byte, err error) {
			defer func() {
				if r := recover(); r != nil {
					err = fmt.Errorf("%v", r)
				}
			}()
			return tl.Marshal(v.Interface())
		}()
		if err == nil {
			out = append(out, append([]byte{byte(i >> 8), byte(i)}, b...))
		}
	}
	out = append(out, []byte{0, 0, 0xfe, 0xff, 0xff, 0xff}, []byte{0, 1, 0xff, 0xff, 0xff, 0x7f, 1, 2, 3, 4})
	return out
}

func fuzzSeedsTLB() [][]byte {
	var out [][]byte
	leaf := ref.NewRCell(ref.Bits{}.AppendUint(0x1234, 16), false)
	mid := ref.NewRCell(ref.Bits{}.AppendUint(0xabcdef, 24), false, leaf, leaf)
	root := ref.NewRCell(ref.Bits{}.AppendUint(3, 2), false, mid, leaf)
	b := ref.SerializeBOC([]*ref.RCell{root}, ref.BocVariant{})
	for i := 0; i < len(tlbTypes); i += 7 {
		out = append(out, append([]byte{byte(i >> 8), byte(i)}, b...))
	}
	// the same with the debug-mode decoders
	for k := 1; k < len(rawDecoders); k++ {
		for i := k; i < len(tlbTypes) && (k+1)*len(tlbTypes) <= 1<<16; i += 131 {
			sel := k*len(tlbTypes) + i
			out = append(out, append([]byte{byte(sel >> 8), byte(sel)}, b...))
		}
	}
	return out
}

func FuzzTL(f *testing.F)  { core.Fuzz(f, tlRaw, fuzzSeedsTL()...) }
func FuzzTLB(f *testing.F) { core.Fuzz(f, tlbRaw, fuzzSeedsTLB()...) }
