// C08 — TL-B and TL decoders are total on untrusted input.
package c08

import (
	"bytes"
	"errors"
	"fmt"
	"reflect"
	"strings"
	"testing"
	"time"

	"github.com/tonkeeper/tongo/abi"
	"github.com/tonkeeper/tongo/boc"
	"github.com/tonkeeper/tongo/code"
	"github.com/tonkeeper/tongo/liteclient"
	"github.com/tonkeeper/tongo/tl"
	"github.com/tonkeeper/tongo/tlb"

	"verifharness/internal/core"
	"verifharness/internal/gen"
	"verifharness/internal/ref"
	"verifharness/internal/tlbgen"
	"verifharness/internal/typereg"
)

func TestMain(m *testing.M) { core.Main(m, "C08") }

const hang = 30 * time.Second

// decode targets: every registry type that is a TL-B type (incl. the decode-only ones)
var tlbTypes = func() []reflect.Type {
	var out []reflect.Type
	for _, t := range typereg.All() {
		if ok, _ := tlbgen.IsTLBType(t); ok || tlbgen.HasDecoder(t) {
			out = append(out, t)
		}
	}
	return out
}()

func typeName(t reflect.Type) string {
	s := strings.ReplaceAll(t.String(), "github.com/tonkeeper/tongo/", "")
	if len(s) > 90 {
		s = s[:90] + "…"
	}
	return s
}

// unfolded counts the cell visits of a full unfolding of the DAG, capped.
func unfolded(root *ref.RCell, limit int) int {
	memo := map[*ref.RCell]int{}
	var rec func(x *ref.RCell) int
	rec = func(x *ref.RCell) int {
		if v, ok := memo[x]; ok {
			return v
		}
		n := 1
		for _, r := range x.Refs {
			n += rec(r)
			if n > limit {
				n = limit + 1
				break
			}
		}
		memo[x] = n
		return n
	}
	return rec(root)
}

const maxUnfold = 100000

// decodeTLB is the oracle of the TL-B half for one (type, cell tree, decoder configuration).
func decodeTLB(c *core.Ctx, t reflect.Type, root *ref.RCell, d int) error {
	u := unfolded(root, maxUnfold)
	if u > maxUnfold {
		c.Class("skipped: unfolding above the bound")
		return nil
	}
	var lib *libTree
	if decoderResolves(d) {
		lib = drawLibTree(c)
		// one case in four: the input itself is the library, the decoder gets a library cell that names it
		if c.Choose("lib.is-input", 4) == 0 && u <= 20000 && !hasSpecial(root) {
			lib.tree = root
			root = ref.NewRCell(ref.Bits{}.AppendUint(2, 8).AppendBytes(root.ReprHash()), true)
			c.Class("input behind a library cell")
		} else if c.Choose("lib.again", 6) == 0 {
			lib.again = true
			if c.Bool("lib.again.root") && !hasSpecial(root) { // make sure the decoder asks: the input is a library cell
				root = ref.NewRCell(ref.Bits{}.AppendUint(2, 8).AppendBytes(root.ReprHash()), true)
			}
			c.Class("resolver answers with a library cell again")
		}
	}
	data := ref.SerializeBOC([]*ref.RCell{root}, ref.BocVariant{})
	cells, err := boc.DeserializeBoc(data)
	if err != nil {
		// the reference serialiser wrote something tongo's parser refuses (e.g. ill-formed special cell):
		// nothing to decode
		c.Class("input refused by the BOC parser")
		return nil
	}
	c.Checkpoint()
	name := typeName(t)
	out := reflect.New(t)
	var derr error
	var perr error
	resolved := 0
	dec := newDecoder(d, lib, &resolved)
	alloc := core.AllocDelta(func() {
		perr = core.Protect(func() error {
			derr = runDecoder(dec, cells[0], out.Interface())
			return nil
		})
	})
	if perr != nil {
		return fmt.Errorf("decoding into %s with %s panicked: %v\ninput BOC %x", name, describeDecoder(d), perr, trunc(data))
	}
	// a resolved library stands for the cells the resolver handed out: they are part of what the input unfolds to
	ue := uint64(u) + uint64(resolved)*uint64(lib.cells())
	bound := uint64(16<<20) + uint64(64<<10)*ue
	if alloc > bound {
		return fmt.Errorf("decoding into %s with %s allocated %d bytes for a tree that unfolds to %d cells (bound %d)\ninput BOC %x", name, describeDecoder(d), alloc, ue, bound, trunc(data))
	}
	if resolved > 0 {
		c.Class("library resolver called")
	}
	if dec != nil && decoderHasDebug(d) {
		// the same decoder again (a decoder is made once and used for many cells): whatever the first call
		// left in it, the second call returns a value or an error too
		resetAll(cells[0])
		if perr := core.Protect(func() error { dec.Unmarshal(cells[0], reflect.New(t).Interface()); return nil }); perr != nil {
			return fmt.Errorf("decoding into %s with %s panicked when the decoder was used a second time (first result: %v): %v\ninput BOC %x", name, describeDecoder(d), derr, perr, trunc(data))
		}
	}
	if derr != nil {
		c.Class("decode error")
		return nil
	}
	c.Class("decoded")
	// exercise the encoder on decoder output: errors are fine, panics are not (small inputs only: the
	// property is about decoders, and some encoders are slow on very long lists)
	if ue > 2000 {
		return nil
	}
	if perr := core.Protect(func() error { tlb.Marshal(boc.NewCell(), out.Elem().Interface()); return nil }); perr != nil {
		return fmt.Errorf("re-encoding a decoded %s panicked: %v\ninput BOC %x", name, perr, trunc(data))
	}
	return nil
}

func trunc(b []byte) []byte {
	if len(b) > 400 {
		return b[:400]
	}
	return b
}

// mutateTree applies one structural mutation to a copy of the tree.
func mutateTree(c *core.Ctx, root *ref.RCell) *ref.RCell {
	// collect nodes of a deep copy
	var nodes []*ref.RCell
	memo := map[*ref.RCell]*ref.RCell{}
	var cp func(x *ref.RCell) *ref.RCell
	cp = func(x *ref.RCell) *ref.RCell {
		if y, ok := memo[x]; ok {
			return y
		}
		y := &ref.RCell{Data: append([]byte{}, x.Data...), BitLen: x.BitLen, Special: x.Special}
		memo[x] = y
		if len(nodes) < 4000 {
			nodes = append(nodes, y)
		}
		for _, r := range x.Refs {
			y.Refs = append(y.Refs, cp(r))
		}
		return y
	}
	nr := cp(root)
	n := nodes[c.Choose("node", len(nodes))]
	bits := n.Bits()
	setBits := func(b ref.Bits) {
		if len(b) > 1023 {
			b = b[:1023]
		}
		n.Data, n.BitLen = b.Packed(), len(b)
	}
	kind := c.Choose("tmut", 12)
	c.Class(fmt.Sprintf("mutation %02d", kind))
	switch kind {
	case 0: // flip a bit
		if len(bits) > 0 {
			i := c.Choose("bit", len(bits))
			bits[i] = !bits[i]
			setBits(bits)
		}
	case 1: // cut the tail
		setBits(bits[:c.Choose("cut", len(bits)+1)])
	case 2: // insert bits
		i := c.Choose("at", len(bits)+1)
		ins := ref.Bits(c.Bits("ins", 1+c.Intn("nins", 16)))
		setBits(append(append(bits[:i:i], ins...), bits[i:]...))
	case 3: // delete bits
		if len(bits) > 0 {
			i := c.Choose("at", len(bits))
			j := i + 1 + c.Intn("ndel", 16)
			if j > len(bits) {
				j = len(bits)
			}
			setBits(append(bits[:i:i], bits[j:]...))
		}
	case 4: // drop a ref
		if len(n.Refs) > 0 {
			i := c.Choose("ref", len(n.Refs))
			n.Refs = append(n.Refs[:i:i], n.Refs[i+1:]...)
		}
	case 5: // duplicate a ref
		if len(n.Refs) > 0 && len(n.Refs) < 4 {
			n.Refs = append(n.Refs, n.Refs[c.Choose("ref", len(n.Refs))])
		}
	case 6: // swap refs
		if len(n.Refs) > 1 {
			n.Refs[0], n.Refs[len(n.Refs)-1] = n.Refs[len(n.Refs)-1], n.Refs[0]
		}
	case 7: // replace a child by a pruned branch of a drawn mask
		if len(n.Refs) > 0 {
			i := c.Choose("ref", len(n.Refs))
			ch := n.Refs[i]
			if ch.WellFormed() == nil && ch.Level() < 3 {
				n.Refs[i] = ref.PrunedFor(ch, ch.Mask()|1<<uint(ch.Level()+c.Intn("d", 3-ch.Level())))
			}
		}
	case 8: // replace a child by a library cell
		if len(n.Refs) > 0 {
			var b ref.Bits
			b = b.AppendUint(2, 8).AppendBytes(c.Content("lib", 32))
			n.Refs[c.Choose("ref", len(n.Refs))] = ref.NewRCell(b, true)
		}
	case 9: // wrap a child into a Merkle proof cell
		if len(n.Refs) > 0 {
			i := c.Choose("ref", len(n.Refs))
			if n.Refs[i].WellFormed() == nil {
				n.Refs[i] = ref.MerkleProofOf(n.Refs[i])
			}
		}
	case 10: // the node itself becomes "special" with a drawn type byte
		if len(bits) >= 8 {
			n.Special = true
		}
	case 11: // all bits replaced by random ones of a drawn length
		setBits(ref.Bits(c.Bits("rnd", c.Range("rndlen", 0, 1023))))
	}
	return nr
}

var mutated = &core.Check{Name: "c08/tlb-mutated", Quick: 20000, Thorough: 1500000, Hang: hang, Fn: func(c *core.Ctx) error {
	t := tlbTypes[c.Choose("type", len(tlbTypes))]
	c.Note("type", typeName(t))
	g := &tlbgen.G{C: c}
	var root *ref.RCell
	v, gerr := g.Value(t, 3)
	if gerr == nil {
		cell := boc.NewCell()
		var merr error
		if perr := core.Protect(func() error { merr = tlb.Marshal(cell, v.Interface()); return nil }); perr == nil && merr == nil {
			root, _ = gen.FromTongo(cell, 20000)
		}
	}
	if root == nil {
		c.Class("seed: random tree (no valid encoding available)")
		nodes := gen.Dag(c, gen.DagOpts{MaxNodes: 1 + c.Intn("nodes", 8)})
		root = nodes[len(nodes)-1]
	} else {
		c.Class("seed: valid encoding")
	}
	nm := c.Intn("nmut", 3)
	for i := 0; i < nm; i++ {
		root = mutateTree(c, root)
	}
	if nm > 0 {
		c.NonTrivial(typeName(t), root.ReprHash())
	}
	return decodeTLB(c, t, root, drawDecoder(c))
}}

var random = &core.Check{Name: "c08/tlb-random", Quick: 15000, Thorough: 1000000, Hang: hang, Fn: func(c *core.Ctx) error {
	t := tlbTypes[c.Choose("type", len(tlbTypes))]
	c.Note("type", typeName(t))
	var root *ref.RCell
	switch c.Weighted("shape", 8, 1, 1, 1) {
	case 0:
		nodes := gen.Dag(c, gen.DagOpts{MaxNodes: 1 + c.Intn("nodes", 12), Exotic: c.Bool("exotic")})
		root = nodes[len(nodes)-1]
	case 1: // sharing ladder: unfolding doubles per level, bounded by the unfold limit
		n := c.OneOf("ladder", 4, 10, 15, 16)
		root = ref.NewRCell(ref.Bits(c.Bits("leaf", 8)), false)
		for i := 0; i < n; i++ {
			root = ref.NewRCell(ref.Bits(c.Bits("lvl", c.Range("lvlbits", 0, 40))), false, root, root)
		}
		c.Class("sharing ladder")
	case 2: // long chain for the list-shaped decoders
		n := c.OneOf("chain", 100, 1000, 4000)
		root = ref.NewRCell(nil, false)
		bits := ref.Bits(c.Bits("link", c.Range("linkbits", 0, 64)))
		for i := 0; i < n; i++ {
			root = ref.NewRCell(bits, false, root)
		}
		c.Class("long chain")
	default: // four-way fan of shared children
		leaf := ref.NewRCell(ref.Bits(c.Bits("leaf", 32)), false)
		mid := ref.NewRCell(ref.Bits(c.Bits("mid", 16)), false, leaf, leaf, leaf, leaf)
		root = ref.NewRCell(ref.Bits(c.Bits("root", c.Range("rootbits", 0, 200))), false, mid, mid, mid, mid)
	}
	c.NonTrivial(typeName(t), root.ReprHash())
	return decodeTLB(c, t, root, drawDecoder(c))
}}

// ---------------------------------------------------------------------------------------------
// TL

var tlTypes = func() []reflect.Type {
	var out []reflect.Type
	for _, t := range typereg.TL {
		if t.Kind() == reflect.Struct || t.Kind() == reflect.Slice || t.Kind() == reflect.Array {
			out = append(out, t)
		}
	}
	out = append(out, reflect.TypeOf([]uint32{}), reflect.TypeOf([]string{}), reflect.TypeOf([][]byte{}), reflect.TypeOf(""), reflect.TypeOf([]byte{}),
		reflect.TypeOf(tl.Int256{}), reflect.TypeOf(tlb.VmStack{}), reflect.TypeOf([]liteclient.TonNodeBlockIdExtC{}), reflect.TypeOf([]liteclient.LiteServerBlockLink{}))
	return out
}()

func fillTL(c *core.Ctx, v reflect.Value, depth int) {
	t := v.Type()
	if depth < -4 { // recursive types: stop, leaving zero values / nil pointers
		return
	}
	switch t.Kind() {
	case reflect.Uint32, reflect.Uint64, reflect.Uint8, reflect.Uint16:
		v.SetUint(c.U64("u") & (1<<uint(t.Bits()) - 1))
	case reflect.Int32, reflect.Int64, reflect.Int8, reflect.Int16:
		v.SetInt(int64(c.U64("i")) >> uint(64-t.Bits()))
	case reflect.Bool:
		v.SetBool(c.Bool("b"))
	case reflect.String:
		v.SetString(string(c.Content("s", c.OneOf("slen", 0, 1, 3, 4, 253, 254, 255, 300))))
	case reflect.Slice:
		if t.Elem().Kind() == reflect.Uint8 {
			v.SetBytes(c.Content("bytes", c.OneOf("blen", 0, 1, 3, 4, 253, 254, 255, 300)))
			return
		}
		n := 0
		if depth > 0 {
			n = c.Range("n", 0, 3)
		}
		s := reflect.MakeSlice(t, n, n)
		for i := 0; i < n; i++ {
			fillTL(c, s.Index(i), depth-1)
		}
		v.Set(s)
	case reflect.Array:
		for i := 0; i < v.Len(); i++ {
			fillTL(c, v.Index(i), depth-1)
		}
	case reflect.Pointer:
		p := reflect.New(t.Elem())
		fillTL(c, p.Elem(), depth-1)
		v.Set(p)
	case reflect.Struct:
		if _, ok := t.FieldByName("SumType"); ok {
			var fields []int
			for i := 0; i < t.NumField(); i++ {
				if t.Field(i).Name != "SumType" && t.Field(i).IsExported() {
					fields = append(fields, i)
				}
			}
			if len(fields) == 0 {
				return
			}
			k := fields[c.Choose("ctor", len(fields))]
			v.FieldByName("SumType").SetString(t.Field(k).Name)
			fillTL(c, v.Field(k), depth-1)
			return
		}
		for i := 0; i < t.NumField(); i++ {
			if t.Field(i).IsExported() && v.Field(i).CanSet() {
				fillTL(c, v.Field(i), depth-1)
			}
		}
	}
}

type marshalerTL interface{ MarshalTL() ([]byte, error) }

func mutateBytes(c *core.Ctx, data []byte) []byte {
	d := append([]byte{}, data...)
	switch c.Choose("bmut", 9) {
	case 0:
		return d[:c.Choose("cut", len(d)+1)]
	case 1:
		if len(d) > 0 {
			p := c.Choose("pos", min(len(d), 64))
			d[p] = byte(c.Intn("val", 256))
		}
	case 2: // a length prefix replaced by the 254 escape with a huge length
		if len(d) >= 4 {
			p := c.Choose("pos", len(d)-3) &^ 3
			copy(d[p:], []byte{0xfe, 0xff, 0xff, 0xff})
		}
	case 3:
		if len(d) > 0 {
			d[c.Choose("pos", len(d))&^3] = 0xff
		}
	case 4: // a vector count replaced by 2^31-1 / 2^32-1 / 2^24
		if len(d) >= 4 {
			p := c.Choose("pos", len(d)-3) &^ 3
			v := [][]byte{{0xff, 0xff, 0xff, 0x7f}, {0xff, 0xff, 0xff, 0xff}, {0, 0, 0, 1}, {0, 0, 1, 0}}[c.Choose("cnt", 4)]
			copy(d[p:], v)
		}
	case 5:
		d = append(d, c.Content("tail", 1+c.Intn("ntail", 8))...)
	case 6:
		if len(d) > 4 {
			p := c.Choose("pos", len(d)-4) &^ 3
			d = append(d[:p:p], d[p+4:]...)
		}
	case 7:
		return c.Blob("random", 200)
	}
	return d
}

func min(a, b int) int {
	if a < b {
		return a
	}
	return b
}

var tlCheck = &core.Check{Name: "c08/tl", Quick: 30000, Thorough: 2000000, Hang: hang, Fn: func(c *core.Ctx) error {
	t := tlTypes[c.Choose("type", len(tlTypes))]
	name := typeName(t)
	c.Note("type", name)
	v := reflect.New(t).Elem()
	fillTL(c, v, 3)
	var data []byte
	if perr := core.Protect(func() error {
		var err error
		data, err = tl.Marshal(v.Interface())
		if err != nil {
			data = nil
		}
		return nil
	}); perr != nil {
		data = nil
	}
	if data == nil {
		c.Class("seed: random bytes (value did not serialise)")
		data = c.Blob("seed", 200)
	} else {
		c.Class("seed: valid encoding")
	}
	nm := c.Intn("nmut", 3)
	for i := 0; i < nm; i++ {
		data = mutateBytes(c, data)
	}
	c.Note("input", fmt.Sprintf("%x", trunc(data)))
	if nm > 0 {
		c.NonTrivial(name, data)
	}
	c.Checkpoint()
	out := reflect.New(t)
	var derr, perr error
	alloc := core.AllocDelta(func() {
		perr = core.Protect(func() error { derr = tl.Unmarshal(bytes.NewReader(data), out.Interface()); return nil })
	})
	if perr != nil {
		return fmt.Errorf("tl.Unmarshal into %s panicked: %v\ninput %x", name, perr, trunc(data))
	}
	if bound := uint64(64<<20) + 1024*uint64(len(data)); alloc > bound {
		return fmt.Errorf("tl.Unmarshal into %s allocated %d bytes for %d input bytes (bound %d)\ninput %x", name, alloc, len(data), bound, trunc(data))
	}
	if derr != nil {
		c.Class("decode error")
	} else {
		c.Class("decoded")
		// a value the decoder handed out must be usable: serialising it again may fail, not panic
		if perr := core.Protect(func() error { tl.Marshal(out.Elem().Interface()); return nil }); perr != nil {
			return fmt.Errorf("tl.Marshal of a value decoded into %s panicked: %v\ninput %x", name, perr, trunc(data))
		}
	}
	// the request decoder table sits on the same bytes
	if perr := core.Protect(func() error { liteclient.LiteapiRequestDecoder(data); return nil }); perr != nil {
		return fmt.Errorf("LiteapiRequestDecoder panicked: %v\ninput %x", perr, trunc(data))
	}
	return nil
}}

// ---------------------------------------------------------------------------------------------
// helpers that sit on network data and take cells / BOC bytes

var helpers = &core.Check{Name: "c08/helpers", Quick: 8000, Thorough: 600000, Hang: hang, Fn: func(c *core.Ctx) error {
	// a bag of cells as it could arrive from a lite server: valid, mutated, multi-root, zero-root
	nodes := gen.Dag(c, gen.DagOpts{MaxNodes: 1 + c.Intn("nodes", 10), Exotic: c.Intn("exotic", 4) == 0})
	raw := ref.RawFromDag(nodes[len(nodes)-1:], ref.BocVariant{})
	switch c.Weighted("bag", 6, 2, 2) {
	case 1:
		raw.Roots, raw.RootList = 0, nil
		c.Class("zero roots")
	case 2:
		raw = ref.RawFromDag([]*ref.RCell{nodes[len(nodes)-1], nodes[0]}, ref.BocVariant{})
		c.Class("two roots")
	}
	data := raw.Bytes()
	if c.Intn("corrupt", 4) == 0 && len(data) > 0 {
		data[c.Choose("pos", len(data))] ^= byte(1 + c.Intn("x", 255))
	}
	c.Note("boc", fmt.Sprintf("%x", trunc(data)))
	c.NonTrivial(data)
	c.Checkpoint()
	run := func(what string, f func()) error {
		if perr := core.Protect(func() error { f(); return nil }); perr != nil {
			return fmt.Errorf("%s panicked on BOC %x: %v", what, trunc(data), perr)
		}
		return nil
	}
	if err := run("code.ParseContractMethods", func() { code.ParseContractMethods(data) }); err != nil {
		return err
	}
	if err := run("VmStack.UnmarshalTL", func() {
		b, _ := tl.Marshal(data)
		var s tlb.VmStack
		s.UnmarshalTL(bytes.NewReader(b))
	}); err != nil {
		return err
	}
	cells, err := boc.DeserializeBoc(data)
	if err != nil || len(cells) == 0 {
		return nil
	}
	for _, cell := range cells {
		cell := cell
		if err := run("abi.InternalMessageDecoder", func() { abi.InternalMessageDecoder(cell, nil) }); err != nil {
			return err
		}
		cell.ResetCounters()
		if err := run("abi.ExtInMessageDecoder", func() { abi.ExtInMessageDecoder(cell, nil) }); err != nil {
			return err
		}
		cell.ResetCounters()
		if err := run("abi.ExtOutMessageDecoder", func() { abi.ExtOutMessageDecoder(cell, nil, tlb.MsgAddress{SumType: "AddrNone"}) }); err != nil {
			return err
		}
		cell.ResetCounters()
		if err := run("code.FindLibraries", func() { code.FindLibraries(cell) }); err != nil {
			return err
		}
	}
	return nil
}}

// lists: long but valid list-shaped structures, built with the library's own encoder; decoding must stay
// within the linear allocation bound (a decoder that copies its accumulator at every level is quadratic)
var lists = &core.Check{Name: "c08/lists", Quick: 32, Thorough: 2000, Hang: hang, Fn: func(c *core.Ctx) error {
	var v any
	var t reflect.Type
	switch c.Choose("list", 4) {
	case 0:
		n := c.OneOf("stack.n", 300, 1000, 2500, 4000)
		s := make(tlb.VmStack, n)
		for i := range s {
			s[i] = tlb.VmStackValue{SumType: "VmStkTinyInt", VmStkTinyInt: int64(i)}
		}
		v, t = s, reflect.TypeOf(s)
		c.Class(fmt.Sprintf("VmStack of %d", n))
	case 1:
		n := c.OneOf("snake.bits", 5000, 50000, 200000)
		v, t = tlb.SnakeData(gen.BitString(ref.Bits(c.Bits("snake", n)))), reflect.TypeOf(tlb.SnakeData{})
		c.Class(fmt.Sprintf("SnakeData of %d bits", n))
	case 2:
		n := c.OneOf("dict.n", 200, 2000, 8000)
		var h tlb.HashmapE[tlb.Uint32, tlb.Uint32]
		sm := core.NewSplitMix(c.U64("dict.seed"))
		for i := 0; i < n; i++ {
			h.Put(tlb.Uint32(sm.Next()), tlb.Uint32(i))
		}
		v, t = h, reflect.TypeOf(h)
		c.Class(fmt.Sprintf("HashmapE of %d", n))
	default:
		// a snake of n bytes laid out by the reference model (127 bytes per cell, continuation in the
		// first ref), decoded as Bytes / SnakeData / Text
		n := c.OneOf("bytes.n", 1000, 100000, 1000000)
		data := bytes.Repeat([]byte{'a'}, n)
		var root *ref.RCell
		for end := n; ; {
			start := (end - 1) / 127 * 127
			if end == 0 {
				start = 0
			}
			cell := ref.NewRCell(ref.Bits{}.AppendBytes(data[start:end]), false)
			if root != nil {
				cell.Refs = []*ref.RCell{root}
			}
			root = cell
			if start == 0 {
				break
			}
			end = start
		}
		t = []reflect.Type{reflect.TypeOf(tlb.Bytes{}), reflect.TypeOf(tlb.SnakeData{}), reflect.TypeOf(tlb.Text(""))}[c.Choose("snake.as", 3)]
		c.Class(fmt.Sprintf("snake of %d bytes as %s", n, t.Name()))
		c.NonTrivial(n, t.Name())
		return decodeTLB(c, t, root, drawDecoder(c))
	}
	cell := boc.NewCell()
	if err := tlb.Marshal(cell, v); err != nil {
		c.Class("not encodable")
		return nil
	}
	root, err := gen.FromTongo(cell, 1<<20)
	if err != nil {
		return nil
	}
	c.NonTrivial(root.ReprHash())
	return decodeTLB(c, t, root, drawDecoder(c))
}}

func TestProp(t *testing.T) {
	t.Run("lists", func(t *testing.T) { core.Run(t, lists) })
	t.Run("tlb-mutated", func(t *testing.T) { core.Run(t, mutated) })
	t.Run("tlb-random", func(t *testing.T) { core.Run(t, random) })
	t.Run("tl", func(t *testing.T) { core.Run(t, tlCheck) })
	t.Run("helpers", func(t *testing.T) { core.Run(t, helpers) })
	t.Run("answers", func(t *testing.T) { core.Run(t, answers) })
	t.Run("liteapi", func(t *testing.T) { core.Run(t, liteapiCheck) })
}

func TestReplay(t *testing.T) {
	core.Replay(t, mutated, random, tlCheck, helpers, lists, tlRaw, tlbRaw, answers, answersGrid, liteapiCheck, sweep, wide, sliceCheck, stackMapCheck, coldConcurrent)
}

var _ = errors.New
