package c08

import (
	"bytes"
	"fmt"
	"runtime"
	"runtime/debug"
	"syscall"
	"testing"
	"time"
	"unsafe"

	"github.com/tonkeeper/tongo/boc"
	"github.com/tonkeeper/tongo/tlb"

	"verifharness/internal/core"
	"verifharness/internal/ref"
)

// c08/wide-dicts: wide dictionaries (thousands to tens of thousands of entries, every entry a leaf cell of
// its own, no cell shared) written by the reference dictionary codec and decoded into Hashmap, HashmapE,
// HashmapAug and HashmapAugE. The property bounds time and memory "in proportion to the size of the input";
// for a tree without sharing that size is the number of cells, which is 2n-1 (+1) for n entries. A decoder
// that looks at the entries decoded so far for every new entry (duplicate scan, sorted insertion, copying
// the accumulator) is quadratic in the size of the tree itself; the allowance for unfolded sharing does not
// apply. Dictionaries of a few hundred entries, as in blocks and in the library's tests, do not show it.
//
// Every case decodes two dictionaries of the same shape, n = wideSmall and 16n entries (32n in the cases that
// assert the time ratio; the limits below are for 16n and scale with the step). Measures, in the order
// of how far they can be trusted:
//
//  1. counters (exact, machine independent): key types of the harness count the calls of FixedSize, Equal,
//     Compare and UnmarshalTLB the decoder makes on them, a value type counts its UnmarshalTLB calls. Each
//     counter must stay below 64 per entry (+4096): with 1000 entries a pairwise scan makes 500 per entry.
//  2. allocation (machine independent up to slice-growth policy): the bytes allocated by the decode of 16n
//     entries must stay below 128 x those of n entries (linear: about 16..40).
//  3. CPU time of the decoding thread (CLOCK_THREAD_CPUTIME_ID: time the thread was not running is not
//     counted, garbage collection is switched off while measuring), best of several runs of each size in the
//     same process: a violation only when 16n entries take more than 100 x the time of n entries (linear:
//     about 16..25, quadratic: about 256) in three measurements in a row; a single excess is "inconclusive".
//     Only wideTimed cases assert it (two in the quick tier); all cases record the ratio.
const (
	wideSmall  = 1000
	wideFactor = 16
	// cases that assert the time ratio use a larger step: linear and quadratic growth are further apart
	wideFactorTimed = 32
	wideHang        = 600 * time.Second

	wideCounterPerEntry = 64
	wideCounterSlack    = 4096
	wideAllocRatio      = 128
	wideTimeRatio       = 100
)

// ---- counting key and value types

type wideCounters struct {
	fixedSize, equal, compare, keyDecode, valueDecode int
}

var wideCount wideCounters

type widthTag interface{ width() int }
type w16 struct{}
type w32 struct{}
type w64 struct{}
type w256 struct{}

func (w16) width() int  { return 16 }
func (w32) width() int  { return 32 }
func (w64) width() int  { return 64 }
func (w256) width() int { return 256 }

// cKey is a dictionary key of W bits that counts what the decoder does with it.
type cKey[W widthTag] struct{ v [32]byte }

func (k cKey[W]) FixedSize() int {
	wideCount.fixedSize++
	var w W
	return w.width()
}

func (k cKey[W]) Equal(other any) bool {
	wideCount.equal++
	o, ok := other.(cKey[W])
	return ok && o.v == k.v
}

func (k cKey[W]) Compare(other any) (int, bool) {
	wideCount.compare++
	o, ok := other.(cKey[W])
	if !ok {
		return 0, false
	}
	return bytes.Compare(k.v[:], o.v[:]), true
}

func (k *cKey[W]) UnmarshalTLB(c *boc.Cell, decoder *tlb.Decoder) error {
	wideCount.keyDecode++
	var w W
	b, err := c.ReadBytes(w.width() / 8)
	if err != nil {
		return err
	}
	k.v = [32]byte{}
	copy(k.v[:], b)
	return nil
}

// cVal is an 8-bit dictionary value that counts its decodes.
type cVal struct{ V uint8 }

func (v *cVal) UnmarshalTLB(c *boc.Cell, decoder *tlb.Decoder) error {
	wideCount.valueDecode++
	x, err := c.ReadUint(8)
	v.V = uint8(x)
	return err
}

// ---- targets

const (
	wideHashmap = iota
	wideHashmapE
	wideAug
	wideAugE
)

const (
	valU32 = iota // 32 bits in the leaf
	valC8         // 8 bits in the leaf, counting value type
	valRef        // a reference to a cell of 16 bits
)

type wideTarget struct {
	name      string
	container int
	keyBits   int
	val       int
	counting  bool // the key type counts
	newDest   func() any
	sizes     func(dest any) (keys, values int) // -1: the type does not tell
}

type wideKey interface {
	FixedSize() int
	Equal(other any) bool
	Compare(other any) (int, bool)
}

func tHashmap[K wideKey, V any](name string, keyBits, val int, counting bool) wideTarget {
	return wideTarget{name: "Hashmap[" + name + "]", container: wideHashmap, keyBits: keyBits, val: val, counting: counting,
		newDest: func() any { return new(tlb.Hashmap[K, V]) },
		sizes: func(d any) (int, int) {
			h := d.(*tlb.Hashmap[K, V])
			return len(h.Keys()), len(h.Values())
		}}
}

func tHashmapE[K wideKey, V any](name string, keyBits, val int, counting bool) wideTarget {
	return wideTarget{name: "HashmapE[" + name + "]", container: wideHashmapE, keyBits: keyBits, val: val, counting: counting,
		newDest: func() any { return new(tlb.HashmapE[K, V]) },
		sizes: func(d any) (int, int) {
			h := d.(*tlb.HashmapE[K, V])
			return len(h.Keys()), len(h.Values())
		}}
}

func tAug[K wideKey, V any](name string, keyBits, val int, counting bool) wideTarget {
	return wideTarget{name: "HashmapAug[" + name + ",Uint8]", container: wideAug, keyBits: keyBits, val: val, counting: counting,
		newDest: func() any { return new(tlb.HashmapAug[K, V, tlb.Uint8]) },
		sizes: func(d any) (int, int) {
			h := d.(*tlb.HashmapAug[K, V, tlb.Uint8])
			return -1, len(h.Values())
		}}
}

func tAugE[K wideKey, V any](name string, keyBits, val int, counting bool) wideTarget {
	return wideTarget{name: "HashmapAugE[" + name + ",Uint8]", container: wideAugE, keyBits: keyBits, val: val, counting: counting,
		newDest: func() any { return new(tlb.HashmapAugE[K, V, tlb.Uint8]) },
		sizes: func(d any) (int, int) {
			h := d.(*tlb.HashmapAugE[K, V, tlb.Uint8])
			return len(h.Keys()), len(h.Values())
		}}
}

// the first wideTimedQuick targets are the ones whose time ratio the quick tier asserts
var wideTargets = []wideTarget{
	tHashmapE[tlb.Uint32, tlb.Uint32]("Uint32,Uint32", 32, valU32, false),
	tHashmap[tlb.Bits256, tlb.Ref[tlb.Uint16]]("Bits256,Ref[Uint16]", 256, valRef, false),

	tHashmapE[cKey[w32], tlb.Uint32]("counting 32-bit key,Uint32", 32, valU32, true),
	tHashmap[cKey[w32], tlb.Uint32]("counting 32-bit key,Uint32", 32, valU32, true),
	tHashmapE[cKey[w16], cVal]("counting 16-bit key,counting value", 16, valC8, true),
	tHashmap[cKey[w64], tlb.Ref[tlb.Uint16]]("counting 64-bit key,Ref[Uint16]", 64, valRef, true),
	tHashmapE[cKey[w256], cVal]("counting 256-bit key,counting value", 256, valC8, true),
	tHashmap[cKey[w256], tlb.Uint32]("counting 256-bit key,Uint32", 256, valU32, true),

	tHashmapE[tlb.Uint16, cVal]("Uint16,counting value", 16, valC8, false),
	tHashmap[tlb.Uint64, tlb.Uint32]("Uint64,Uint32", 64, valU32, false),
	tHashmapE[tlb.AddressWithWorkchain, tlb.Uint32]("AddressWithWorkchain,Uint32", 288, valU32, false),
	tHashmapE[tlb.Bits256, tlb.Uint32]("Bits256,Uint32", 256, valU32, false),
	tHashmap[tlb.Uint32, cVal]("Uint32,counting value", 32, valC8, false),

	tAugE[cKey[w32], tlb.Uint32]("counting 32-bit key,Uint32", 32, valU32, true),
	tAug[cKey[w256], cVal]("counting 256-bit key,counting value", 256, valC8, true),
	tAugE[tlb.Bits256, tlb.Uint32]("Bits256,Uint32", 256, valU32, false),
}

const wideTimedQuick = 2

// ---- dictionaries by the reference codec

const (
	keysSpread = iota // pseudo-random keys: forks near the root, long labels at the leaves
	keysDense         // 0..n-1 in the low bits: one long label at the root, then a complete binary tree
	keysHigh          // 0..n-1 in the high bits, a fixed pattern below; label forms drawn among the valid ones
	nKeyPatterns
)

var keyPatternNames = [nKeyPatterns]string{"spread keys", "dense low keys", "dense high keys, drawn label forms"}

// wideKeys returns n distinct keys of w bits.
func wideKeys(w, n, pattern int, seed uint64) []ref.Bits {
	f := w // width of the field that makes the keys distinct
	if f > 64 {
		f = 64
	}
	mask := ^uint64(0)
	if f < 64 {
		mask = 1<<uint(f) - 1
	}
	a, b := seed|1, seed>>7 // x -> a*x+b with odd a is a bijection of the f-bit field
	out := make([]ref.Bits, n)
	for i := range out {
		var k ref.Bits
		switch pattern {
		case keysSpread:
			x := (a*uint64(i) + b) & mask
			sm := core.NewSplitMix(x ^ seed)
			for len(k) < w-f { // upper bits: pseudo-random, a function of the distinct part
				k = k.AppendUint(sm.Next(), 64)
			}
			k = k[:w-f].AppendUint(x, f)
		case keysDense:
			k = make(ref.Bits, w-f).AppendUint(uint64(i), f)
		default:
			nb := 1
			for 1<<uint(nb) < n {
				nb++
			}
			k = ref.Bits{}.AppendUint(uint64(i), nb)
			sm := core.NewSplitMix(seed)
			for len(k) < w {
				k = k.AppendUint(sm.Next(), 64)
			}
			k = k[:w]
		}
		out[i] = k
	}
	return out
}

// wideDict builds the cell tree the target decodes: n entries, keys by pattern, values by the target's kind.
func wideDict(t *wideTarget, n, pattern int, seed uint64) (*ref.RCell, error) {
	keys := wideKeys(t.keyBits, n, pattern, seed)
	entries := make([]ref.DictEntry, n)
	for i, k := range keys {
		var v ref.DictValue
		switch t.val {
		case valU32:
			v.Bits = ref.Bits{}.AppendUint(uint64(i)*2654435761, 32)
		case valC8:
			v.Bits = ref.Bits{}.AppendUint(uint64(i), 8)
		case valRef:
			v.Refs = []*ref.RCell{ref.NewRCell(ref.Bits{}.AppendUint(uint64(i), 16), false)}
		}
		entries[i] = ref.DictEntry{Key: k, Value: v}
	}
	var choose func(ref.Bits, int, []int) int
	if pattern == keysHigh {
		sm := core.NewSplitMix(seed ^ 0x9e3779b97f4a7c15)
		choose = func(s ref.Bits, m int, forms []int) int { return forms[sm.Intn(len(forms))] }
	}
	switch t.container {
	case wideHashmap:
		return ref.EncodeHashmap(entries, t.keyBits, choose)
	case wideHashmapE:
		bits, refs, err := ref.EncodeHashmapE(entries, t.keyBits, choose)
		if err != nil {
			return nil, err
		}
		return ref.NewRCell(bits, false, refs...), nil
	}
	// augmented: extra = 8 bits, the number of leaves below modulo 256
	leaf := func(ref.DictEntry) ref.Bits { return ref.Bits{}.AppendUint(1, 8) }
	fork := func(l, r ref.Bits) ref.Bits { return ref.Bits{}.AppendUint((l.Uint(0, 8)+r.Uint(0, 8))&0xff, 8) }
	root, extra, err := ref.EncodeHashmapAug(entries, t.keyBits, leaf, fork, choose)
	if err != nil {
		return nil, err
	}
	if t.container == wideAug {
		return root, nil
	}
	return ref.NewRCell(append(ref.Bits{true}, extra...), false, root), nil
}

// ---- measuring

// threadCPU is the CPU time consumed by the calling OS thread.
func threadCPU() time.Duration {
	const clockThreadCPUTimeID = 3
	var ts syscall.Timespec
	if _, _, e := syscall.Syscall(syscall.SYS_CLOCK_GETTIME, clockThreadCPUTimeID, uintptr(unsafe.Pointer(&ts)), 0); e != 0 {
		return -1
	}
	return time.Duration(ts.Nano())
}

type wideMeasure struct {
	cpu      time.Duration // -1: no thread clock
	bytes    uint64
	counters wideCounters
	err      error
	keys     int
	values   int
}

// wideDecode decodes the tree once and measures it.
func wideDecode(t *wideTarget, cell *boc.Cell, d int) (m wideMeasure, perr error) {
	resetAll(cell)
	dest := t.newDest()
	dec := newDecoder(d, nil, nil)
	runtime.LockOSThread()
	defer runtime.UnlockOSThread()
	var a, b runtime.MemStats
	runtime.ReadMemStats(&a)
	wideCount = wideCounters{}
	t0 := threadCPU()
	perr = core.Protect(func() error { m.err = runDecoder(dec, cell, dest); return nil })
	t1 := threadCPU()
	m.counters = wideCount
	runtime.ReadMemStats(&b)
	m.bytes = b.TotalAlloc - a.TotalAlloc
	m.cpu = t1 - t0
	if t0 < 0 || t1 < 0 {
		m.cpu = -1
	}
	if perr == nil && m.err == nil {
		m.keys, m.values = t.sizes(dest)
	}
	return m, perr
}

type wideBest struct {
	cpu   time.Duration
	bytes uint64
}

// wideRuns decodes k times and keeps the cheapest run of each measure; the first run's counters and result.
func wideRuns(t *wideTarget, cell *boc.Cell, d, k int) (first wideMeasure, best wideBest, perr error) {
	for i := 0; i < k; i++ {
		m, perr := wideDecode(t, cell, d)
		if perr != nil {
			return m, best, perr
		}
		if i == 0 {
			first, best = m, wideBest{cpu: m.cpu, bytes: m.bytes}
			continue
		}
		if m.cpu < best.cpu {
			best.cpu = m.cpu
		}
		if m.bytes < best.bytes {
			best.bytes = m.bytes
		}
	}
	return first, best, nil
}

func (w wideCounters) worst() (string, int) {
	name, v := "FixedSize", w.fixedSize
	for _, x := range []struct {
		n string
		v int
	}{{"Equal", w.equal}, {"Compare", w.compare}, {"UnmarshalTLB of the key", w.keyDecode}, {"UnmarshalTLB of the value", w.valueDecode}} {
		if x.v > v {
			name, v = x.n, x.v
		}
	}
	return name, v
}

var wideMaxAlloc, wideMaxCPU float64

var wide = &core.Check{Name: "c08/wide-dicts", Hang: wideHang, Fn: func(c *core.Ctx) error {
	ti := c.Choose("target", len(wideTargets))
	pattern := c.Choose("keys", nKeyPatterns)
	timed := c.Choose("timed", 2) == 1
	d := []int{decPlain, decHasher, decDebug}[c.Choose("decoder", 3)]
	seed := c.U64("seed")
	t := &wideTargets[ti]
	c.Note("target", t.name)
	c.Note("keys", keyPatternNames[pattern])
	c.Note("decoder", decoderNames[d])
	c.Class("decoder: " + decoderNames[d])
	nSmall, nLarge := wideSmall, wideSmall*wideFactor
	if timed {
		nLarge = wideSmall * wideFactorTimed
	}
	var cells [2]*boc.Cell
	for i, n := range []int{nSmall, nLarge} {
		var root *ref.RCell
		var err error
		if perr := core.Protect(func() error { root, err = wideDict(t, n, pattern, seed); return nil }); perr != nil || err != nil {
			c.Class("HARNESS: the reference codec did not build the dictionary for " + t.name)
			return nil
		}
		if cells[i] = (&sweepRun{}).tongo(root); cells[i] == nil {
			c.Class("HARNESS: the dictionary could not be built through the cell API for " + t.name)
			return nil
		}
	}
	c.NonTrivial(t.name, pattern, d, seed)
	c.Checkpoint()
	old := debug.SetGCPercent(-1)
	defer debug.SetGCPercent(old)

	describe := func() string {
		return fmt.Sprintf("%s with %s, %s (key seed %#x)", t.name, decoderNames[d], keyPatternNames[pattern], seed)
	}
	// counters: exact, so one run of each size decides; the small dictionary first (cheap under a quadratic decoder)
	checkCounters := func(m wideMeasure, n int) error {
		if name, v := m.counters.worst(); v > wideCounterPerEntry*n+wideCounterSlack {
			return fmt.Errorf("decoding a dictionary of %d entries (%d cells, none shared) into %s made %d calls of %s: %d per entry (bound %d per entry + %d)",
				n, 2*n, describe(), v, name, v/n, wideCounterPerEntry, wideCounterSlack)
		}
		return nil
	}
	decoded := func(m wideMeasure, n int) bool {
		if m.err != nil {
			c.Class("HARNESS: the wide dictionary is refused by the decoder: " + t.name)
			c.Note("decode error", m.err.Error())
			return false
		}
		if (m.keys >= 0 && m.keys != n) || m.values != n {
			c.Class(fmt.Sprintf("decoded with another number of entries (not judged here): %s", t.name))
			return false
		}
		return true
	}
	measure := func(kSmall, kLarge int) (small, large wideBest, ok bool, err error) {
		fs, small, perr := wideRuns(t, cells[0], d, kSmall)
		if perr != nil {
			return small, large, false, fmt.Errorf("decoding a dictionary of %d entries into %s panicked: %v", nSmall, describe(), perr)
		}
		if err := checkCounters(fs, nSmall); err != nil {
			return small, large, false, err
		}
		fl, large, perr := wideRuns(t, cells[1], d, kLarge)
		if perr != nil {
			return small, large, false, fmt.Errorf("decoding a dictionary of %d entries into %s panicked: %v", nLarge, describe(), perr)
		}
		if err := checkCounters(fl, nLarge); err != nil {
			return small, large, false, err
		}
		return small, large, decoded(fs, nSmall) && decoded(fl, nLarge), nil
	}
	small, large, ok, err := measure(5, 3)
	if err != nil {
		return err
	}
	if !ok {
		return nil // a failed decode costs nothing: no statement about proportion
	}
	c.Class("decoded")
	if t.counting {
		c.Class("counters within the bound")
	}
	sizeRatio := float64(nLarge) / float64(nSmall)
	// allocation
	if small.bytes > 0 {
		r := float64(large.bytes) / float64(small.bytes)
		if r > wideMaxAlloc {
			wideMaxAlloc = r
			core.Extra("c08/wide-dicts", fmt.Sprintf("largest allocation ratio seen for %dx the entries (this shard)", int(sizeRatio)), fmt.Sprintf("%.1f (%s)", r, t.name))
		}
		if r > wideAllocRatio*sizeRatio/wideFactor {
			return fmt.Errorf("decoding %d entries into %s allocated %d bytes, %d entries %d bytes: %.0f times the memory for %.0f times the input (cheapest of several runs each; no cell of the input is shared)",
				nLarge, describe(), large.bytes, nSmall, small.bytes, r, sizeRatio)
		}
	}
	// CPU time
	if small.cpu <= 0 || large.cpu <= 0 {
		c.Class("inconclusive: no thread CPU clock")
		return nil
	}
	limit := wideTimeRatio * sizeRatio / wideFactor
	r := float64(large.cpu) / float64(small.cpu)
	c.Note("cpu", fmt.Sprintf("%v for %d entries, %v for %d entries: ratio %.1f", small.cpu, nSmall, large.cpu, nLarge, r))
	if r > wideMaxCPU {
		wideMaxCPU = r
		core.Extra("c08/wide-dicts", fmt.Sprintf("largest CPU time ratio seen for %dx the entries (this shard)", int(sizeRatio)), fmt.Sprintf("%.1f (%s)", r, t.name))
	}
	if r <= limit {
		c.Class(fmt.Sprintf("CPU time ratio for %.0fx the entries: below %d", sizeRatio, (int(r)/10+1)*10))
		return nil
	}
	if !timed {
		c.Class("CPU time ratio above the limit in a case that does not assert it")
		return nil
	}
	// above the limit: only a result that repeats counts
	ratios := []float64{r}
	for attempt := 0; attempt < 2; attempt++ {
		small, large, ok, err = measure(9, 5)
		if err != nil {
			return err
		}
		if !ok || small.cpu <= 0 || large.cpu <= 0 {
			c.Class("inconclusive: time measurement could not be repeated")
			return nil
		}
		r = float64(large.cpu) / float64(small.cpu)
		ratios = append(ratios, r)
		if r <= limit {
			c.Class("inconclusive: CPU time ratio above the limit once, not when measured again")
			return nil
		}
	}
	return fmt.Errorf("decoding %d entries into %s took %v of CPU time, %d entries %v: %.0f times the time for %.0f times the input, in three measurements in a row (ratios %.0f; cheapest of several runs each, thread CPU time, no garbage collection; no cell of the input is shared)",
		nLarge, describe(), large.cpu, nSmall, small.cpu, r, sizeRatio, ratios)
}}

// TestWide enumerates target x key pattern; the decoder configuration rotates, the key seed comes from the
// run's seed. The quick tier asserts the time ratio for the first wideTimedQuick targets with spread keys.
func TestWide(t *testing.T) {
	core.RunEnum(t, wide, "every wide-dictionary target (Hashmap, HashmapE, HashmapAug, HashmapAugE x key widths 16..288 x value in the leaf / behind a reference) x key pattern (spread, dense low, dense high with drawn label forms), 1000 and 16000 (timed cases 32000) entries", func(yield func(...uint64) bool) {
		i := 0
		for ti := range wideTargets {
			for p := 0; p < nKeyPatterns; p++ {
				timed := uint64(0)
				if core.Thorough() || (ti < wideTimedQuick && p == keysSpread) {
					timed = 1
				}
				sm := core.NewSplitMix(core.Seed()*1000003 + uint64(ti)*31 + uint64(p))
				if !yield(uint64(ti), uint64(p), timed, uint64(i)+core.Seed(), sm.Next()) {
					return
				}
				i++
			}
		}
	})
}
