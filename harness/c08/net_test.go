// C08, network side: the liteclient answer framing and the liteapi helpers that post-process server data,
// driven through real clients that talk to the in-process ADNL lite-server of internal/adnlsrv.
package c08

import (
	"bytes"
	"context"
	"crypto/ed25519"
	"encoding/base64"
	"encoding/binary"
	"fmt"
	"hash/crc32"
	"io"
	"log/slog"
	"os"
	"path/filepath"
	"reflect"
	"sort"
	"strings"
	"sync"
	"sync/atomic"
	"testing"
	"time"

	"github.com/tonkeeper/tongo/boc"
	"github.com/tonkeeper/tongo/config"
	"github.com/tonkeeper/tongo/liteapi"
	"github.com/tonkeeper/tongo/liteclient"
	"github.com/tonkeeper/tongo/tl"
	"github.com/tonkeeper/tongo/tlb"
	"github.com/tonkeeper/tongo/ton"

	"verifharness/internal/adnlsrv"
	"verifharness/internal/core"
	"verifharness/internal/gen"
	"verifharness/internal/ref"
	"verifharness/internal/tlbgen"
	"verifharness/internal/tlref"
)

// Real time is used for timeouts only. The slack is what a call may take beyond the time the library
// documents before the check calls it a hang; it is never waited for on a healthy tree.
const (
	netSlack    = 60 * time.Second
	ansTimeout  = 5 * time.Second        // timeout of the main raw client
	ansShortTO  = 300 * time.Millisecond // timeout of the client used when a case waits for the client's own timeout
	apiTimeout  = 10 * time.Second       // liteapi.WithTimeout
	authTimeout = 10 * time.Second       // fixed inside liteclient.setupEncryptedConnection
	netHang     = 5 * time.Minute        // process watchdog (safety net behind the checks' own waits)
)

const (
	idLiteServerQuery = 0x798c06df // liteServer.query data:bytes = Object
	idWaitMasterchain = 0xbaeab892 // liteServer.waitMasterchainSeqno (query prefix)
	idLiteServerError = 0xbba9e148
)

var (
	idTCPAuthentificate = crc32.ChecksumIEEE([]byte("tcp.authentificate nonce:bytes = tcp.Message"))
	netCounter          atomic.Uint64
	quietOnce           sync.Once
)

// quiet silences the library's slog output (one line per ignored frame) for this test process.
func quiet() {
	quietOnce.Do(func() { slog.SetDefault(slog.New(slog.NewTextHandler(io.Discard, nil))) })
}

func netRepo() string {
	if v := os.Getenv("VERIF_REPO"); v != "" {
		return v
	}
	return "/repo"
}

var (
	netSchemaOnce sync.Once
	netSchema     *tlref.Schema
	netSchemaErr  error
)

func loadSchema() (*tlref.Schema, error) {
	netSchemaOnce.Do(func() {
		text, err := os.ReadFile(netRepo() + "/liteclient/lite_api.tl")
		if err != nil {
			netSchemaErr = err
			return
		}
		netSchema, netSchemaErr = tlref.ParseSchema(string(text))
	})
	return netSchema, netSchemaErr
}

func serverKey(salt uint64) ed25519.PrivateKey {
	seed := make([]byte, ed25519.SeedSize)
	core.NewSplitMix(core.Seed()*1000 + salt).Fill(seed)
	return ed25519.NewKeyFromSeed(seed)
}

// innerFunction returns the function id inside liteServer.query (0 when the body is something else) and
// the request bytes.
func innerFunction(body []byte) (uint32, []byte) {
	if len(body) < 8 || binary.LittleEndian.Uint32(body) != idLiteServerQuery {
		return 0, nil
	}
	inner, _, err := adnlsrv.ParseTLBytes(body[4:])
	if err != nil || len(inner) < 4 {
		return 0, nil
	}
	return binary.LittleEndian.Uint32(inner), inner
}

type callResult struct {
	val  any
	err  error
	perr error // panic of the calling goroutine
}

// ---------------------------------------------------------------------------------------------
// c08/answers: environment

// script tells the server how to answer one query of the current case.
type script struct {
	key    string                     // exact query body ("" = match on fn)
	fn     uint32                     // function id inside liteServer.query
	frames func(id [32]byte) [][]byte // payloads of the frames to send, back to back
	done   chan struct{}              // closed when the frames were handed to the kernel
}

type ansEnv struct {
	srv *adnlsrv.Server
	err error

	mu      sync.Mutex
	cur     *script
	auth    []byte // payload of the frame that answers the next tcp.authentificate (nil = none)
	authHit chan struct{}
	clients [2]*liteclient.Client
	made    int
}

var (
	ansOnce sync.Once
	ansE    ansEnv
)

func getAnsEnv() *ansEnv {
	ansOnce.Do(func() {
		quiet()
		srv, err := adnlsrv.Listen(serverKey(801), adnlsrv.Hooks{Serve: ansE.serve})
		if err != nil {
			ansE.err = err
			return
		}
		ansE.srv = srv
	})
	return &ansE
}

func (e *ansEnv) serve(conn *adnlsrv.Conn) {
	conn.Loop(func(f adnlsrv.Frame) bool {
		if len(f.Payload) >= 4 && binary.LittleEndian.Uint32(f.Payload) == idTCPAuthentificate {
			e.mu.Lock()
			p, hit := e.auth, e.authHit
			e.auth, e.authHit = nil, nil
			e.mu.Unlock()
			if hit == nil {
				return true
			}
			err := conn.WriteFrame(p)
			close(hit)
			return err == nil
		}
		id, body, ok := adnlsrv.ParseQuery(f.Payload)
		if !ok {
			return true
		}
		e.mu.Lock()
		s := e.cur
		if s != nil {
			match := s.key != "" && s.key == string(body)
			if s.key == "" {
				fn, _ := innerFunction(body)
				match = fn != 0 && fn == s.fn
			}
			if match {
				e.cur = nil
			} else {
				s = nil
			}
		}
		e.mu.Unlock()
		if s == nil {
			// plain valid behaviour: the answer is the query
			return conn.WriteFrame(adnlsrv.Answer(id, body)) == nil
		}
		err := conn.WriteFrames(s.frames(id)...)
		close(s.done)
		return err == nil
	})
}

func (e *ansEnv) setScript(s *script) {
	e.mu.Lock()
	e.cur = s
	e.mu.Unlock()
}

func (e *ansEnv) clearScript(s *script) {
	e.mu.Lock()
	if e.cur == s {
		e.cur = nil
	}
	e.mu.Unlock()
}

func (e *ansEnv) timeoutOf(idx int) time.Duration {
	if idx == 1 {
		return ansShortTO
	}
	return ansTimeout
}

// client returns the shared client idx (0 main, 1 short timeout), creating it when needed.
func (e *ansEnv) client(idx int) (*liteclient.Client, error) {
	e.mu.Lock()
	cl := e.clients[idx]
	e.mu.Unlock()
	if cl != nil {
		return cl, nil
	}
	ctx, cancel := context.WithTimeout(context.Background(), netSlack)
	defer cancel()
	conn, err := liteclient.NewConnection(ctx, e.srv.PublicKey(), e.srv.Addr())
	if err != nil {
		return nil, fmt.Errorf("harness error: NewConnection to the in-process server: %v", err)
	}
	cl = liteclient.NewClient(conn, liteclient.OptionTimeout(e.timeoutOf(idx)))
	e.mu.Lock()
	e.clients[idx] = cl
	e.made++
	e.mu.Unlock()
	return cl, nil
}

// drop abandons a client that stopped serving (it cannot be closed: liteclient has no Close); the next
// case gets a fresh one, so that a failure does not contaminate the cases rapid runs while shrinking.
func (e *ansEnv) drop(idx int) {
	e.mu.Lock()
	e.clients[idx] = nil
	e.mu.Unlock()
}

// probe: the same client must still serve a plain valid query. A probe that fails (the client's own
// timeout on a loaded machine) is repeated until the slack is used up.
func (e *ansEnv) probe(idx int, cl *liteclient.Client, after string) error {
	deadline := time.Now().Add(netSlack)
	for attempt := 1; ; attempt++ {
		q := binary.LittleEndian.AppendUint64([]byte("probe..."), netCounter.Add(1))
		var resp []byte
		var err error
		perr := core.Protect(func() error { resp, err = cl.Request(context.Background(), q); return nil })
		if perr != nil {
			e.drop(idx)
			return fmt.Errorf("plain query after %s panicked: %v", after, perr)
		}
		if err == nil {
			if !bytes.Equal(resp, q) {
				e.drop(idx)
				return fmt.Errorf("plain query after %s: the client returned %x, the server answered %x", after, trunc(resp), q)
			}
			return nil
		}
		if time.Now().After(deadline) {
			e.drop(idx)
			return fmt.Errorf("after %s the same client does not serve a plain valid query any more (%d attempts in %v, last error: %v)", after, attempt, netSlack, err)
		}
		time.Sleep(5 * time.Millisecond)
	}
}

// ---------------------------------------------------------------------------------------------
// hostile frames

// frameTpl is a frame payload with a hole for the query id, which only the server learns.
type frameTpl struct {
	pre   []byte
	idLen int  // bytes of the query id that follow pre
	xor   byte // != 0: xored into id byte xorAt (an id nobody waits for)
	xorAt int
	suf   []byte
}

func (t frameTpl) build(id [32]byte) []byte {
	if t.xor != 0 {
		id[t.xorAt] ^= t.xor
	}
	out := append([]byte{}, t.pre...)
	out = append(out, id[:t.idLen]...)
	return append(out, t.suf...)
}

func (t frameTpl) length() int { return len(t.pre) + t.idLen + len(t.suf) }

// namesQuery: the frame is adnl.message.answer with the complete id of the pending query (a client that
// looks the id up before it parses the byte string has forgotten the query afterwards).
func (t frameTpl) namesQuery() bool {
	return len(t.pre) == 4 && binary.LittleEndian.Uint32(t.pre) == adnlsrv.MagicAnswer && t.idLen == 32 && t.xor == 0 && len(t.suf) >= 1
}

// accepted: the byte string after the id is readable by a reader that does not insist on padding.
func (t frameTpl) accepted() ([]byte, bool) {
	if !t.namesQuery() {
		return nil, false
	}
	v, _, err := adnlsrv.ParseTLBytes(t.suf)
	return v, err == nil
}

func le32(v uint32) []byte { return binary.LittleEndian.AppendUint32(nil, v) }

var frameKinds = []string{
	"bytes: 0xfe with 0..3 length bytes (payload 36..40)",
	"bytes: first byte 0xff",
	"bytes: length exceeds the payload",
	"bytes: correct length, no padding",
	"bytes: zero length",
	"payload of 0..3 bytes",
	"answer magic + 0..31 id bytes",
	"unknown magic, random body",
	"pong with an unknown id",
	"valid answer for an unknown query id",
	"payload length at a boundary 32..44",
	"authentificationNonce to a connected client",
}

func drawFrame(c *core.Ctx) (frameTpl, string) {
	k := c.Choose("frame.kind", len(frameKinds))
	ans := frameTpl{pre: le32(adnlsrv.MagicAnswer), idLen: 32}
	t := ans
	switch k {
	case 0:
		n := c.URange("fe.bytes", 0, 4)
		if n > 0 {
			t.suf = append([]byte{0xfe}, c.Content("fe.len", n-1)...)
		}
	case 1:
		t.suf = append([]byte{0xff}, c.Content("ff.tail", c.Range("ff.n", 0, 12))...)
	case 2:
		d := c.Range("over.data", 0, 40)
		if c.Bool("over.long") {
			l := []int{d + 1, d + 2, d + 100, 1 << 16, 1<<24 - 1}[c.Choose("over.by", 5)]
			t.suf = append([]byte{0xfe, byte(l), byte(l >> 8), byte(l >> 16)}, c.Content("over.bytes", d)...)
		} else {
			l := []int{d + 1, d + 2, d + 100, 253}[c.Choose("over.by", 4)]
			if l > 253 {
				l = 253
			}
			t.suf = append([]byte{byte(l)}, c.Content("over.bytes", d)...)
		}
	case 3:
		if c.Intn("nopad.long", 4) == 0 {
			d := 254 + c.Range("nopad.n", 0, 300)
			if d%4 == 0 {
				d++
			}
			t.suf = append([]byte{0xfe, byte(d), byte(d >> 8), 0}, c.Content("nopad.bytes", d)...)
		} else {
			d := c.Range("nopad.n", 0, 253)
			if (d+1)%4 == 0 {
				d--
			}
			t.suf = append([]byte{byte(d)}, c.Content("nopad.bytes", d)...)
		}
	case 4:
		t.suf = [][]byte{{0}, {0, 0, 0, 0}, {0xfe, 0, 0, 0}, {0, 0xff, 0xff, 0xff}}[c.Choose("zero.form", 4)]
	case 5:
		t = frameTpl{pre: c.Content("short", c.URange("short.n", 0, 3))}
	case 6:
		t.idLen = c.URange("id.bytes", 0, 31)
	case 7:
		magic := []uint32{0, 1, 0xffffffff, adnlsrv.MagicQuery, adnlsrv.MagicPing, 0xf7ad9ea6, uint32(c.U64("magic.rnd"))}[c.Choose("magic", 7)]
		if magic == adnlsrv.MagicAnswer || magic == adnlsrv.MagicPong || magic == adnlsrv.MagicAuthNonce {
			magic ^= 0x100
		}
		t = frameTpl{pre: le32(magic), suf: c.Content("body", c.Range("body.n", 0, 80))}
		if c.Bool("with.id") {
			t.idLen = 32
		}
	case 8:
		n := 8
		if c.Intn("pong.odd", 3) == 0 {
			n = c.Range("pong.n", 0, 20)
		}
		t = frameTpl{pre: le32(adnlsrv.MagicPong), suf: c.Content("pong.id", n)}
	case 9:
		t.xorAt = c.Choose("xor.at", 32)
		t.xor = byte(1 << uint(c.Choose("xor.bit", 8)))
		t.suf = adnlsrv.TLBytes(c.Content("other.answer", c.Range("other.n", 0, 64)))
	case 10:
		l := c.URange("total", 32, 44)
		fill := c.Content("filler", 8)
		switch c.Choose("filler.first", 4) {
		case 0:
			fill[0] = 0xfe
		case 1:
			fill[0] = 0xff
		case 2:
			fill[0] = byte(c.Range("filler.len", 0, 9))
		}
		if l < 36 {
			t.idLen = l - 4
		} else {
			t.suf = fill[:l-36]
		}
	default:
		t = frameTpl{pre: le32(adnlsrv.MagicAuthNonce)}
		switch c.Choose("nonce.form", 3) {
		case 0:
			t.suf = adnlsrv.TLBytes(c.Content("nonce", c.OneOf("nonce.n", 0, 32, 512, 513)))
		case 1:
			t.suf = c.Content("nonce.raw", c.Range("nonce.rawn", 0, 40))
		default:
			t.suf = append([]byte{0xfe, 0xff, 0xff, 0xff}, c.Content("nonce.tail", 32)...)
		}
	}
	return t, frameKinds[k]
}

// ---------------------------------------------------------------------------------------------
// generated methods of liteclient.Client used as callers

type netMethod struct {
	name string // TL function
	res  string // TL constructor of the response
	call func(ctx context.Context, cl *liteclient.Client, n uint32) (any, error)
}

var blk0 = liteclient.TonNodeBlockIdExtC{Workchain: 0xffffffff, Shard: 1 << 63, Seqno: 7}

var netMethods = []netMethod{
	{"liteServer.getTime", "liteServer.currentTime", func(ctx context.Context, cl *liteclient.Client, n uint32) (any, error) {
		return cl.LiteServerGetTime(ctx)
	}},
	{"liteServer.getVersion", "liteServer.version", func(ctx context.Context, cl *liteclient.Client, n uint32) (any, error) {
		return cl.LiteServerGetVersion(ctx)
	}},
	{"liteServer.getMasterchainInfo", "liteServer.masterchainInfo", func(ctx context.Context, cl *liteclient.Client, n uint32) (any, error) {
		return cl.LiteServerGetMasterchainInfo(ctx)
	}},
	{"liteServer.getMasterchainInfoExt", "liteServer.masterchainInfoExt", func(ctx context.Context, cl *liteclient.Client, n uint32) (any, error) {
		return cl.LiteServerGetMasterchainInfoExt(ctx, liteclient.LiteServerGetMasterchainInfoExtRequest{Mode: n})
	}},
	{"liteServer.getLibraries", "liteServer.libraryResult", func(ctx context.Context, cl *liteclient.Client, n uint32) (any, error) {
		return cl.LiteServerGetLibraries(ctx, liteclient.LiteServerGetLibrariesRequest{LibraryList: []tl.Int256{{1}}})
	}},
	{"liteServer.getTransactions", "liteServer.transactionList", func(ctx context.Context, cl *liteclient.Client, n uint32) (any, error) {
		return cl.LiteServerGetTransactions(ctx, liteclient.LiteServerGetTransactionsRequest{Count: n, Lt: 5})
	}},
	{"liteServer.listBlockTransactions", "liteServer.blockTransactions", func(ctx context.Context, cl *liteclient.Client, n uint32) (any, error) {
		return cl.LiteServerListBlockTransactions(ctx, liteclient.LiteServerListBlockTransactionsRequest{Id: blk0, Mode: 7, Count: n})
	}},
	{"liteServer.listBlockTransactionsExt", "liteServer.blockTransactionsExt", func(ctx context.Context, cl *liteclient.Client, n uint32) (any, error) {
		return cl.LiteServerListBlockTransactionsExt(ctx, liteclient.LiteServerListBlockTransactionsExtRequest{Id: blk0, Mode: 7, Count: n})
	}},
	{"liteServer.getOutMsgQueueSizes", "liteServer.outMsgQueueSizes", func(ctx context.Context, cl *liteclient.Client, n uint32) (any, error) {
		return cl.LiteServerGetOutMsgQueueSizes(ctx, liteclient.LiteServerGetOutMsgQueueSizesRequest{})
	}},
	{"liteServer.getBlockProof", "liteServer.partialBlockProof", func(ctx context.Context, cl *liteclient.Client, n uint32) (any, error) {
		return cl.LiteServerGetBlockProof(ctx, liteclient.LiteServerGetBlockProofRequest{KnownBlock: blk0})
	}},
	{"liteServer.getShardBlockProof", "liteServer.shardBlockProof", func(ctx context.Context, cl *liteclient.Client, n uint32) (any, error) {
		return cl.LiteServerGetShardBlockProof(ctx, liteclient.LiteServerGetShardBlockProofRequest{Id: blk0})
	}},
	{"liteServer.getDispatchQueueInfo", "liteServer.dispatchQueueInfo", func(ctx context.Context, cl *liteclient.Client, n uint32) (any, error) {
		return cl.LiteServerGetDispatchQueueInfo(ctx, liteclient.LiteServerGetDispatchQueueInfoRequest{Id: blk0, MaxAccounts: n})
	}},
	{"liteServer.getAccountState", "liteServer.accountState", func(ctx context.Context, cl *liteclient.Client, n uint32) (any, error) {
		return cl.LiteServerGetAccountState(ctx, liteclient.LiteServerGetAccountStateRequest{Id: blk0})
	}},
	{"liteServer.runSmcMethod", "liteServer.runMethodResult", func(ctx context.Context, cl *liteclient.Client, n uint32) (any, error) {
		return cl.LiteServerRunSmcMethod(ctx, liteclient.LiteServerRunSmcMethodRequest{Mode: n, Id: blk0, Params: []byte{1, 2, 3}})
	}},
	{"liteServer.lookupBlock", "liteServer.blockHeader", func(ctx context.Context, cl *liteclient.Client, n uint32) (any, error) {
		return cl.LiteServerLookupBlock(ctx, liteclient.LiteServerLookupBlockRequest{Mode: 1, Id: liteclient.TonNodeBlockIdC{Seqno: n}})
	}},
	{"liteServer.lookupBlockWithProof", "liteServer.lookupBlockResult", func(ctx context.Context, cl *liteclient.Client, n uint32) (any, error) {
		return cl.LiteServerLookupBlockWithProof(ctx, liteclient.LiteServerLookupBlockWithProofRequest{Mode: 1, McBlockId: blk0})
	}},
	{"liteServer.getConfigParams", "liteServer.configInfo", func(ctx context.Context, cl *liteclient.Client, n uint32) (any, error) {
		return cl.LiteServerGetConfigParams(ctx, liteclient.LiteServerGetConfigParamsRequest{Id: blk0, ParamList: []uint32{n}})
	}},
	{"liteServer.getValidatorStats", "liteServer.validatorStats", func(ctx context.Context, cl *liteclient.Client, n uint32) (any, error) {
		return cl.LiteServerGetValidatorStats(ctx, liteclient.LiteServerGetValidatorStatsRequest{Id: blk0, Limit: n})
	}},
	{"liteServer.getLibrariesWithProof", "liteServer.libraryResultWithProof", func(ctx context.Context, cl *liteclient.Client, n uint32) (any, error) {
		return cl.LiteServerGetLibrariesWithProof(ctx, liteclient.LiteServerGetLibrariesWithProofRequest{Id: blk0, Mode: n})
	}},
	// the two hand-written methods of client.go: the request starts with the waitMasterchainSeqno prefix
	{"waitMasterchainSeqno", "liteServer.error", func(ctx context.Context, cl *liteclient.Client, n uint32) (any, error) {
		return nil, cl.WaitMasterchainSeqno(ctx, n, 1)
	}},
	{"waitMasterchainSeqno+lookupBlock", "liteServer.blockHeader", func(ctx context.Context, cl *liteclient.Client, n uint32) (any, error) {
		return cl.WaitMasterchainBlock(ctx, n, 1)
	}},
}

func (m netMethod) functionID(s *tlref.Schema) uint32 {
	if strings.HasPrefix(m.name, "waitMasterchainSeqno") {
		return idWaitMasterchain
	}
	for _, f := range s.Funcs {
		if f.Name == m.name {
			return f.ID
		}
	}
	panic("net_test: no function " + m.name)
}

// firstVectorOffset: the byte offset of the first vector count in the boxed encoding of con, when only
// fixed-size fields come before it (-1 otherwise).
func firstVectorOffset(s *tlref.Schema, con *tlref.Combinator) int {
	var fixed func(t tlref.TypeExpr) int
	fixed = func(t tlref.TypeExpr) int {
		switch t.Kind {
		case tlref.KInt, tlref.KNat, tlref.KBool:
			return 4
		case tlref.KLong:
			return 8
		case tlref.KInt256:
			return 32
		case tlref.KBare:
			n := 0
			for _, f := range s.Constructor(t.Name).Fields {
				k := fixed(f.Type)
				if k < 0 || f.Cond != "" {
					return -1
				}
				n += k
			}
			return n
		}
		return -1
	}
	off := 4
	for _, f := range con.Fields {
		if f.Cond != "" {
			return -1
		}
		if f.Type.Kind == tlref.KVector {
			return off
		}
		k := fixed(f.Type)
		if k < 0 {
			return -1
		}
		off += k
	}
	return -1
}

var bodyKinds = []string{
	"body: liteServer.error with a huge message length",
	"body: truncated response object",
	"body: wrong constructor id",
	"body: vector count 2^31-1 / 2^32-1 / 2^24",
	"body: mutated response object",
	"body: empty / shorter than a constructor id",
}

func drawBody(c *core.Ctx, s *tlref.Schema, m netMethod) ([]byte, string) {
	con := s.Constructor(m.res)
	val := s.DrawObject(c, con, &tlref.GenOpts{MaxVec: 3, MaxBytes: 120, Budget: 600})
	valid, err := s.EncodeBoxed(nil, val)
	if err != nil {
		panic("net_test: " + err.Error())
	}
	k := c.Choose("body.kind", len(bodyKinds))
	var body []byte
	switch k {
	case 0:
		body = append(le32(idLiteServerError), le32(uint32(c.U64("err.code")))...)
		switch c.Choose("err.len", 5) {
		case 0:
			body = append(body, 0xfe, 0xff, 0xff, 0xff)
		case 1:
			body = append(body, 0xfe, 0xff, 0xff, 0x7f)
		case 2:
			body = append(body, 0xff, 0xff, 0xff, 0xff)
		case 3:
			body = append(body, 0xfd)
		default:
			body = append(body, 0xfe, 0, 0, 1)
		}
		body = append(body, c.Content("err.tail", c.Range("err.tailn", 0, 40))...)
	case 1:
		body = append([]byte{}, valid[:c.Choose("cut", len(valid))]...)
	case 2:
		body = append([]byte{}, valid...)
		id := []uint32{0, 0xffffffff, con.ID ^ 1, con.ID ^ 1<<31, uint32(c.U64("ctor.rnd"))}[c.Choose("ctor", 5)]
		if id == con.ID || id == idLiteServerError {
			id ^= 0x10
		}
		binary.LittleEndian.PutUint32(body, id)
	case 3:
		cnt := [][]byte{{0xff, 0xff, 0xff, 0x7f}, {0xff, 0xff, 0xff, 0xff}, {0, 0, 0, 1}, {0, 0, 0, 0x80}}[c.Choose("cnt", 4)]
		if off := firstVectorOffset(s, con); off >= 0 && off+4 <= len(valid) {
			body = append([]byte{}, valid...)
			copy(body[off:], cnt)
			if c.Bool("cnt.cut") {
				body = body[:off+4]
			}
		} else {
			// no vector at a fixed offset: a count-like word at a drawn aligned position
			body = append([]byte{}, valid...)
			if len(body) >= 8 {
				p := 4 + c.Choose("cnt.pos", len(body)-7)&^3
				copy(body[p:], cnt)
			}
		}
	case 4:
		body = valid
		for i := 1 + c.Intn("nmut", 2); i > 0; i-- {
			body = mutateBytes(c, body)
		}
	default:
		body = c.Content("tiny", c.URange("tiny.n", 0, 3))
	}
	return body, bodyKinds[k]
}

// ---------------------------------------------------------------------------------------------
// c08/answers

var answers = &core.Check{Name: "c08/answers", Quick: 6000, Thorough: 300000, Hang: netHang, Fn: func(c *core.Ctx) error {
	env := getAnsEnv()
	if env.err != nil {
		return fmt.Errorf("harness error: %v", env.err)
	}
	s, err := loadSchema()
	if err != nil {
		return fmt.Errorf("harness error: %v", err)
	}
	switch c.Weighted("group", 12, 6, 1) {
	case 0:
		return frameCase(c, env, s, nil)
	case 1:
		return bodyCase(c, env, s)
	default:
		return authCase(c, env)
	}
}}

// c08/answers-grid: tape = payload length 0..48, index of the byte that follows the id. The payload is the
// prefix of answer magic + query id + (that byte, 1, 2, ...); everything else as in a drawn frame case
// with zero choices (caller Request).
var gridFirst = []byte{0x00, 0x01, 0x04, 0xfd, 0xfe, 0xff}

var answersGrid = &core.Check{Name: "c08/answers-grid", Hang: netHang, Fn: func(c *core.Ctx) error {
	env := getAnsEnv()
	if env.err != nil {
		return fmt.Errorf("harness error: %v", env.err)
	}
	s, err := loadSchema()
	if err != nil {
		return fmt.Errorf("harness error: %v", err)
	}
	total := c.Intn("total", 49)
	first := gridFirst[c.Intn("first", len(gridFirst))]
	c.Note("first byte after the id", first)
	var tpl frameTpl
	tpl.pre = le32(adnlsrv.MagicAnswer)
	if total < 4 {
		tpl.pre = tpl.pre[:total]
	}
	if total > 4 {
		tpl.idLen = min(total-4, 32)
	}
	for i := 0; i < total-36; i++ {
		if i == 0 {
			tpl.suf = append(tpl.suf, first)
		} else {
			tpl.suf = append(tpl.suf, byte(i))
		}
	}
	return frameCase(c, env, s, &tpl)
}}

// frameCase: one hostile frame, then the valid answer for the same query id.
func frameCase(c *core.Ctx, env *ansEnv, s *tlref.Schema, grid *frameTpl) error {
	var tpl frameTpl
	var kind string
	if grid != nil {
		tpl, kind = *grid, "enumerated payload length and first byte after the id"
	} else {
		tpl, kind = drawFrame(c)
	}
	c.Class("frame: " + kind)
	idx := 0
	ownTimeout := c.Choose("own.timeout", 300) == 157
	if ownTimeout {
		idx = 1
		c.Class("the call is left to the client's own timeout")
	}
	hostile := 1
	if c.Choose("twice", 8) == 7 {
		hostile = 2
	}
	sc := &script{done: make(chan struct{})}
	var valid []byte
	var call func(ctx context.Context, cl *liteclient.Client) (any, error)
	var expect uint32
	caller := c.Weighted("caller", 5, 1, 1, 1)
	switch caller {
	case 0:
		q := c.Content("query", c.OneOf("query.n", 0, 1, 3, 4, 40, 253, 254, 700))
		q = binary.LittleEndian.AppendUint64(q, netCounter.Add(1))
		sc.key = string(q)
		valid = c.Content("valid", c.OneOf("valid.n", 0, 1, 3, 4, 40, 253, 254, 255, 3000))
		if grid != nil {
			valid = []byte("the valid answer")
		}
		call = func(ctx context.Context, cl *liteclient.Client) (any, error) { return cl.Request(ctx, q) }
		c.Note("caller", "Request")
	default:
		m := netMethods[caller-1]
		sc.fn = m.functionID(s)
		val := s.DrawObject(c, s.Constructor(m.res), &tlref.GenOpts{})
		valid, _ = s.EncodeBoxed(nil, val)
		// one field of the valid answer is compared: now / now / last.seqno
		switch caller {
		case 1:
			expect = uint32(val.Fields[0].N)
		case 2:
			expect = uint32(val.Fields[3].N)
		default:
			expect = uint32(val.Fields[0].Fields[2].N)
		}
		call = func(ctx context.Context, cl *liteclient.Client) (any, error) { return m.call(ctx, cl, 0) }
		c.Note("caller", m.name)
	}
	sc.frames = func(id [32]byte) [][]byte {
		var out [][]byte
		for i := 0; i < hostile; i++ {
			out = append(out, tpl.build(id))
		}
		return append(out, adnlsrv.Answer(id, valid))
	}
	var zero [32]byte
	shape := tpl.build(zero)
	c.Note("hostile payload (id zeroed)", fmt.Sprintf("%x", trunc(shape)))
	c.Note("payload length", tpl.length())
	c.NonTrivial(kind, shape, tpl.idLen, caller)
	hostileBody, accepted := tpl.accepted()
	answerExpected := !tpl.namesQuery() || accepted

	cl, err := env.client(idx)
	if err != nil {
		return err
	}
	timeout := env.timeoutOf(idx)
	env.setScript(sc)
	defer env.clearScript(sc)
	c.Checkpoint()
	ctx, cancel := context.WithCancel(context.Background())
	defer cancel()
	resCh := make(chan callResult, 1)
	go func() {
		var r callResult
		r.perr = core.Protect(func() error { r.val, r.err = call(ctx, cl); return nil })
		resCh <- r
	}()
	var got *callResult
	wait := time.NewTimer(timeout + netSlack)
	defer wait.Stop()
	select {
	case <-sc.done:
	case r := <-resCh:
		got = &r
	case <-wait.C:
		env.drop(idx)
		return fmt.Errorf("%s: the query did not reach the server and the call did not return within %v + %v", kind, timeout, netSlack)
	}
	env.clearScript(sc)
	// the frames are on the wire in order; when the probe's answer is back the client has processed them
	if err := env.probe(idx, cl, "the hostile frame ("+kind+")"); err != nil {
		return err
	}
	if got == nil {
		if !answerExpected && !ownTimeout {
			// the client has dropped the pending query together with the malformed frame: nothing will
			// arrive; end the call through its context instead of waiting for the client's timeout
			cancel()
		}
		wait.Reset(timeout + netSlack)
		select {
		case r := <-resCh:
			got = &r
		case <-wait.C:
			env.drop(idx)
			return fmt.Errorf("%s: the call did not return within its timeout %v + %v", kind, timeout, netSlack)
		}
	}
	if got.perr != nil {
		return fmt.Errorf("%s: the call panicked: %v", kind, got.perr)
	}
	if got.err != nil {
		c.Class("outcome: error")
		return nil
	}
	if caller == 0 {
		b, _ := got.val.([]byte)
		switch {
		case bytes.Equal(b, valid):
			c.Class("outcome: the valid answer")
		case accepted && bytes.Equal(b, hostileBody):
			c.Class("outcome: the byte string of the hostile frame")
		default:
			return fmt.Errorf("%s: Request returned %x, which no frame carried (valid answer %x)", kind, trunc(b), trunc(valid))
		}
		return nil
	}
	var field uint32
	switch v := got.val.(type) {
	case liteclient.LiteServerCurrentTimeC:
		field = v.Now
	case liteclient.LiteServerVersionC:
		field = v.Now
	case liteclient.LiteServerMasterchainInfoC:
		field = v.Last.Seqno
	}
	if field != expect && !accepted {
		return fmt.Errorf("%s: the method returned %+v without error, the valid answer carried %d", kind, got.val, expect)
	}
	c.Class("outcome: the valid answer")
	return nil
}

// bodyCase: a well-formed answer frame whose body is hostile for the decoder of a generated method.
func bodyCase(c *core.Ctx, env *ansEnv, s *tlref.Schema) error {
	m := netMethods[c.Choose("method", len(netMethods))]
	body, kind := drawBody(c, s, m)
	c.Class(kind)
	c.Note("method", m.name)
	c.Note("answer body", fmt.Sprintf("%x", trunc(body)))
	c.NonTrivial(kind, m.name, body)
	arg := uint32(c.U64("arg"))
	sc := &script{fn: m.functionID(s), done: make(chan struct{})}
	sc.frames = func(id [32]byte) [][]byte { return [][]byte{adnlsrv.Answer(id, body)} }
	cl, err := env.client(0)
	if err != nil {
		return err
	}
	env.setScript(sc)
	defer env.clearScript(sc)
	c.Checkpoint()
	resCh := make(chan callResult, 1)
	var got callResult
	hung := false
	alloc := core.AllocDelta(func() {
		go func() {
			var r callResult
			r.perr = core.Protect(func() error { r.val, r.err = m.call(context.Background(), cl, arg); return nil })
			resCh <- r
		}()
		wait := time.NewTimer(ansTimeout + netSlack)
		defer wait.Stop()
		select {
		case got = <-resCh:
		case <-wait.C:
			hung = true
		}
	})
	if hung {
		env.drop(0)
		return fmt.Errorf("%s: %s did not return within its timeout %v + %v\nanswer body %x", kind, m.name, ansTimeout, netSlack, trunc(body))
	}
	if got.perr != nil {
		return fmt.Errorf("%s: %s panicked: %v\nanswer body %x", kind, m.name, got.perr, trunc(body))
	}
	if bound := uint64(64<<20) + 1024*uint64(len(body)); alloc > bound {
		return fmt.Errorf("%s: %s allocated %d bytes for an answer of %d bytes (bound %d)\nanswer body %x", kind, m.name, alloc, len(body), bound, trunc(body))
	}
	if got.err != nil {
		c.Class("outcome: error")
	} else {
		c.Class("outcome: value")
	}
	return env.probe(0, cl, kind)
}

var authKinds = []string{
	"auth nonce: payload shorter than 37 bytes",
	"auth nonce: first byte 0xff",
	"auth nonce: length exceeds the payload",
	"auth nonce: longer than 512 bytes",
}

// authCase: a connection with an authentication key; the server answers tcp.authentificate with a
// hostile tcp.authentificationNonce (parsed by sendAuthComplete on the connection's reader goroutine).
// Only frames that a correct reader must refuse are drawn: an accepted nonce would leave an
// authenticated connection behind, which liteclient cannot close.
func authCase(c *core.Ctx, env *ansEnv) error {
	k := c.Choose("auth.kind", len(authKinds))
	payload := le32(adnlsrv.MagicAuthNonce)
	switch k {
	case 0:
		payload = append(payload, c.Content("nonce", c.URange("nonce.n", 0, 32))...)
		if len(payload) > 4 && c.Bool("fe") {
			payload[4] = 0xfe
		}
	case 1:
		payload = append(append(payload, 0xff), c.Content("nonce", c.Range("nonce.n", 32, 80))...)
	case 2:
		d := c.Range("nonce.n", 32, 80)
		if c.Bool("long") {
			l := []int{d + 1, d + 100, 1<<24 - 1}[c.Choose("by", 3)]
			payload = append(payload, 0xfe, byte(l), byte(l>>8), byte(l>>16))
		} else {
			payload = append(payload, byte(d+1+c.Intn("by", 100)))
		}
		payload = append(payload, c.Content("nonce", d)...)
	default:
		payload = append(payload, adnlsrv.TLBytes(c.Content("nonce", c.OneOf("nonce.n", 513, 514, 1000, 70000)))...)
	}
	c.Class(authKinds[k])
	c.Note("nonce frame", fmt.Sprintf("%x", trunc(payload)))
	c.NonTrivial(authKinds[k], trunc(payload), len(payload))
	key := ed25519.NewKeyFromSeed(c.Content("auth.key", ed25519.SeedSize))
	hit := make(chan struct{})
	env.mu.Lock()
	env.auth, env.authHit = payload, hit
	env.mu.Unlock()
	defer func() {
		env.mu.Lock()
		if env.authHit == hit {
			env.auth, env.authHit = nil, nil
		}
		env.mu.Unlock()
	}()
	c.Checkpoint()
	type res struct {
		conn *liteclient.Connection
		err  error
		perr error
	}
	resCh := make(chan res, 1)
	ctx, cancel := context.WithTimeout(context.Background(), authTimeout+2*netSlack)
	defer cancel()
	go func() {
		var r res
		r.perr = core.Protect(func() error {
			r.conn, r.err = liteclient.NewConnection(ctx, env.srv.PublicKey(), env.srv.Addr(), key)
			return nil
		})
		resCh <- r
	}()
	wait := time.NewTimer(authTimeout + netSlack)
	defer wait.Stop()
	select {
	case r := <-resCh:
		if r.perr != nil {
			return fmt.Errorf("%s: NewConnection panicked: %v", authKinds[k], r.perr)
		}
		if r.err != nil {
			c.Class("outcome: error")
		} else {
			c.Class("outcome: connection established")
		}
	case <-wait.C:
		return fmt.Errorf("%s: NewConnection with an authentication key did not return within %v + %v", authKinds[k], authTimeout, netSlack)
	}
	// the shared client lives in the same process: it must be unaffected
	cl, err := env.client(0)
	if err != nil {
		return err
	}
	return env.probe(0, cl, authKinds[k])
}

// ---------------------------------------------------------------------------------------------
// c08/liteapi: environment

type apiEnv struct {
	srv    *adnlsrv.Server
	client *liteapi.Client
	s      *tlref.Schema
	err    error
	fnName map[uint32]string
	info   []byte // honest liteServer.masterchainInfo
	head   ton.BlockIDExt

	mu      sync.Mutex
	answers map[uint32][]byte // function id -> answer of the current case
	served  int
}

var (
	apiOnce sync.Once
	apiE    apiEnv
)

func (e *apiEnv) obj(name string, fields ...*tlref.Value) *tlref.Value {
	con := e.s.Constructor(name)
	if con == nil || len(con.Fields) != len(fields) {
		panic("net_test: bad object " + name)
	}
	return &tlref.Value{Kind: tlref.KObject, Con: con, Fields: fields}
}

func (e *apiEnv) enc(v *tlref.Value) []byte {
	b, err := e.s.EncodeBoxed(nil, v)
	if err != nil {
		panic("net_test: " + err.Error())
	}
	return b
}

func (e *apiEnv) blockID(wc int32, shard uint64, seqno uint32, root, file []byte) *tlref.Value {
	return e.obj("tonNode.blockIdExt", tlref.VInt(uint32(wc)), tlref.VLong(shard), tlref.VInt(seqno), tlref.VInt256(root), tlref.VInt256(file))
}

func getAPIEnv() *apiEnv {
	apiOnce.Do(func() {
		quiet()
		e := &apiE
		e.s, e.err = loadSchema()
		if e.err != nil {
			return
		}
		e.fnName = map[uint32]string{}
		for _, f := range e.s.Funcs {
			e.fnName[f.ID] = f.Name
		}
		e.answers = map[uint32][]byte{}
		root, file := bytes.Repeat([]byte{0x11}, 32), bytes.Repeat([]byte{0x22}, 32)
		e.head = ton.BlockIDExt{BlockID: ton.BlockID{Workchain: -1, Shard: 1 << 63, Seqno: 1000}}
		copy(e.head.RootHash[:], root)
		copy(e.head.FileHash[:], file)
		e.info = e.enc(e.obj("liteServer.masterchainInfo", e.blockID(-1, 1<<63, 1000, root, file), tlref.VInt256(bytes.Repeat([]byte{0x33}, 32)),
			e.obj("tonNode.zeroStateIdExt", tlref.VInt(0xffffffff), tlref.VInt256(bytes.Repeat([]byte{0x44}, 32)), tlref.VInt256(bytes.Repeat([]byte{0x55}, 32)))))
		srv, err := adnlsrv.Listen(serverKey(802), adnlsrv.Hooks{Serve: e.serve})
		if err != nil {
			e.err = err
			return
		}
		e.srv = srv
		ctx, cancel := context.WithTimeout(context.Background(), 2*netSlack)
		defer cancel()
		cl, err := liteapi.NewClient(
			liteapi.WithLiteServers([]config.LiteServer{{Host: srv.Addr(), Key: base64.StdEncoding.EncodeToString(srv.PublicKey())}}),
			liteapi.WithTimeout(apiTimeout), liteapi.WithMaxConnectionsNumber(1), liteapi.WithInitializationContext(ctx))
		if err != nil {
			e.err = fmt.Errorf("liteapi.NewClient against the in-process server: %v", err)
			return
		}
		// ready = the pool knows a masterchain head (every helper asks the pool for it first)
		if _, err := cl.GetTime(ctx); err != nil {
			e.err = fmt.Errorf("liteapi client did not become ready: %v", err)
			return
		}
		e.client = cl
	})
	return &apiE
}

// serve: honest answers for what the pool asks in the background (getMasterchainInfo; the
// waitMasterchainSeqno long poll is left unanswered, the way a server with no new block behaves, so the
// poll loop turns once per client timeout), getTime/getVersion, and the scripted answer of the current
// case for everything else.
func (e *apiEnv) serve(conn *adnlsrv.Conn) {
	conn.Loop(func(f adnlsrv.Frame) bool {
		id, body, ok := adnlsrv.ParseQuery(f.Payload)
		if !ok {
			return true
		}
		fn, _ := innerFunction(body)
		var ans []byte
		switch {
		case fn == idWaitMasterchain:
			return true
		case e.fnName[fn] == "liteServer.getMasterchainInfo":
			ans = e.info
		default:
			e.mu.Lock()
			ans, ok = e.answers[fn]
			e.served++
			e.mu.Unlock()
			if !ok {
				switch e.fnName[fn] {
				case "liteServer.getTime":
					ans = e.enc(e.obj("liteServer.currentTime", tlref.VInt(1700000000)))
				case "liteServer.getVersion":
					ans = e.enc(e.obj("liteServer.version", tlref.VNat(0), tlref.VInt(0x101), tlref.VLong(7), tlref.VInt(1700000000)))
				default:
					ans = e.enc(e.obj("liteServer.error", tlref.VInt(1), tlref.VString([]byte("no answer scripted for this function"))))
				}
			}
		}
		return conn.WriteFrame(adnlsrv.Answer(id, ans)) == nil
	})
}

func (e *apiEnv) fnID(name string) uint32 {
	for id, n := range e.fnName {
		if n == name {
			return id
		}
	}
	panic("net_test: no function " + name)
}

// ---------------------------------------------------------------------------------------------
// hostile bags of cells

var (
	tTransaction = reflect.TypeOf(tlb.Transaction{})
	tAccount     = reflect.TypeOf(tlb.Account{})
	tBlock       = reflect.TypeOf(tlb.Block{})
	tBlockHeader = reflect.TypeOf(tlb.BlockHeader{})
	tShardState  = reflect.TypeOf(tlb.ShardStateUnsplit{})
	tShardStateS = reflect.TypeOf(tlb.ShardState{})
	tVmStack     = reflect.TypeOf(tlb.VmStack{})
	tAllShards   = reflect.TypeOf(tlb.AllShardsInfo{})
	tAnyCell     = reflect.TypeOf(boc.Cell{})
)

// real data of the tree under test, parsed by the reference parser
var (
	realOnce                             sync.Once
	realBlocks, realHeaders, realConfigs []*ref.RCell
)

func realFor(t reflect.Type, proof bool) []*ref.RCell {
	realOnce.Do(func() {
		for i := 1; i <= 5; i++ {
			data, err := os.ReadFile(fmt.Sprintf("%s/tlb/testdata/block-%d/block.bin", netRepo(), i))
			if err != nil {
				continue
			}
			roots, err := ref.ParseBOC(data)
			if err != nil || len(roots) != 1 {
				continue
			}
			blk := roots[0]
			realBlocks = append(realBlocks, blk)
			// a header proof the way a lite server cuts it: everything but the info cell is pruned
			if len(blk.Refs) == 4 {
				refs := []*ref.RCell{blk.Refs[0]}
				ok := true
				for _, ch := range blk.Refs[1:] {
					if ch.WellFormed() != nil || ch.Level() >= 3 {
						ok = false
						break
					}
					refs = append(refs, ref.PrunedFor(ch, ch.Mask()|1<<uint(ch.Level())))
				}
				if ok {
					realHeaders = append(realHeaders, ref.MerkleProofOf(ref.NewRCell(blk.Bits(), false, refs...)))
				}
			}
		}
		names, _ := filepath.Glob(netRepo() + "/ton/testdata/config_proof_*.boc")
		sort.Strings(names)
		for _, name := range names {
			if data, err := os.ReadFile(name); err == nil {
				if roots, err := ref.ParseBOC(data); err == nil && len(roots) == 1 {
					realConfigs = append(realConfigs, roots[0])
				}
			}
		}
	})
	switch {
	case t == tBlock && !proof:
		return realBlocks
	case t == tBlockHeader && proof:
		return realHeaders
	case t == tShardState && proof:
		return realConfigs
	}
	return nil
}

// seedTree: the encoding of a generated value of type t (a random DAG when the generator or the
// encoder declines), optionally below a Merkle proof cell.
func seedTree(c *core.Ctx, t reflect.Type, proof bool) (*ref.RCell, bool) {
	var root *ref.RCell
	if t != tAnyCell {
		g := &tlbgen.G{C: c}
		if v, gerr := g.Value(t, 3); gerr == nil {
			cell := boc.NewCell()
			var merr error
			if perr := core.Protect(func() error { merr = tlb.Marshal(cell, v.Interface()); return nil }); perr == nil && merr == nil {
				root, _ = gen.FromTongo(cell, 20000)
			}
		}
	}
	valid := root != nil
	if root == nil {
		nodes := gen.Dag(c, gen.DagOpts{MaxNodes: 1 + c.Intn("nodes", 8), Exotic: c.Intn("exotic", 3) == 0})
		root = nodes[len(nodes)-1]
	}
	if proof && root.WellFormed() == nil {
		root = ref.MerkleProofOf(root)
	}
	return root, valid
}

func drawVariant(c *core.Ctx) ref.BocVariant {
	v := ref.BocVariant{}
	switch c.Weighted("boc.variant", 5, 1, 1, 1) {
	case 1:
		v.Index = true
	case 2:
		v.CRC = true
	case 3:
		v.Index, v.CRC, v.WithHashes = true, true, true
	}
	return v
}

var bagKinds = []string{
	"bag: empty byte string",
	"bag: garbage bytes",
	"bag: valid bag of a random tree",
	"bag: valid encoding of the expected type",
	"bag: expected type, tree mutated",
	"bag: zero roots",
	"bag: wrong number of roots",
	"bag: serialisation corrupted or truncated",
	"bag: Merkle proof cell that is too short",
	"bag: pruned branch / library cell in place of the root or below the proof",
	"bag: chain of 100..4000 cells",
	"bag: real data from the repository (block, header proof cut from a block, config proof), 0..1 mutations",
}

// hostileBag draws the bytes of one bag-of-cells field. want is the number of roots the helper expects
// (the value of type t is the last root).
func hostileBag(c *core.Ctx, label string, t reflect.Type, proof bool, want int, weights ...int) ([]byte, int) {
	if len(weights) == 0 {
		weights = []int{1, 1, 2, 4, 4, 1, 2, 2, 2, 2, 1, 0}
		if realFor(t, proof) != nil {
			weights[11] = 3
		}
	}
	k := c.Weighted(label+".bag", weights...)
	roots := func(last *ref.RCell, n int) []*ref.RCell {
		var out []*ref.RCell
		for i := 0; i < n-1; i++ {
			out = append(out, ref.NewRCell(ref.Bits(c.Bits("filler.root", c.Range("filler.bits", 0, 64))), false))
		}
		return append(out, last)
	}
	switch k {
	case 0:
		return nil, k
	case 1:
		if c.Bool("garbage.magic") {
			return append([]byte{0xb5, 0xee, 0x9c, 0x72}, c.Content("garbage", c.Range("garbage.n", 0, 120))...), k
		}
		return c.Blob("garbage.blob", 300), k
	case 2:
		nodes := gen.Dag(c, gen.DagOpts{MaxNodes: 1 + c.Intn("nodes", 10), Exotic: c.Bool("exotic")})
		return ref.SerializeBOC(roots(nodes[len(nodes)-1], want), drawVariant(c)), k
	case 3:
		root, _ := seedTree(c, t, proof)
		return ref.SerializeBOC(roots(root, want), drawVariant(c)), k
	case 4:
		root, _ := seedTree(c, t, proof)
		for i := 1 + c.Intn("nmut", 2); i > 0; i-- {
			root = mutateTree(c, root)
		}
		return ref.SerializeBOC(roots(root, want), drawVariant(c)), k
	case 5:
		root, _ := seedTree(c, t, proof)
		raw := ref.RawFromDag([]*ref.RCell{root}, ref.BocVariant{})
		raw.Roots, raw.RootList = 0, nil
		return raw.Bytes(), k
	case 6:
		root, _ := seedTree(c, t, proof)
		n := want - 1
		if n == 0 || c.Bool("more.roots") {
			n = want + 1 + c.Intn("extra.roots", 2)
		}
		return ref.SerializeBOC(roots(root, n), drawVariant(c)), k
	case 7:
		root, _ := seedTree(c, t, proof)
		data := ref.SerializeBOC(roots(root, want), drawVariant(c))
		if c.Bool("truncate") {
			return data[:c.Choose("cut", len(data))], k
		}
		data[c.Choose("pos", len(data))] ^= byte(1 + c.Intn("x", 255))
		return data, k
	case 8:
		child, _ := seedTree(c, t, false)
		var b ref.Bits
		b = b.AppendUint(3, 8).AppendBytes(child.Hash(0)).AppendUint(uint64(child.Depth(0)), 16)
		b = b[:c.OneOf("proof.bits", 8, 9, 16, 263, 264, 265, 272, 279)]
		short := ref.NewRCell(b, true, child)
		if c.Intn("proof.norefs", 4) == 0 {
			short.Refs = nil
		}
		return ref.SerializeBOC(roots(short, want), drawVariant(c)), k
	case 9:
		inner, _ := seedTree(c, t, false)
		var stand *ref.RCell
		if c.Bool("library") || inner.WellFormed() != nil || inner.Level() >= 3 {
			var b ref.Bits
			stand = ref.NewRCell(b.AppendUint(2, 8).AppendBytes(c.Content("lib", 32)), true)
		} else {
			stand = ref.PrunedFor(inner, inner.Mask()|1<<uint(inner.Level()+c.Intn("d", 3-inner.Level())))
		}
		if proof && c.Bool("below.proof") {
			stand = ref.MerkleProofOf(stand)
		}
		return ref.SerializeBOC(roots(stand, want), drawVariant(c)), k
	case 11:
		pool := realFor(t, proof)
		root := pool[c.Choose("real", len(pool))]
		if c.Intn("real.mutate", 3) == 2 {
			root = mutateTree(c, root)
		}
		return ref.SerializeBOC(roots(root, want), ref.BocVariant{}), k
	default:
		root, _ := seedTree(c, t, false)
		n := c.OneOf("chain", 100, 1000, 4000)
		link := ref.Bits(c.Bits("link", c.Range("link.bits", 0, 64)))
		for i := 0; i < n; i++ {
			root = ref.NewRCell(link, false, root)
		}
		if proof {
			root = ref.MerkleProofOf(root)
		}
		return ref.SerializeBOC(roots(root, want), ref.BocVariant{}), k
	}
}

// ---------------------------------------------------------------------------------------------
// c08/liteapi

var apiMethods = []string{
	"GetTransactions", "GetAccountState", "GetBlockHeader", "LookupBlock", "GetBlock", "GetConfigAll", "GetConfigParams", "GetLibraries",
	"RunSmcMethodByID", "GetAllShardsInfo", "GetOneTransactionFromBlock", "ListBlockTransactions", "GetValidatorStats", "GetLastTransactions",
}

var liteapiCheck = &core.Check{Name: "c08/liteapi", Quick: 2500, Thorough: 200000, Hang: netHang, Fn: func(c *core.Ctx) error {
	e := getAPIEnv()
	if e.err != nil {
		return fmt.Errorf("harness error: %v", e.err)
	}
	s := e.s
	small := &tlref.GenOpts{MaxVec: 2, MaxBytes: 40, Budget: 200}
	drawID := func() *tlref.Value { return s.DrawObject(c, s.Constructor("tonNode.blockIdExt"), small) }
	mi := c.Weighted("method", 5, 5, 2, 2, 2, 2, 1, 2, 3, 2, 2, 2, 1, 1)
	method := apiMethods[mi]
	c.Note("method", method)
	acc := ton.AccountID{Workchain: int32(int8(c.Intn("acc.wc", 256)))}
	copy(acc.Address[:], c.Content("acc.addr", 32))
	answers := map[uint32][]byte{}
	var call func(ctx context.Context) (any, error)
	var classes []string
	d20 := false // the answer carries fewer block ids than transaction roots
	bag := func(label string, t reflect.Type, proof bool, want int, weights ...int) *tlref.Value {
		b, k := hostileBag(c, label, t, proof, want, weights...)
		classes = append(classes, fmt.Sprintf("%s %s: %s", method, label, bagKinds[k][5:]))
		return tlref.VBytes(b)
	}
	plain := func(label string) *tlref.Value {
		return tlref.VBytes(c.Content(label, c.Range(label+".n", 0, 40)))
	}
	errAnswer := c.Choose("answer.error", 25) == 24
	if errAnswer {
		code := []uint32{0, 1, 651, uint32(0xffffffff - 399), uint32(c.U64("err.code"))}[c.Choose("err.kind", 5)]
		ans := e.enc(e.obj("liteServer.error", tlref.VInt(code), tlref.VString(c.Content("err.msg", c.OneOf("err.n", 0, 20, 300)))))
		for id := range e.fnName {
			answers[id] = ans
		}
		classes = append(classes, "answered with liteServer.error")
	}
	txList := func() []byte {
		// k transaction roots, n block ids
		k := c.Range("tx.roots", 0, 4)
		var roots []*ref.RCell
		for i := 0; i < k; i++ {
			r, _ := seedTree(c, tTransaction, false)
			if c.Choose("tx.mutate", 6) == 5 {
				r = mutateTree(c, r)
			}
			roots = append(roots, r)
		}
		var txs []byte
		if k > 0 {
			txs = ref.SerializeBOC(roots, drawVariant(c))
		}
		if c.Choose("tx.hostile", 6) == 5 {
			var hk int
			txs, hk = hostileBag(c, "transactions", tTransaction, false, 1)
			classes = append(classes, "GetTransactions transactions: "+bagKinds[hk][5:])
		}
		// the number of roots the bytes really carry (reference parser; the parser under test for bytes
		// the reference refuses)
		if rr, err := ref.ParseBOC(txs); err == nil {
			k = len(rr)
		} else {
			k = 0
			core.Protect(func() error {
				if cells, err := boc.DeserializeBoc(txs); err == nil {
					k = len(cells)
				}
				return nil
			})
		}
		n := k
		switch c.Weighted("tx.ids", 3, 2, 3, 2) {
		case 0:
			if k > 0 {
				n = c.Choose("tx.fewer", k)
			}
		case 1:
			n = 0
		case 3:
			n = k + 1 + c.Intn("tx.more", 3)
		}
		switch {
		case n < k && n == 0:
			classes = append(classes, "GetTransactions: no ids for 1..4 transaction roots")
			d20 = true
		case n < k:
			classes = append(classes, "GetTransactions: fewer ids than transaction roots")
			d20 = true
		case n == k:
			classes = append(classes, "GetTransactions: as many ids as roots")
		default:
			classes = append(classes, "GetTransactions: more ids than roots")
		}
		var ids []*tlref.Value
		for i := 0; i < n; i++ {
			ids = append(ids, drawID())
		}
		return e.enc(e.obj("liteServer.transactionList", tlref.VVector(ids), tlref.VBytes(txs)))
	}
	accountState := func() []byte {
		// state: mostly decodable, so that the proof is looked at
		state := bag("state", tAccount, false, 1, 1, 1, 1, 12, 2, 1, 1, 1, 0, 1, 0)
		proof := bag("proof", tShardState, true, 2)
		return e.enc(e.obj("liteServer.accountState", drawID(), drawID(), plain("shard_proof"), proof, state))
	}
	switch method {
	case "GetTransactions":
		if !errAnswer {
			answers[e.fnID("liteServer.getTransactions")] = txList()
		}
		count := uint32(c.Range("count", 0, 16))
		call = func(ctx context.Context) (any, error) {
			return e.client.GetTransactions(ctx, count, acc, 100, ton.Bits256{1})
		}
	case "GetLastTransactions":
		if !errAnswer {
			answers[e.fnID("liteServer.getAccountState")] = accountState()
			answers[e.fnID("liteServer.getTransactions")] = txList()
		}
		call = func(ctx context.Context) (any, error) { return e.client.GetLastTransactions(ctx, acc, 3) }
	case "GetAccountState":
		if !errAnswer {
			answers[e.fnID("liteServer.getAccountState")] = accountState()
		}
		call = func(ctx context.Context) (any, error) { return e.client.GetAccountState(ctx, acc) }
	case "GetBlockHeader", "LookupBlock":
		if !errAnswer {
			ans := e.enc(e.obj("liteServer.blockHeader", drawID(), tlref.VNat(uint32(c.U64("mode"))), bag("header_proof", tBlockHeader, true, 1)))
			answers[e.fnID("liteServer.getBlockHeader")] = ans
			answers[e.fnID("liteServer.lookupBlock")] = ans
		}
		if method == "GetBlockHeader" {
			call = func(ctx context.Context) (any, error) { return e.client.GetBlockHeader(ctx, e.head, 0) }
		} else {
			lt := c.U64("lt")
			call = func(ctx context.Context) (any, error) {
				_, info, err := e.client.LookupBlock(ctx, e.head.BlockID, 2, &lt, nil)
				return info, err
			}
		}
	case "GetBlock":
		if !errAnswer {
			answers[e.fnID("liteServer.getBlock")] = e.enc(e.obj("liteServer.blockData", drawID(), bag("data", tBlock, false, 1)))
		}
		call = func(ctx context.Context) (any, error) { return e.client.GetBlock(ctx, e.head) }
	case "GetConfigAll", "GetConfigParams":
		if !errAnswer {
			ans := e.enc(e.obj("liteServer.configInfo", tlref.VNat(uint32(c.U64("mode"))), drawID(), plain("state_proof"), bag("config_proof", tShardState, true, 1)))
			answers[e.fnID("liteServer.getConfigAll")] = ans
			answers[e.fnID("liteServer.getConfigParams")] = ans
		}
		if method == "GetConfigAll" {
			call = func(ctx context.Context) (any, error) { return e.client.GetConfigAll(ctx, 0) }
		} else {
			call = func(ctx context.Context) (any, error) { return e.client.GetConfigParams(ctx, 0, []uint32{0, 34}) }
		}
	case "GetLibraries":
		if !errAnswer {
			var entries []*tlref.Value
			for i, n := 0, c.Range("libs", 0, 3); i < n; i++ {
				entries = append(entries, e.obj("liteServer.libraryEntry", tlref.VInt256(c.Content("lib.hash", 32)), bag("data", tAnyCell, false, 1)))
			}
			answers[e.fnID("liteServer.getLibraries")] = e.enc(e.obj("liteServer.libraryResult", tlref.VVector(entries)))
		}
		call = func(ctx context.Context) (any, error) { return e.client.GetLibraries(ctx, []ton.Bits256{{1}, {2}}) }
	case "RunSmcMethodByID":
		if !errAnswer {
			mode := uint32(4)
			if c.Intn("mode.other", 4) == 0 {
				mode = uint32(c.U64("mode")) & 0x1f
			}
			opt := func(bit uint, v func() *tlref.Value) *tlref.Value {
				if mode>>bit&1 == 1 {
					return v()
				}
				return nil
			}
			exit := []uint32{0, 1, 4294967040, uint32(c.U64("exit"))}[c.Weighted("exit.code", 6, 1, 1, 1)]
			answers[e.fnID("liteServer.runSmcMethod")] = e.enc(e.obj("liteServer.runMethodResult", tlref.VNat(mode), drawID(), drawID(),
				opt(0, func() *tlref.Value { return plain("shard_proof") }), opt(0, func() *tlref.Value { return plain("proof") }),
				opt(1, func() *tlref.Value { return plain("state_proof") }), opt(3, func() *tlref.Value { return plain("init_c7") }),
				opt(4, func() *tlref.Value { return plain("lib_extras") }), tlref.VInt(exit),
				opt(2, func() *tlref.Value { return bag("result", tVmStack, false, 1) })))
		}
		mid := c.Intn("method.id", 1<<17)
		call = func(ctx context.Context) (any, error) {
			_, st, err := e.client.RunSmcMethodByID(ctx, acc, mid, tlb.VmStack{})
			return st, err
		}
	case "GetAllShardsInfo":
		if !errAnswer {
			answers[e.fnID("liteServer.getAllShardsInfo")] = e.enc(e.obj("liteServer.allShardsInfo", drawID(), plain("proof"), bag("data", tAllShards, false, 1)))
		}
		call = func(ctx context.Context) (any, error) { return e.client.GetAllShardsInfo(ctx, e.head) }
	case "GetOneTransactionFromBlock":
		if !errAnswer {
			answers[e.fnID("liteServer.getOneTransaction")] = e.enc(e.obj("liteServer.transactionInfo", drawID(), plain("proof"), bag("transaction", tTransaction, false, 1)))
		}
		call = func(ctx context.Context) (any, error) {
			return e.client.GetOneTransactionFromBlock(ctx, acc, e.head, 77)
		}
	case "ListBlockTransactions":
		if !errAnswer {
			var ids []*tlref.Value
			for i, n := 0, c.Range("ids", 0, 4); i < n; i++ {
				ids = append(ids, s.DrawObject(c, s.Constructor("liteServer.transactionId"), small))
			}
			ans := e.enc(e.obj("liteServer.blockTransactions", drawID(), tlref.VNat(uint32(c.U64("req_count"))), tlref.VBool(c.Bool("incomplete")), tlref.VVector(ids), plain("proof")))
			if c.Intn("mutate", 3) == 0 {
				ans = mutateBytes(c, ans)
				classes = append(classes, "ListBlockTransactions: answer bytes mutated")
			} else {
				classes = append(classes, "ListBlockTransactions: well-formed answer")
			}
			answers[e.fnID("liteServer.listBlockTransactions")] = ans
		}
		call = func(ctx context.Context) (any, error) {
			ids, _, err := e.client.ListBlockTransactions(ctx, e.head, 7, 10, nil)
			return ids, err
		}
	default: // GetValidatorStats
		if !errAnswer {
			answers[e.fnID("liteServer.getValidatorStats")] = e.enc(e.obj("liteServer.validatorStats", tlref.VNat(uint32(c.U64("mode"))), drawID(), tlref.VInt(uint32(c.U64("count"))),
				tlref.VBool(c.Bool("complete")), plain("state_proof"), bag("data_proof", tShardStateS, true, 1)))
		}
		call = func(ctx context.Context) (any, error) { return e.client.GetValidatorStats(ctx, 0, 10, nil, nil) }
	}
	size := 0
	var key []byte
	for _, a := range answers {
		if len(a) > size {
			size = len(a)
			key = a
		}
	}
	if !errAnswer {
		for fn, a := range answers {
			c.Note("answer to "+e.fnName[fn], fmt.Sprintf("%x", trunc(a)))
		}
	}
	for _, cl := range classes {
		c.Class(cl)
	}
	c.NonTrivial(method, key)

	e.mu.Lock()
	e.answers = answers
	e.mu.Unlock()
	defer func() {
		e.mu.Lock()
		e.answers = map[uint32][]byte{}
		e.mu.Unlock()
	}()
	c.Checkpoint()
	ctx, cancel := context.WithTimeout(context.Background(), 4*apiTimeout+2*netSlack)
	defer cancel()
	resCh := make(chan callResult, 1)
	var got callResult
	hung := false
	limit := 4*apiTimeout + netSlack // GetLastTransactions makes up to 3 requests
	alloc := core.AllocDelta(func() {
		go func() {
			var r callResult
			r.perr = core.Protect(func() error { r.val, r.err = call(ctx); return nil })
			resCh <- r
		}()
		wait := time.NewTimer(limit)
		defer wait.Stop()
		select {
		case got = <-resCh:
		case <-wait.C:
			hung = true
		}
	})
	if hung {
		return fmt.Errorf("%s did not return within %v (request timeout %v)", method, limit, apiTimeout)
	}
	if got.perr != nil {
		if pe, ok := got.perr.(*core.PanicError); ok && d20 && strings.Contains(fmt.Sprint(pe.Val), "index out of range") &&
			strings.Contains(pe.Stack, "liteapi.(*Client).GetTransactions") {
			c.Class("GetTransactions panics: fewer ids than transaction roots (C08-gettransactions-ids)")
			if c.Known("C08-gettransactions-ids") {
				return nil
			}
			return fmt.Errorf("liteapi.(*Client).%s panicked: the liteServer.transactionList answer carries fewer block ids than transaction roots and GetTransactions indexes r.Ids[i] for every root: %v", method, got.perr)
		}
		return fmt.Errorf("liteapi.(*Client).%s panicked: %v", method, got.perr)
	}
	if bound := uint64(64<<20) + 1024*uint64(size); alloc > bound {
		return fmt.Errorf("liteapi.(*Client).%s allocated %d bytes for an answer of %d bytes (bound %d)", method, alloc, size, bound)
	}
	if got.err != nil {
		c.Class(method + ": error")
	} else {
		c.Class(method + ": value")
	}
	return nil
}}

func TestEnum(t *testing.T) {
	core.RunEnum(t, answersGrid, "answer frames: every payload length 0..48 x byte after the id in {00,01,04,fd,fe,ff}", func(yield func(...uint64) bool) {
		for total := 0; total <= 48; total++ {
			for first := range gridFirst {
				if !yield(uint64(total), uint64(first)) {
					return
				}
			}
		}
	})
}
