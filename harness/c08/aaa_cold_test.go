package c08

import (
	"fmt"
	"reflect"
	"testing"

	"github.com/tonkeeper/tongo/boc"
	"github.com/tonkeeper/tongo/tlb"

	"verifharness/internal/core"
)

// c08/cold-concurrent: decoders are called from many goroutines from the first moment of a process (an indexer
// starts its workers and they all meet their first block). This file sorts first, so its first case runs before
// anything else of the package has decoded a value: whatever the library remembers about types on first use
// is filled in by several goroutines at once. Every worker decodes every TL-B type of the registry, each
// starting at a different type, from cells of its own (all-zero and all-one data, four references deep
// enough for any record to run out of input or end). A value or an error is fine; a panic is reported per
// goroutine, and a process-level abort (the runtime's "concurrent map" check) is reported by the driver.
// tape: number of workers (4..16), the bit every cell is filled with.
var coldConcurrent = &core.Check{Name: "c08/cold-concurrent", Quick: 12, Thorough: 96, Hang: hang, Fn: func(c *core.Ctx) error {
	workers := 4 + c.Intn("workers", 13)
	one := c.Intn("fill", 2) == 1
	c.NonTrivial(workers, one)
	mk := func() *boc.Cell {
		var level [4]*boc.Cell
		for d := 0; d < 4; d++ {
			x := boc.NewCell()
			for i := 0; i < 1023; i++ {
				x.WriteBit(one)
			}
			if d > 0 {
				for r := 0; r < 4; r++ {
					x.AddRef(level[d-1])
				}
			}
			level[d] = x
		}
		return level[3]
	}
	roots := make([]*boc.Cell, workers)
	for w := range roots {
		roots[w] = mk()
	}
	types := tlbTypes
	return core.Parallel(workers, len(types), 0, func(w, r int) error {
		t := types[(r+w*len(types)/workers)%len(types)]
		resetAll(roots[w])
		var perr error
		if w%2 == 0 {
			perr = core.Protect(func() error { tlb.Unmarshal(roots[w], reflect.New(t).Interface()); return nil })
		} else {
			perr = core.Protect(func() error { tlb.NewDecoder().Unmarshal(roots[w], reflect.New(t).Interface()); return nil })
		}
		if perr != nil {
			return fmt.Errorf("decoding into %s panicked while %d goroutines decode at the same time: %v", typeName(t), workers, perr)
		}
		return nil
	})
}}

func TestAAAColdConcurrent(t *testing.T) { core.Run(t, coldConcurrent) }
