package c08

import (
	"fmt"
	"sort"
	"testing"

	"github.com/tonkeeper/tongo/boc"
	"github.com/tonkeeper/tongo/tlb"

	"verifharness/internal/core"
	"verifharness/internal/ref"
)

// c08/slices: a get-method result holding one cell slice (vm_stk_slice#04 cell:^Cell st_bits:(## 10)
// end_bits:(## 10) st_ref:(#<= 4) end_ref:(#<= 4)) whose bounds are enumerated around and beyond the size of
// the referenced cell. Decoding returns a value or an error; a decoded stack is then used the way the
// get-method helpers use it (VmCellSlice.Cell, UnmarshalToTlbStruct, VmStack.Unmarshal): none of it may panic.
// tape: bits of the referenced cell, its references, st_bits, end_bits, st_ref, end_ref.
var sliceCheck = &core.Check{Name: "c08/slices", Fn: func(c *core.Ctx) error {
	nbits, nrefs := c.Intn("cell.bits", 1024), c.Intn("cell.refs", 5)
	stBits, endBits := c.Intn("st_bits", 1024), c.Intn("end_bits", 1024)
	stRef, endRef := c.Intn("st_ref", 8), c.Intn("end_ref", 8)
	c.Note("slice", fmt.Sprintf("cell of %d bits / %d refs, bits %d..%d, refs %d..%d", nbits, nrefs, stBits, endBits, stRef, endRef))
	inRange := stBits <= endBits && endBits <= nbits && stRef <= endRef && endRef <= nrefs
	if !inRange {
		c.NonTrivial(nbits, nrefs, stBits, endBits, stRef, endRef)
		c.Class("bounds outside the cell or reversed")
	}
	data := make(ref.Bits, nbits)
	for i := range data {
		data[i] = i%3 == 0
	}
	var kids []*ref.RCell
	for i := 0; i < nrefs; i++ {
		kids = append(kids, ref.NewRCell(ref.Bits{}.AppendUint(uint64(i), 8), false))
	}
	target := ref.NewRCell(data, false, kids...)
	var b ref.Bits
	b = b.AppendUint(1, 24)               // depth
	b = b.AppendUint(4, 8)                // vm_stk_slice#04
	b = b.AppendUint(uint64(stBits), 10). // st_bits end_bits st_ref end_ref
						AppendUint(uint64(endBits), 10).AppendUint(uint64(stRef), 3).AppendUint(uint64(endRef), 3)
	root := ref.NewRCell(b, false, ref.NewRCell(nil, false), target)
	cells, err := boc.DeserializeBoc(ref.SerializeBOC([]*ref.RCell{root}, ref.BocVariant{}))
	if err != nil {
		return fmt.Errorf("HARNESS: %v", err)
	}
	var st tlb.VmStack
	var derr error
	if perr := core.Protect(func() error { derr = tlb.Unmarshal(cells[0], &st); return nil }); perr != nil {
		return fmt.Errorf("decoding a stack with one cell slice (cell of %d bits / %d refs, bits %d..%d, refs %d..%d) panicked: %v", nbits, nrefs, stBits, endBits, stRef, endRef, perr)
	}
	if derr != nil {
		if inRange {
			return fmt.Errorf("a stack with one cell slice inside its cell (cell of %d bits / %d refs, bits %d..%d, refs %d..%d) does not decode: %v", nbits, nrefs, stBits, endBits, stRef, endRef, derr)
		}
		c.Class("refused by the decoder")
		return nil
	}
	c.Class("decoded")
	use := func(what string, f func()) error {
		if perr := core.Protect(func() error { f(); return nil }); perr != nil {
			return fmt.Errorf("%s on a decoded stack with one cell slice (cell of %d bits / %d refs, bits %d..%d, refs %d..%d) panicked: %v", what, nbits, nrefs, stBits, endBits, stRef, endRef, perr)
		}
		return nil
	}
	for _, v := range st {
		v := v
		if v.SumType != "VmStkSlice" {
			continue
		}
		if err := use("VmCellSlice.Cell", func() { v.VmStkSlice.Cell() }); err != nil {
			return err
		}
		if err := use("VmCellSlice.UnmarshalToTlbStruct", func() { var a tlb.MsgAddress; v.VmStkSlice.UnmarshalToTlbStruct(&a) }); err != nil {
			return err
		}
	}
	if err := use("VmStack.Unmarshal", func() {
		var dst struct{ A tlb.MsgAddress }
		st.Unmarshal(&dst)
	}); err != nil {
		return err
	}
	return nil
}}

func TestSlices(t *testing.T) {
	core.RunEnum(t, sliceCheck, "one cell slice on a stack: cells of 0, 5 and 1023 bits with 0, 1 and 4 references x bit bounds {0, 1, size-1, size, size+1, 1023} squared x reference bounds 0..7 squared", func(yield func(...uint64) bool) {
		for _, nb := range []int{0, 5, 1023} {
			for _, nr := range []int{0, 1, 4} {
				bs := map[int]bool{0: true, 1: true, 1023: true}
				for _, x := range []int{nb - 1, nb, nb + 1} {
					if x >= 0 && x <= 1023 {
						bs[x] = true
					}
				}
				var bl []int
				for x := range bs {
					bl = append(bl, x)
				}
				sort.Ints(bl)
				for _, sb := range bl {
					for _, eb := range bl {
						for sr := 0; sr < 8; sr++ {
							for er := 0; er < 8; er++ {
								if !yield(uint64(nb), uint64(nr), uint64(sb), uint64(eb), uint64(sr), uint64(er)) {
									return
								}
							}
						}
					}
				}
			}
		}
	})
}
