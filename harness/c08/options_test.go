package c08

import (
	"errors"
	"fmt"

	"github.com/tonkeeper/tongo/boc"
	"github.com/tonkeeper/tongo/tlb"

	"verifharness/internal/core"
	"verifharness/internal/ref"
)

// Decoder configurations. The property speaks of "decoding any cell tree into any TL-B type of the library":
// every way the library offers to make a decoder is a decoder in that sense. tlb.Decoder has three switches
// (a hasher, present in decoders made by NewDecoder; WithDebug; WithLibraryResolver), and the hand-written
// container decoders re-enter Decoder.Unmarshal with the decoder they were given, so state kept in the
// decoder (the debug path, the hasher's cache) lives across nested and across repeated calls.
const (
	decPlain         = iota // tlb.Unmarshal: zero decoder
	decHasher               // tlb.NewDecoder()
	decDebug                // tlb.NewDecoder().WithDebug()
	decResolver             // tlb.NewDecoder().WithLibraryResolver(r), r knows every library
	decDebugResolver        // tlb.NewDecoder().WithDebug().WithLibraryResolver(r), r knows every library
	decDebugNotFound        // tlb.NewDecoder().WithDebug().WithLibraryResolver(r), r knows no library
	decZeroDebug            // (&tlb.Decoder{}).WithDebug(): debug mode without a hasher
	nDecoders
)

var decoderNames = [nDecoders]string{
	"tlb.Unmarshal", "NewDecoder()", "NewDecoder().WithDebug()", "NewDecoder().WithLibraryResolver(found)",
	"NewDecoder().WithDebug().WithLibraryResolver(found)", "NewDecoder().WithDebug().WithLibraryResolver(not found)",
	"(&Decoder{}).WithDebug()",
}

// drawn decoders: the first two entries are the two flavours the package used before (old replay tapes hold
// 0 or 1 at this draw); debug mode gets about half of the cases
var decoderDraw = []int{decPlain, decHasher, decDebug, decResolver, decDebugResolver, decDebugNotFound, decZeroDebug, decDebug, decDebugResolver, decDebug}

func drawDecoder(c *core.Ctx) int {
	d := decoderDraw[c.Choose("decoder", len(decoderDraw))]
	c.Class("decoder: " + decoderNames[d])
	return d
}

func decoderHasDebug(d int) bool {
	return d == decDebug || d == decDebugResolver || d == decDebugNotFound || d == decZeroDebug
}

func decoderResolves(d int) bool { return d == decResolver || d == decDebugResolver }

// libTree is what the resolver hands out for every library hash: a small tree of ordinary cells (a tree
// with a library cell in it could resolve for ever, which no set of real libraries can: a cell cannot hold
// the hash of a tree it is part of). Every call builds fresh cells, as a resolver backed by a store does.
type libTree struct {
	root ref.Bits
	kids []ref.Bits
	// tree, when set, is handed out instead: a tree of ordinary cells (the input of the case, which the
	// decoder then sees as a single library cell)
	tree *ref.RCell
	// again: the resolver answers every hash with a library cell once more (a careless or hostile library
	// source). Nothing says what that should decode to; it has to come to an end like everything else.
	again bool
}

// cells is the number of cells a resolved library unfolds to.
func (l *libTree) cells() int {
	if l == nil {
		return 0
	}
	if l.again {
		return 1
	}
	if l.tree != nil {
		return unfolded(l.tree, maxUnfold)
	}
	return 1 + len(l.kids)
}

func (l *libTree) build() (*boc.Cell, error) {
	if l.again {
		h := append(append([]byte{}, l.root.Packed()...), make([]byte, 32)...)[:32]
		cells, err := boc.DeserializeBoc(ref.SerializeBOC([]*ref.RCell{ref.NewRCell(ref.Bits{}.AppendUint(2, 8).AppendBytes(h), true)}, ref.BocVariant{}))
		if err != nil {
			return nil, errNoSuchLibrary
		}
		return cells[0], nil
	}
	if l.tree != nil {
		if c := (&sweepRun{}).tongo(l.tree); c != nil {
			return c, nil
		}
		return nil, errNoSuchLibrary
	}
	mk := func(b ref.Bits) (*boc.Cell, error) {
		c := boc.NewCell()
		for _, bit := range b {
			if err := c.WriteBit(bit); err != nil {
				return nil, err
			}
		}
		return c, nil
	}
	root, err := mk(l.root)
	if err != nil {
		return nil, err
	}
	for _, k := range l.kids {
		kc, err := mk(k)
		if err != nil {
			return nil, err
		}
		if err := root.AddRef(kc); err != nil {
			return nil, err
		}
	}
	return root, nil
}

func drawLibTree(c *core.Ctx) *libTree {
	l := &libTree{root: ref.Bits(c.Bits("lib.root", c.Range("lib.rootbits", 0, 600)))}
	for i, n := 0, c.Range("lib.kids", 0, 3); i < n; i++ {
		l.kids = append(l.kids, ref.Bits(c.Bits("lib.kid", c.Range("lib.kidbits", 0, 300))))
	}
	return l
}

// fixedLibTree is the resolver answer of the enumerated sweep (no draws).
var fixedLibTree = &libTree{
	root: ref.Bits{}.AppendUint(0x5a5a5a5a5a5a5a5a, 64).AppendUint(0, 64).AppendUint(0xffffffffffffffff, 64).AppendUint(0x0123456789abcdef, 64),
	kids: []ref.Bits{ref.Bits{}.AppendUint(0xc3, 8), ref.Bits{}.AppendUint(0x8000000000000001, 64)},
}

var errNoSuchLibrary = errors.New("library not found")

// newDecoder makes the decoder of flavour d; nil means tlb.Unmarshal. calls counts resolver calls.
func newDecoder(d int, lib *libTree, calls *int) *tlb.Decoder {
	found := func(hash tlb.Bits256) (*boc.Cell, error) {
		if calls != nil {
			*calls++
		}
		if lib == nil {
			return nil, errNoSuchLibrary
		}
		return lib.build()
	}
	notFound := func(hash tlb.Bits256) (*boc.Cell, error) {
		if calls != nil {
			*calls++
		}
		return nil, errNoSuchLibrary
	}
	switch d {
	case decHasher:
		return tlb.NewDecoder()
	case decDebug:
		return tlb.NewDecoder().WithDebug()
	case decResolver:
		return tlb.NewDecoder().WithLibraryResolver(found)
	case decDebugResolver:
		return tlb.NewDecoder().WithDebug().WithLibraryResolver(found)
	case decDebugNotFound:
		return tlb.NewDecoder().WithDebug().WithLibraryResolver(notFound)
	case decZeroDebug:
		return (&tlb.Decoder{}).WithDebug()
	}
	return nil
}

// runDecoder decodes cell into dest with the decoder (nil: tlb.Unmarshal).
func runDecoder(dec *tlb.Decoder, cell *boc.Cell, dest any) error {
	if dec == nil {
		return tlb.Unmarshal(cell, dest)
	}
	return dec.Unmarshal(cell, dest)
}

func describeDecoder(d int) string { return fmt.Sprintf("decoder %s", decoderNames[d]) }
