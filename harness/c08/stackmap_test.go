package c08

import (
	"fmt"
	"math/big"
	"testing"

	"github.com/tonkeeper/tongo/boc"
	"github.com/tonkeeper/tongo/tlb"

	"verifharness/internal/core"
)

// c08/stack-map: the second stage behind every get-method answer. A decoded VmStack is mapped onto the fields
// of a Go struct (VmStack.Unmarshal -> VmStackValue.Unmarshal, the abi result decoders are built on it). For
// every kind of stack value a lite server can send, at the boundaries of the integer ranges, and every kind of
// destination field, the mapping returns a value or an error and never panics.
// tape: index of the stack value, index of the destination.
type stackCase struct {
	name string
	v    tlb.VmStackValue
}

func stackValues() []stackCase {
	pow := func(e uint, d int64) *big.Int {
		x := new(big.Int).Lsh(big.NewInt(1), e)
		return x.Add(x, big.NewInt(d))
	}
	neg := func(x *big.Int) *big.Int { return new(big.Int).Neg(x) }
	var out []stackCase
	out = append(out, stackCase{"null", tlb.VmStackValue{SumType: "VmStkNull"}})
	for _, t := range []int64{0, 1, -1, 127, 128, -128, -129, 255, 256, 1<<31 - 1, 1 << 31, -1 << 31, 1<<63 - 1, -1 << 63} {
		out = append(out, stackCase{fmt.Sprintf("tinyint %d", t), tlb.VmStackValue{SumType: "VmStkTinyInt", VmStkTinyInt: t}})
	}
	for _, b := range []*big.Int{big.NewInt(0), big.NewInt(1), big.NewInt(-1), pow(63, -1), pow(63, 0), neg(pow(63, 0)), neg(pow(63, 1)), pow(64, -1), pow(64, 0),
		pow(255, -1), pow(255, 0), neg(pow(255, 0)), pow(256, -1), neg(pow(256, -1)), neg(pow(256, 0))} {
		out = append(out, stackCase{"int257 " + b.String(), tlb.VmStackValue{SumType: "VmStkInt", VmStkInt: tlb.Int257(*b)}})
	}
	out = append(out, stackCase{"nan", tlb.VmStackValue{SumType: "VmStkNan"}})
	cell := boc.NewCell()
	_ = cell.WriteUint(0x8000000000000001, 64)
	out = append(out, stackCase{"cell", tlb.VmStackValue{SumType: "VmStkCell", VmStkCell: tlb.Ref[boc.Cell]{Value: *cell}}})
	empty := boc.NewCell()
	out = append(out, stackCase{"empty cell", tlb.VmStackValue{SumType: "VmStkCell", VmStkCell: tlb.Ref[boc.Cell]{Value: *empty}}})
	if sl, err := tlb.CellToVmCellSlice(cell); err == nil {
		out = append(out, stackCase{"slice", sl})
	}
	if sl, err := tlb.CellToVmCellSlice(empty); err == nil {
		out = append(out, stackCase{"empty slice", sl})
	}
	out = append(out, stackCase{"builder", tlb.VmStackValue{SumType: "VmStkBuilder", VmStkBuilder: tlb.Ref[boc.Cell]{Value: *cell}}})
	out = append(out, stackCase{"empty tuple", tlb.VmStackValue{SumType: "VmStkTuple"}})
	return out
}

type stackDest struct {
	name string
	run  func(st tlb.VmStack) error
}

func destOf[T any](name string) stackDest {
	return stackDest{name, func(st tlb.VmStack) error {
		var d struct{ A T }
		err := st.Unmarshal(&d)
		var single T
		if len(st) > 0 {
			_ = st[0].Unmarshal(&single)
		}
		return err
	}}
}

func stackDests() []stackDest {
	return []stackDest{
		destOf[int8]("int8"), destOf[int16]("int16"), destOf[int32]("int32"), destOf[int64]("int64"), destOf[int]("int"),
		destOf[uint8]("uint8"), destOf[uint16]("uint16"), destOf[uint32]("uint32"), destOf[uint64]("uint64"), destOf[uint]("uint"),
		destOf[bool]("bool"), destOf[big.Int]("big.Int"), destOf[tlb.Int257]("tlb.Int257"), destOf[tlb.Uint256]("tlb.Uint256"), destOf[tlb.Bits256]("tlb.Bits256"),
		destOf[tlb.Grams]("tlb.Grams"), destOf[string]("string"), destOf[tlb.MsgAddress]("tlb.MsgAddress"), destOf[boc.Cell]("boc.Cell"), destOf[tlb.Any]("tlb.Any"),
		destOf[*int64]("*int64"), destOf[*tlb.Bits256]("*tlb.Bits256"), destOf[*tlb.MsgAddress]("*tlb.MsgAddress"), destOf[*boc.Cell]("*boc.Cell"), destOf[*tlb.Int257]("*tlb.Int257"),
		destOf[[]tlb.MsgAddress]("[]tlb.MsgAddress"), destOf[struct{ X, Y int64 }]("struct{X,Y int64}"), destOf[tlb.VmStackValue]("tlb.VmStackValue"), destOf[float64]("float64"),
		destOf[tlb.Maybe[tlb.Uint32]]("tlb.Maybe[Uint32]"), destOf[map[string]int]("map[string]int"), destOf[any]("any"),
	}
}

var stackMapCheck = &core.Check{Name: "c08/stack-map", Fn: func(c *core.Ctx) error {
	vals, dests := stackValues(), stackDests()
	v, d := vals[c.Intn("value", len(vals))], dests[c.Intn("dest", len(dests))]
	c.Note("stack value", v.name)
	c.Note("destination", d.name)
	c.NonTrivial(v.name, d.name)
	// through the wire form where the library can write it, the value as built otherwise
	st := tlb.VmStack{v.v}
	cell := boc.NewCell()
	if core.Protect(func() error { return tlb.Marshal(cell, st) }) == nil {
		var back tlb.VmStack
		if perr := core.Protect(func() error {
			if err := tlb.Unmarshal(cell, &back); err == nil && len(back) == 1 {
				st = back
				c.Class("stack value went through its cell form")
			}
			return nil
		}); perr != nil {
			return fmt.Errorf("decoding the cell form of a stack holding %s panicked: %v", v.name, perr)
		}
	}
	var merr error
	if perr := core.Protect(func() error { merr = d.run(st); return nil }); perr != nil {
		return fmt.Errorf("mapping a stack holding %s onto a %s field panicked: %v", v.name, d.name, perr)
	}
	if merr != nil {
		c.Class("mapping refused with an error")
	} else {
		c.Class("mapped")
	}
	return nil
}}

func TestStackMap(t *testing.T) {
	nv, nd := len(stackValues()), len(stackDests())
	core.RunEnum(t, stackMapCheck, fmt.Sprintf("%d stack values (null, tiny integers and 257-bit integers at the range boundaries, nan, cells, slices, builder, tuple) x %d kinds of destination field", nv, nd), func(yield func(...uint64) bool) {
		for i := 0; i < nv; i++ {
			for j := 0; j < nd; j++ {
				if !yield(uint64(i), uint64(j)) {
					return
				}
			}
		}
	})
}
