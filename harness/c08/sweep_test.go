package c08

import (
	"fmt"
	"reflect"
	"testing"
	"time"

	"github.com/tonkeeper/tongo/boc"
	"github.com/tonkeeper/tongo/tlb"

	"verifharness/internal/core"
	"verifharness/internal/gen"
	"verifharness/internal/ref"
	"verifharness/internal/tlbgen"
)

// c08/tlb-sweep: enumerated truncation sweep over valid encodings.
//
// The hand-written decoders guard every "is there a reference / are there bits left" question themselves
// (McBlockExtra tolerates a missing ^[...] reference, BlockInfo reads references selected by flag bits, the
// dictionary and list decoders walk references in loops). A random mutation hits "exactly the reference the
// guard is about, in a cell whose bits before it are still well-formed" with a probability of about 1e-6
// per case; the sweep makes it certain: for one decode target and one valid encoding, EVERY cell of the
// encoding (root and inner cells, breadth first) gets its reference list cut at every position, every
// single reference but the last removed, and its bit string cut at every length (at a stride when the
// encoding has more bits than the per-case budget). Every mutant is a cell tree, so by the property the
// decoder must return a value or an error for it.

const sweepHang = 600 * time.Second

// value numbers of a case: [0,sweepReal) generated, [sweepReal,sweepHand) real data, [sweepHand,64) reference-built
const (
	sweepReal = 32
	sweepHand = 48
)

// per case budgets
func sweepMaxCells(real bool) int {
	if real {
		return core.Scale(10, 300)
	}
	return core.Scale(48, 400)
}
func sweepBitBudget(real bool) int {
	if real {
		return core.Scale(40, 6000)
	}
	return core.Scale(1200, 20000)
}

// number of generated values per type
func sweepGenValues() int { return core.Scale(2, 30) }

// ---- seeds from the real data of the tree (typed subtrees of the test blocks, cut by schema position)
//
//	block#11ef55aa global_id:int32 info:^BlockInfo value_flow:^ValueFlow state_update:^(...) extra:^BlockExtra
//	block_extra in_msg_descr:^InMsgDescr out_msg_descr:^OutMsgDescr account_blocks:^ShardAccountBlocks
//	  rand_seed:bits256 created_by:bits256 custom:(Maybe ^McBlockExtra)
var (
	tBlockInfo    = reflect.TypeOf(tlb.BlockInfo{})
	tValueFlow    = reflect.TypeOf(tlb.ValueFlow{})
	tBlockExtra   = reflect.TypeOf(tlb.BlockExtra{})
	tMcBlockExtra = reflect.TypeOf(tlb.McBlockExtra{})
)

func startsWith(x *ref.RCell, v uint64, n int) bool {
	if x.Special || x.BitLen < n {
		return false
	}
	var b ref.Bits
	b = b.AppendUint(v, n)
	got := x.Bits()
	for i := range b {
		if got[i] != b[i] {
			return false
		}
	}
	return true
}

func realSeeds(t reflect.Type) []*ref.RCell {
	blocks := realFor(tBlock, false)
	var out []*ref.RCell
	for _, blk := range blocks {
		if blk.Special || len(blk.Refs) != 4 {
			continue
		}
		switch t {
		case tBlock:
			out = append(out, blk)
		case tBlockInfo:
			out = append(out, blk.Refs[0])
		case tValueFlow:
			out = append(out, blk.Refs[1])
		case tBlockExtra:
			out = append(out, blk.Refs[3])
		case tMcBlockExtra:
			ex := blk.Refs[3]
			if len(ex.Refs) == 4 && startsWith(ex.Refs[3], 0xcca5, 16) {
				out = append(out, ex.Refs[3])
			}
		}
	}
	switch t {
	case tBlockHeader:
		for _, p := range realFor(tBlockHeader, true) {
			if len(p.Refs) == 1 {
				out = append(out, p.Refs[0])
			}
		}
	case tShardState:
		for _, p := range realFor(tShardState, true) {
			if len(p.Refs) == 1 {
				out = append(out, p.Refs[0])
			}
		}
	}
	return out
}

// sweepValue draws a value of t the library can encode; several attempts, because some constructors have
// no encoder (BinTree, VmStkTuple, ...) and some generated records exceed a cell.
func sweepValue(c *core.Ctx, t reflect.Type) *ref.RCell {
	sweepHookOn = true
	defer func() { sweepHookOn = false }()
	for attempt := 0; attempt < 10; attempt++ {
		g := &tlbgen.G{C: c}
		v, gerr := g.Value(t, 3)
		if gerr != nil {
			if _, ok := unwrapUnsupported(gerr); ok && attempt >= 3 {
				return nil
			}
			continue
		}
		cell := boc.NewCell()
		var merr error
		if perr := core.Protect(func() error { merr = tlb.Marshal(cell, v.Interface()); return nil }); perr != nil || merr != nil {
			continue
		}
		if root, err := gen.FromTongo(cell, 20000); err == nil {
			return root
		}
	}
	return nil
}

func unwrapUnsupported(err error) (*tlbgen.Unsupported, bool) {
	for err != nil {
		if u, ok := err.(*tlbgen.Unsupported); ok {
			return u, true
		}
		w, ok := err.(interface{ Unwrap() error })
		if !ok {
			return nil, false
		}
		err = w.Unwrap()
	}
	return nil, false
}

// bfs lists the distinct cells of the tree breadth first, at most max.
func bfs(root *ref.RCell, max int) []*ref.RCell {
	seen := map[*ref.RCell]bool{root: true}
	out := []*ref.RCell{root}
	for i := 0; i < len(out) && len(out) < max; i++ {
		for _, r := range out[i].Refs {
			if !seen[r] && len(out) < max {
				seen[r] = true
				out = append(out, r)
			}
		}
	}
	return out
}

// replaceCell returns a copy of the tree in which target is replaced by repl (path copying; shared
// subtrees stay shared). ok is false when target sits below an exotic cell (such a tree would not be
// well-formed any more: the hashes stored in the exotic cell no longer match).
func replaceCell(root, target, repl *ref.RCell) (*ref.RCell, bool) {
	memo := map[*ref.RCell]*ref.RCell{}
	ok := true
	var rec func(x *ref.RCell) *ref.RCell
	rec = func(x *ref.RCell) *ref.RCell {
		if x == target {
			return repl
		}
		if y, done := memo[x]; done {
			return y
		}
		var refs []*ref.RCell
		changed := false
		for _, r := range x.Refs {
			nr := rec(r)
			if nr != r {
				changed = true
			}
			refs = append(refs, nr)
		}
		y := x
		if changed {
			if x.Special {
				ok = false
			}
			y = &ref.RCell{Data: x.Data, BitLen: x.BitLen, Special: x.Special, Refs: refs}
		}
		memo[x] = y
		return y
	}
	return rec(root), ok
}

type sweepRun struct {
	c     *core.Ctx
	t     reflect.Type
	name  string
	bound uint64
	batch []sweepMutant
	n     int
	memo  map[*ref.RCell]*boc.Cell
	// the valid encoding contains exotic cells: every mutant goes through serialiser and parser
	special bool
}

type sweepMutant struct {
	what    string
	root    *ref.RCell
	cell    *boc.Cell
	flavour int  // index into sweepFlavours
	both    bool // run plain, caching and one debug-mode decoder (otherwise the one selected by the mutant's number)
}

// sweepFlavours are the decoder configurations of the sweep: a mutant that runs "both" gets the plain and the
// caching decoder and one of the two debug-mode decoders (alternating); the others get one of the four in turn.
var sweepFlavours = [4]int{decPlain, decHasher, decDebug, decDebugResolver}

// decode runs the decoder flavours on one parsed mutant; a panic is returned as an error.
func (s *sweepRun) decode(m sweepMutant) error {
	for i, d := range sweepFlavours {
		if m.both {
			if i >= 2 && i != 2+m.flavour%2 {
				continue
			}
		} else if i != m.flavour {
			continue
		}
		out := reflect.New(s.t)
		resetAll(m.cell)
		dec := newDecoder(d, fixedLibTree, nil)
		perr := core.Protect(func() error {
			runDecoder(dec, m.cell, out.Interface())
			return nil
		})
		if perr != nil {
			data := ref.SerializeBOC([]*ref.RCell{m.root}, ref.BocVariant{})
			return fmt.Errorf("decoding into %s (%s) panicked on a valid encoding with %s: %v\ninput BOC %x", s.name, describeDecoder(d), m.what, perr, trunc(data))
		}
	}
	return nil
}

// resetAll rewinds the read cursors of a parsed tree.
func resetAll(root *boc.Cell) {
	seen := map[*boc.Cell]bool{}
	var rec func(x *boc.Cell)
	rec = func(x *boc.Cell) {
		if seen[x] {
			return
		}
		seen[x] = true
		x.ResetCounters()
		for _, r := range x.Refs() {
			rec(r)
		}
	}
	rec(root)
}

func (s *sweepRun) flush() error {
	if len(s.batch) == 0 {
		return nil
	}
	batch := s.batch
	s.batch = nil
	var err error
	alloc := core.AllocDelta(func() {
		for _, m := range batch {
			if err = s.decode(m); err != nil {
				return
			}
		}
	})
	if err != nil {
		return err
	}
	if alloc <= s.bound {
		return nil
	}
	// the whole batch allocated more than one input may: find out whether a single input did
	for _, m := range batch {
		var e error
		a := core.AllocDelta(func() { e = s.decode(m) })
		if e != nil {
			return e
		}
		u := unfolded(m.root, maxUnfold)
		// three decoder flavours per input; a resolved library adds its cells at every library cell
		if b := 3 * (uint64(16<<20) + uint64(64<<10)*uint64(u)*uint64(1+fixedLibTree.cells())); a > b {
			data := ref.SerializeBOC([]*ref.RCell{m.root}, ref.BocVariant{})
			return fmt.Errorf("decoding into %s allocated %d bytes for a tree that unfolds to %d cells (bound %d): valid encoding with %s\ninput BOC %x", s.name, a, u, b, m.what, trunc(data))
		}
	}
	return nil
}

// tongo builds the library cell of an ordinary reference cell through the construction API. Cells of
// unchanged subtrees are built once per case and shared by the mutants (every decode starts with resetAll).
func (s *sweepRun) tongo(x *ref.RCell) *boc.Cell {
	if c, ok := s.memo[x]; ok {
		return c
	}
	c := boc.NewCell()
	full := x.BitLen / 8
	if err := c.WriteBytes(x.Data[:full]); err != nil {
		return nil
	}
	if r := x.BitLen % 8; r > 0 {
		if err := c.WriteUint(uint64(x.Data[full]>>(8-uint(r))), r); err != nil {
			return nil
		}
	}
	for _, ch := range x.Refs {
		cc := s.tongo(ch)
		if cc == nil || c.AddRef(cc) != nil {
			return nil
		}
	}
	if s.memo == nil {
		s.memo = map[*ref.RCell]*boc.Cell{}
	}
	s.memo[x] = c
	return c
}

func hasSpecial(root *ref.RCell) bool {
	found := false
	ref.Walk([]*ref.RCell{root}, func(x *ref.RCell) {
		if x.Special {
			found = true
		}
	})
	return found
}

func (s *sweepRun) add(what string, root, target, repl *ref.RCell, both bool) error {
	mroot, ok := replaceCell(root, target, repl)
	if !ok {
		s.c.Class("skipped: cell below an exotic cell")
		return nil
	}
	// trees of ordinary cells are built through the construction API (same cells as the parser makes, without
	// the cost of hashing and parsing a bag per mutant); trees with exotic cells go through the reference
	// serialiser and the library's parser, as in the other checks
	var cell *boc.Cell
	if !s.special {
		cell = s.tongo(mroot)
	}
	if cell == nil {
		data := ref.SerializeBOC([]*ref.RCell{mroot}, ref.BocVariant{})
		cells, err := boc.DeserializeBoc(data)
		if err != nil || len(cells) != 1 {
			s.c.Class("input refused by the BOC parser")
			return nil
		}
		cell = cells[0]
	}
	s.n++
	s.batch = append(s.batch, sweepMutant{what: what, root: mroot, cell: cell, both: both, flavour: s.n % 4})
	if len(s.batch) >= 32 {
		return s.flush()
	}
	return nil
}

var sweep = &core.Check{Name: "c08/tlb-sweep", Hang: sweepHang, Fn: func(c *core.Ctx) error {
	ti := c.Choose("type", len(tlbTypes))
	t := tlbTypes[ti]
	k := c.Choose("value", 64)
	name := typeName(t)
	c.Note("type", name)
	var root *ref.RCell
	real := k >= sweepReal && k < sweepHand
	switch {
	case real:
		seeds := realSeeds(t)
		if k-sweepReal >= len(seeds) {
			c.Class("no such real value")
			return nil
		}
		root = seeds[k-sweepReal]
		c.Note("value", fmt.Sprintf("real data #%d", k-sweepReal))
		c.Class("seed: real data of the tree")
	case k >= sweepHand:
		// a panic in the harness's own seed builders must not count against the library
		if perr := core.Protect(func() error { root = handSeed(c, t); return nil }); perr != nil {
			c.Class("HARNESS: seed builder panicked for " + name)
			return nil
		}
		if root == nil {
			c.Class("no reference-built encoding for " + name)
			return nil
		}
		c.Class("seed: reference-built or donor encoding")
	default:
		root = sweepValue(c, t)
		if root == nil {
			c.Class("no valid encoding available for " + name)
			return nil
		}
		c.Class("seed: generated value")
	}
	u := unfolded(root, maxUnfold)
	if u > maxUnfold {
		c.Class("skipped: unfolding above the bound")
		return nil
	}
	c.Checkpoint()
	s := &sweepRun{c: c, t: t, name: name, bound: uint64(16<<20) + uint64(64<<10)*uint64(u), special: hasSpecial(root)}
	// the valid encoding itself
	if err := s.add("no change", root, nil, nil, true); err != nil {
		return err
	}
	if len(s.batch) == 1 {
		m := s.batch[0]
		if err := s.flush(); err != nil {
			return err
		}
		resetAll(m.cell)
		var derr error
		if perr := core.Protect(func() error { derr = tlb.Unmarshal(m.cell, reflect.New(t).Interface()); return nil }); perr != nil {
			return fmt.Errorf("decoding a valid encoding into %s panicked: %v", name, perr)
		}
		kind := "generated"
		if real {
			kind = "real"
		} else if k >= sweepHand {
			kind = "reference-built"
		}
		if derr != nil {
			c.Class("the unchanged " + kind + " encoding is refused by the decoder: " + name)
		} else {
			c.Class("the unchanged " + kind + " encoding decodes")
		}
	}
	cells := bfs(root, sweepMaxCells(real))
	totalBits := 0
	for _, x := range cells {
		if !x.Special {
			totalBits += x.BitLen
		}
	}
	stride, off := 1, 0
	b := sweepBitBudget(real)
	if lim := 4000000 / u; b > lim { // large trees: bound the work of one case (cuts x cells visited per decode)
		b = lim
	}
	if b < 1 {
		b = 1
	}
	if totalBits > b {
		stride = (totalBits + b - 1) / b
		off = c.Choose("stride.offset", stride)
	}
	pos := 0
	for ci, x := range cells {
		if x.Special {
			continue // cutting an exotic cell gives an ill-formed cell, which the BOC parser refuses
		}
		for r := 0; r < len(x.Refs); r++ {
			repl := &ref.RCell{Data: x.Data, BitLen: x.BitLen, Refs: x.Refs[:r:r]}
			if err := s.add(fmt.Sprintf("the references of cell %d (breadth first) cut to %d of %d", ci, r, len(x.Refs)), root, x, repl, true); err != nil {
				return err
			}
		}
		for i := 0; i+1 < len(x.Refs); i++ {
			refs := append(append([]*ref.RCell{}, x.Refs[:i]...), x.Refs[i+1:]...)
			repl := &ref.RCell{Data: x.Data, BitLen: x.BitLen, Refs: refs}
			if err := s.add(fmt.Sprintf("reference %d of %d of cell %d (breadth first) removed", i, len(x.Refs), ci), root, x, repl, true); err != nil {
				return err
			}
		}
		bits := x.Bits()
		for l := 0; l < x.BitLen; l++ {
			if pos++; pos%stride != off {
				continue
			}
			b := bits[:l]
			repl := &ref.RCell{Data: b.Packed(), BitLen: l, Refs: x.Refs}
			if err := s.add(fmt.Sprintf("the bits of cell %d (breadth first) cut to %d of %d", ci, l, x.BitLen), root, x, repl, core.Thorough()); err != nil {
				return err
			}
		}
	}
	if err := s.flush(); err != nil {
		return err
	}
	c.Note("mutants", s.n)
	if s.n > 1 {
		c.NonTrivial(name, root.ReprHash())
	}
	if tlbgen.HasDecoder(t) {
		c.Class("target with a hand-written decoder")
	}
	return nil
}}

// TestSweep enumerates (decode target x value number); the content of the generated values comes from
// tape words expanded from the run's seed.
func TestSweep(t *testing.T) {
	core.RunEnum(t, sweep, "every registry TL-B type x generated values and typed subtrees of the real blocks x every cell (breadth first, capped) x every reference cut, single reference removal and bit-length cut (strided above the budget)", func(yield func(...uint64) bool) {
		for ti, tt := range tlbTypes {
			ks := []int{}
			for k := 0; k < sweepGenValues(); k++ {
				ks = append(ks, k)
			}
			for k := range realSeeds(tt) {
				if k < sweepHand-sweepReal {
					ks = append(ks, sweepReal+k)
				}
			}
			if hasHandSeed(tt) {
				for k := 0; k < sweepGenValues()/2+3 && k < 64-sweepHand; k++ {
					ks = append(ks, sweepHand+k)
				}
			}
			for _, kk := range ks {
				sm := core.NewSplitMix(core.Seed()*1000003 + uint64(ti)*131 + uint64(kk))
				tape := []uint64{uint64(ti), uint64(kk)}
				for i := 0; i < 4000; i++ {
					tape = append(tape, sm.Next())
				}
				if !yield(tape...) {
					return
				}
			}
		}
	})
}
