package c08

import (
	"math/big"
	"os"
	"reflect"
	"regexp"
	"sort"
	"strconv"
	"strings"
	"sync"

	"github.com/tonkeeper/tongo/abi"
	"github.com/tonkeeper/tongo/tlb"
	"github.com/tonkeeper/tongo/wallet"

	"verifharness/internal/core"
	"verifharness/internal/ref"
	"verifharness/internal/tlbgen"
	"verifharness/internal/tlbref"
)

// Valid encodings for the sweep where the value generator plus the library's encoder cannot deliver one.
//
// (1) types whose encoder is declared "not implemented" (BinTree, HashmapAug, VmStkTuple, ChunkedData,
//     DNSText): written here from the schema quoted at each builder, with the reference writers;
// (2) the abi unions that keep their alternative in an `any` field (JettonPayload, NFTPayload, InMsgBody):
//     a generator hook fills them with a generated value of one of the known alternatives, the library's
//     own MarshalTLB then writes opcode + body; with the hook the records that embed them generate too;
// (3) abi list types without an encoder whose wire form is the one of a wallet type: the encoding of the
//     wallet value is the seed.
//
// A seed only has to be a plausible valid encoding; the oracle of the sweep (value or error, no panic,
// bounded allocation) holds for every cell tree, so a seed that is not quite valid costs coverage, never
// soundness.

var (
	tBinTreeU8    = reflect.TypeOf(tlb.BinTree[tlb.Uint8]{})
	tHashmapAugU8 = reflect.TypeOf(tlb.HashmapAug[tlb.Uint8, tlb.Uint8, tlb.Uint8]{})
	tHashmapAugE  = reflect.TypeOf(tlb.HashmapAugE[tlb.Bits256, tlb.Uint8, tlb.Grams]{})
	tVmStkTuple   = reflect.TypeOf(tlb.VmStkTuple{})
	tVmStackValue = reflect.TypeOf(tlb.VmStackValue{})
	tVmTuple      = reflect.TypeOf(tlb.VmTuple{})
	tVmTupleRef   = reflect.TypeOf(tlb.VmTupleRef{})
	tChunkedData  = reflect.TypeOf(tlb.ChunkedData{})
	tContentData  = reflect.TypeOf(tlb.ContentData{})
	tDNSText      = reflect.TypeOf(tlb.DNSText(""))
	tDNSRecord    = reflect.TypeOf(tlb.DNSRecord{})
	tDNSRecordSet = reflect.TypeOf(tlb.DNSRecordSet{})

	tAbiW5Actions     = reflect.TypeOf(abi.W5Actions{})
	tExtOutMsgBody    = reflect.TypeOf(abi.ExtOutMsgBody{})
	tShardInfoBinTree = reflect.TypeOf(tlb.ShardInfoBinTree{})
	tJettonPayload    = reflect.TypeOf(abi.JettonPayload{})
	tNFTPayload       = reflect.TypeOf(abi.NFTPayload{})
	tInMsgBody        = reflect.TypeOf(abi.InMsgBody{})
)

// donors: decode target -> type whose encoding has the same wire form
var sweepDonors = map[reflect.Type]reflect.Type{
	reflect.TypeOf(abi.W5ExtendedActions{}):   reflect.TypeOf(wallet.W5ExtendedActions{}),
	reflect.TypeOf(abi.WalletV1ToV4Payload{}): reflect.TypeOf(wallet.PayloadV1toV4{}),
}

func b() *tlbref.B { return &tlbref.B{} }

// bt_leaf$0 {X:Type} leaf:X = BinTree X;  bt_fork$1 {X:Type} left:^(BinTree X) right:^(BinTree X) = BinTree X;
func binTreeSeed(c *core.Ctx, depth int) *ref.RCell {
	if depth == 0 || c.Intn("bt.leaf", 3) == 0 {
		return b().Bit(false).U(uint64(c.Intn("bt.v", 256)), 8).Cell()
	}
	return b().Bit(true).Ref(binTreeSeed(c, depth-1)).Ref(binTreeSeed(c, depth-1)).Cell()
}

// binTreeOf: a BinTree whose leaves are encodings of generated values of leaf type lt
func binTreeOf(c *core.Ctx, lt reflect.Type, depth int) *ref.RCell {
	if depth == 0 || c.Intn("bt.leaf", 3) == 0 {
		v := sweepValue(c, lt)
		if v == nil || v.Special {
			return b().Bit(false).Cell()
		}
		x := b().Bit(false).Slice(v)
		if !x.Fits() {
			return b().Bit(false).Cell()
		}
		return x.Cell()
	}
	return b().Bit(true).Ref(binTreeOf(c, lt, depth-1)).Ref(binTreeOf(c, lt, depth-1)).Cell()
}

func keyBits(v uint64, n int) ref.Bits { return ref.Bits{}.AppendUint(v, n) }

// HashmapAug 8 uint8 uint8 with extra = sum of the children (any combination is fine for a decoder)
func hashmapAugSeed(c *core.Ctx) *ref.RCell {
	n := c.Range("aug.n", 1, 6)
	sm := core.NewSplitMix(c.U64("aug.seed"))
	seen := map[uint64]bool{}
	var es []ref.DictEntry
	for len(es) < n {
		k := sm.Next() % 256
		if seen[k] {
			continue
		}
		seen[k] = true
		es = append(es, ref.DictEntry{Key: keyBits(k, 8), Value: ref.DictValue{Bits: keyBits(sm.Next()%256, 8)}})
	}
	root, _, err := ref.EncodeHashmapAug(es, 8,
		func(e ref.DictEntry) ref.Bits { return e.Value.Bits.Clone() },
		func(l, r ref.Bits) ref.Bits { return l.Clone() }, nil)
	if err != nil {
		return nil
	}
	return root
}

// ahme_empty$0 extra:Y / ahme_root$1 root:^(HashmapAug n X Y) extra:Y, n = 256, X = uint8, Y = Grams
func hashmapAugESeed(c *core.Ctx) *ref.RCell {
	n := c.Range("auge.n", 1, 5)
	sm := core.NewSplitMix(c.U64("auge.seed"))
	var es []ref.DictEntry
	seen := map[string]bool{}
	for len(es) < n {
		raw := make([]byte, 32)
		sm.Fill(raw)
		if sm.Next()%3 == 0 { // keys with a long common prefix: long labels
			for i := 0; i < 31; i++ {
				raw[i] = 0x55
			}
		}
		if seen[string(raw)] {
			continue
		}
		seen[string(raw)] = true
		es = append(es, ref.DictEntry{Key: ref.Bits{}.AppendBytes(raw), Value: ref.DictValue{Bits: keyBits(sm.Next()%256, 8)}})
	}
	grams := func(v uint64) ref.Bits { return b().Grams(new(big.Int).SetUint64(v)).Bits }
	root, extra, err := ref.EncodeHashmapAug(es, 256,
		func(e ref.DictEntry) ref.Bits { return grams(1000) },
		func(l, r ref.Bits) ref.Bits { return grams(2000) }, nil)
	if err != nil {
		return nil
	}
	return b().Bit(true).Ref(root).Raw(extra).Cell()
}

// vm_stk_tinyint#01 value:int64 / vm_stk_null#00 / vm_stk_tuple#07 len:(## 16) data:(VmTuple len)
func vmValueSeed(c *core.Ctx, depth int) *tlbref.B {
	k := c.Intn("vm.kind", 3)
	if depth == 0 && k == 2 {
		k = 1
	}
	switch k {
	case 0:
		return b().U(0, 8)
	case 1:
		return b().U(1, 8).I(int64(c.Intn("vm.int", 1000))-500, 64)
	}
	return b().U(7, 8).Slice(vmStkTupleSeed(c, depth-1).Cell())
}

// vm_tuple_nil$_ = VmTuple 0;  vm_tuple_tcons$_ {n:#} head:(VmTupleRef n) tail:^VmStackValue = VmTuple (n + 1);
func vmTupleSeed(c *core.Ctx, n, depth int) *tlbref.B {
	if n == 0 {
		return b()
	}
	return b().Slice(vmTupleRefSeed(c, n-1, depth).Cell()).Ref(vmValueSeed(c, depth).Cell())
}

// vm_tupref_nil$_ = VmTupleRef 0;  vm_tupref_single$_ entry:^VmStackValue = VmTupleRef 1;
// vm_tupref_any$_ {n:#} ref:^(VmTuple (n + 2)) = VmTupleRef (n + 2);
func vmTupleRefSeed(c *core.Ctx, n, depth int) *tlbref.B {
	switch n {
	case 0:
		return b()
	case 1:
		return b().Ref(vmValueSeed(c, depth).Cell())
	}
	return b().Ref(vmTupleSeed(c, n, depth).Cell())
}

// the part after the #07 tag: len:(## 16) data:(VmTuple len)
func vmStkTupleSeed(c *core.Ctx, depth int) *tlbref.B {
	n := c.Range("vm.tuple.len", 0, 5)
	return b().U(uint64(n), 16).Slice(vmTupleSeed(c, n, depth).Cell())
}

// vm_stack#_ depth:(## 24) stack:(VmStackList depth);
// vm_stk_cons#_ {n:#} rest:^(VmStackList n) tos:VmStackValue = VmStackList (n + 1);  vm_stk_nil#_ = VmStackList 0;
func vmStackSeed(c *core.Ctx) *ref.RCell {
	n := c.Range("vm.stack.n", 1, 4)
	list := b() // VmStackList 0
	for i := 0; i < n; i++ {
		val := b().U(7, 8).Slice(vmStkTupleSeed(c, 1).Cell())
		if i%2 == 1 {
			val = vmValueSeed(c, 1)
		}
		list = b().Ref(list.Cell()).Slice(val.Cell())
	}
	return b().U(uint64(n), 24).Slice(list.Cell()).Cell()
}

// a snake: the data continues in the first reference
func snakeSeed(c *core.Ctx, label string) *ref.RCell {
	n := c.Range(label+".cells", 1, 3)
	var next *ref.RCell
	for i := 0; i < n; i++ {
		x := b().Bytes(c.Content(label+".data", c.Range(label+".len", 0, 20)))
		if next != nil {
			x.Ref(next)
		}
		next = x.Cell()
	}
	return next
}

// chunked_data#_ data:(HashMapE 32 ^(SnakeData ~0)) = ContentData-like list of chunks
func chunkedDataSeed(c *core.Ctx) *tlbref.B {
	n := c.Range("chunks.n", 0, 4)
	var es []ref.DictEntry
	for i := 0; i < n; i++ {
		es = append(es, ref.DictEntry{Key: keyBits(uint64(i), 32), Value: ref.DictValue{Refs: []*ref.RCell{snakeSeed(c, "chunk")}}})
	}
	bits, refs, err := ref.EncodeHashmapE(es, 32, nil)
	if err != nil {
		return nil
	}
	x := b().Raw(bits)
	x.Refs = refs
	return x
}

// text$_ chunks:(## 8) rest:(TextChunks chunks) = Text;
// text_chunks$_ {n:#} len:(## 8) data:(bits (len * 8)) next:(TextChunkRef n) = TextChunks (n + 1);
// chunk_ref$_ {n:#} ref:^(TextChunks (n + 1)) = TextChunkRef (n + 1);  chunk_ref_empty$_ = TextChunkRef 0;
func dnsTextSeed(c *core.Ctx) *tlbref.B {
	n := c.Range("text.chunks", 0, 4)
	var next *tlbref.B
	for i := 0; i < n; i++ {
		data := c.Content("text.data", c.Range("text.len", 0, 40))
		x := b().U(uint64(len(data)), 8).Bytes(data)
		if next != nil {
			x.Ref(next.Cell())
		}
		next = x
	}
	out := b().U(uint64(n), 8)
	if next != nil {
		out.Slice(next.Cell())
	}
	return out
}

// dns_text#1eda _:Text = DNSRecord
// dns_next_resolver#ba93 resolver:MsgAddressInt = DNSRecord;
// dns_adnl_address#ad01 adnl_addr:bits256 flags:(## 8) { flags <= 1 } proto_list:flags . 0?ProtoList = DNSRecord;
// dns_smc_address#9fd3 smc_addr:MsgAddressInt flags:(## 8) { flags <= 1 } cap_list:flags . 0?SmcCapList = DNSRecord;
// dns_storage_address#7473 bag_id:bits256 = DNSRecord;
// proto_list_nil$0 = ProtoList; proto_list_next$1 head:Protocol tail:ProtoList = ProtoList; proto_http#4854 = Protocol;
// cap_list_nil$0 = SmcCapList; cap_list_next$1 head:SmcCapability tail:SmcCapList = SmcCapList;
// cap_method_seqno#5371 cap_method_pubkey#71f4 cap_is_wallet#2177 cap_name#ff name:Text = SmcCapability;
func dnsRecordSeed(c *core.Ctx) *ref.RCell {
	addr := func() *tlbref.B { // addr_std$10 anycast:(Maybe Anycast) workchain_id:int8 address:bits256
		return b().U(2, 2).Bit(false).I(int64(int8(c.U64("dns.wc"))), 8).Bytes(c.Content("dns.addr", 32))
	}
	switch c.Weighted("dns.kind", 2, 1, 2, 3, 1) {
	case 1:
		return b().U(0xba93, 16).Slice(addr().Cell()).Cell()
	case 2:
		x := b().U(0xad01, 16).Bytes(c.Content("dns.adnl", 32))
		if n := c.Range("dns.protos", -1, 3); n >= 0 {
			x.U(1, 8)
			for i := 0; i < n; i++ {
				x.Bit(true).U(0x4854, 16)
			}
			x.Bit(false)
		} else {
			x.U(0, 8)
		}
		return x.Cell()
	case 3:
		x := b().U(0x9fd3, 16).Slice(addr().Cell())
		n := c.Range("dns.caps", -1, 4)
		if n < 0 {
			return x.U(0, 8).Cell()
		}
		x.U(1, 8)
		for i := 0; i < n; i++ {
			x.Bit(true)
			switch c.Choose("dns.cap", 4) {
			case 0:
				x.U(0x5371, 16)
			case 1:
				x.U(0x71f4, 16)
			case 2:
				x.U(0x2177, 16)
			case 3:
				t := dnsTextSeed(c)
				if len(x.Bits)+8+len(t.Bits)+1 > 1000 || len(x.Refs)+len(t.Refs) > 4 {
					x.U(0x2177, 16)
				} else {
					x.U(0xff, 8).Slice(t.Cell())
				}
			}
		}
		return x.Bit(false).Cell()
	case 4:
		return b().U(0x7473, 16).Bytes(c.Content("dns.bag", 32)).Cell()
	}
	return b().U(0x1eda, 16).Slice(dnsTextSeed(c).Cell()).Cell()
}

// ext_blk_ref$_ end_lt:uint64 seq_no:uint32 root_hash:bits256 file_hash:bits256 = ExtBlkRef;
func extBlkRefSeed(c *core.Ctx) *tlbref.B {
	return b().U(c.U64("ref.lt"), 64).U(uint64(c.Intn("ref.seqno", 1<<20)), 32).Bytes(c.Content("ref.root", 32)).Bytes(c.Content("ref.file", 32))
}

// prev_blk_info$_ prev:ExtBlkRef = BlkPrevInfo 0;  prev_blks_info$_ prev1:^ExtBlkRef prev2:^ExtBlkRef = BlkPrevInfo 1;
func blkPrevInfoSeed(c *core.Ctx, merge bool) *ref.RCell {
	if !merge {
		return extBlkRefSeed(c).Cell()
	}
	return b().Ref(extBlkRefSeed(c).Cell()).Ref(extBlkRefSeed(c).Cell()).Cell()
}

// block_info#9bc7a987 version:uint32 not_master:(## 1) after_merge:(## 1) before_split:(## 1) after_split:(## 1)
//
//	want_split:Bool want_merge:Bool key_block:Bool vert_seqno_incr:(## 1) flags:(## 8) { flags <= 1 }
//	seq_no:# vert_seq_no:# shard:ShardIdent gen_utime:uint32 start_lt:uint64 end_lt:uint64
//	gen_validator_list_hash_short:uint32 gen_catchain_seqno:uint32 min_ref_mc_seqno:uint32
//	prev_key_block_seqno:uint32 gen_software:flags . 0?GlobalVersion master_ref:not_master?^BlkMasterInfo
//	prev_ref:^(BlkPrevInfo after_merge) prev_vert_ref:vert_seqno_incr?^(BlkPrevInfo 0) = BlockInfo;
//
// shard_ident$00 shard_pfx_bits:(#<= 60) workchain_id:int32 shard_prefix:uint64 = ShardIdent;
// capabilities#c4 version:uint32 capabilities:uint64 = GlobalVersion;  master_info$_ master:ExtBlkRef = BlkMasterInfo;
func blockInfoSeed(c *core.Ctx) *ref.RCell {
	notMaster, afterMerge, vertIncr, software := c.Bool("bi.notmaster"), c.Bool("bi.aftermerge"), c.Bool("bi.vertincr"), c.Bool("bi.software")
	x := b().U(0x9bc7a987, 32).U(uint64(c.Intn("bi.version", 10)), 32).Bit(notMaster).Bit(afterMerge)
	for i := 0; i < 5; i++ { // before_split after_split want_split want_merge key_block
		x.Bit(c.Bool("bi.flag"))
	}
	x.Bit(vertIncr)
	if software {
		x.U(1, 8)
	} else {
		x.U(0, 8)
	}
	x.U(uint64(c.Intn("bi.seqno", 1<<24)), 32)
	if vertIncr {
		x.U(1, 32)
	} else {
		x.U(0, 32)
	}
	x.U(0, 2).U(uint64(c.Intn("bi.pfx", 61)), 6).I(int64(c.Intn("bi.wc", 2))-1, 32).U(c.U64("bi.shard"), 64)
	x.U(uint64(c.Intn("bi.utime", 1<<31)), 32).U(c.U64("bi.startlt"), 64).U(c.U64("bi.endlt"), 64)
	for i := 0; i < 4; i++ {
		x.U(uint64(c.Intn("bi.u32", 1<<31)), 32)
	}
	if software {
		x.U(0xc4, 8).U(uint64(c.Intn("bi.swver", 100)), 32).U(c.U64("bi.caps"), 64)
	}
	if notMaster {
		x.Ref(extBlkRefSeed(c).Cell())
	}
	x.Ref(blkPrevInfoSeed(c, afterMerge))
	if vertIncr {
		x.Ref(blkPrevInfoSeed(c, false))
	}
	return x.Cell()
}

// handSeed returns a reference-built or donor encoding for t, nil when there is none.
func handSeed(c *core.Ctx, t reflect.Type) *ref.RCell {
	if d, ok := sweepDonors[t]; ok {
		return sweepValue(c, d)
	}
	var x *tlbref.B
	switch t {
	case tAbiW5Actions:
		// out_list_empty$_ = OutList 0;  out_list$_ {n:#} prev:^(OutList n) action:OutAction = OutList (n + 1);
		// action_send_msg#0ec3c86d mode:(## 8) out_msg:^(MessageRelaxed Any) = OutAction;
		cur := b().Cell()
		for i, n := 0, c.Range("w5.n", 0, 3); i < n; i++ {
			msg := sweepValue(c, reflect.TypeOf(abi.MessageRelaxed{}))
			if msg == nil {
				msg = b().U(0, 2).Cell()
			}
			cur = b().Ref(cur).U(0x0ec3c86d, 32).U(uint64(c.Intn("w5.mode", 256)), 8).Ref(msg).Cell()
		}
		return cur
	case tBlockInfo:
		return blockInfoSeed(c)
	case tBinTreeU8:
		return binTreeSeed(c, 3)
	case tShardInfoBinTree:
		return binTreeOf(c, reflect.TypeOf(tlb.ShardDesc{}), 3)
	case tExtOutMsgBody:
		// a 32-bit opcode, then the record of that opcode
		opOnce.Do(loadOpCodes)
		names := sortedKeys(abi.KnownMsgExtOutTypes)
		if len(names) == 0 {
			return nil
		}
		bt := reflect.TypeOf(abi.KnownMsgExtOutTypes[names[c.Choose("extout.op", len(names))]])
		op, ok := msgOpCodes[strings.TrimSuffix(bt.Name(), "MsgBody")+"MsgOpCode"]
		body := sweepValue(c, bt)
		if !ok || body == nil || body.Special {
			return nil
		}
		x = b().U(uint64(op), 32).Slice(body)
	case tHashmapAugU8:
		return hashmapAugSeed(c)
	case tHashmapAugE:
		return hashmapAugESeed(c)
	case tVmStkTuple:
		x = vmStkTupleSeed(c, 2)
	case tVmStackValue:
		x = b().U(7, 8).Slice(vmStkTupleSeed(c, 2).Cell())
	case tVmStack:
		return vmStackSeed(c)
	case tVmTuple:
		x = vmTupleSeed(c, c.Range("vm.tuple.len", 1, 4), 1)
	case tVmTupleRef:
		x = vmTupleRefSeed(c, c.Range("vm.tupref.len", 1, 4), 1)
	case tChunkedData:
		x = chunkedDataSeed(c)
	case tContentData: // onchain#00 / offchain#01 ... : the chunked form follows the snake tag in FullContent; here the bare list
		if y := chunkedDataSeed(c); y != nil {
			x = b().U(1, 8).Slice(y.Cell())
		}
	case tDNSText:
		x = dnsTextSeed(c)
	case tDNSRecord:
		return dnsRecordSeed(c)
	case tDNSRecordSet:
		n := c.Range("dns.n", 1, 3)
		var es []ref.DictEntry
		for i := 0; i < n; i++ {
			es = append(es, ref.DictEntry{Key: ref.Bits{}.AppendBytes(c.Content("dns.key", 32)), Value: ref.DictValue{Refs: []*ref.RCell{dnsRecordSeed(c)}}})
		}
		root, err := ref.EncodeHashmap(es, 256, nil)
		if err != nil {
			return nil
		}
		return root
	}
	if x == nil || !x.Fits() {
		return nil
	}
	return x.Cell()
}

// hasHandSeed tells the enumeration which types get the extra value numbers.
func hasHandSeed(t reflect.Type) bool {
	if _, ok := sweepDonors[t]; ok {
		return true
	}
	switch t {
	case tBlockInfo, tAbiW5Actions, tShardInfoBinTree, tExtOutMsgBody, tBinTreeU8, tHashmapAugU8, tHashmapAugE, tVmStkTuple, tVmStackValue, tVmStack, tVmTuple, tVmTupleRef, tChunkedData, tContentData, tDNSText, tDNSRecord, tDNSRecordSet:
		return true
	}
	return false
}

// ---- generator hook for the abi unions

var (
	sweepHookOn bool
	opOnce      sync.Once
	msgOpCodes  map[string]uint32 // "<X>MsgOpCode" -> value, read from the generated source of the tree
)

func loadOpCodes() {
	msgOpCodes = map[string]uint32{}
	data, err := os.ReadFile(netRepo() + "/abi/messages_generated.go")
	if err != nil {
		return
	}
	re := regexp.MustCompile(`(?m)^\s*(\w+MsgOpCode)\s+MsgOpCode\s*=\s*0x([0-9a-fA-F]{1,8})\s*$`)
	for _, m := range re.FindAllStringSubmatch(string(data), -1) {
		if v, err := strconv.ParseUint(m[2], 16, 32); err == nil {
			msgOpCodes[m[1]] = uint32(v)
		}
	}
}

func sortedKeys(m map[string]any) []string {
	var out []string
	for k := range m {
		out = append(out, k)
	}
	sort.Strings(out)
	return out
}

func fillUnion(g *tlbgen.G, v reflect.Value, label string, known map[string]any, opOf func(name string, body reflect.Type) (uint32, bool), depth int) (bool, error) {
	names := sortedKeys(known)
	if len(names) == 0 {
		return false, nil
	}
	k := g.C.Choose(label, len(names)+1)
	if k == len(names) || depth <= 0 {
		return true, nil // the empty alternative: nothing is written
	}
	name := names[k]
	bt := reflect.TypeOf(known[name])
	op, ok := opOf(name, bt)
	if !ok {
		return true, nil
	}
	body := reflect.New(bt).Elem()
	if err := g.Fill(body, "", depth-1); err != nil {
		return true, err
	}
	v.FieldByName("SumType").SetString(name)
	v.FieldByName("OpCode").Set(reflect.ValueOf(&op))
	v.FieldByName("Value").Set(reflect.ValueOf(body.Interface()))
	return true, nil
}

func init() {
	tlbgen.Hook = func(g *tlbgen.G, v reflect.Value, name string, depth int) (bool, error) {
		if !sweepHookOn {
			return false, nil
		}
		switch v.Type() {
		case tJettonPayload:
			return fillUnion(g, v, "jetton.op", abi.KnownJettonTypes, func(n string, _ reflect.Type) (uint32, bool) {
				op, ok := abi.JettonOpCodes[n]
				return op, ok
			}, depth)
		case tNFTPayload:
			return fillUnion(g, v, "nft.op", abi.KnownNFTTypes, func(n string, _ reflect.Type) (uint32, bool) {
				op, ok := abi.NFTOpCodes[n]
				return op, ok
			}, depth)
		case tInMsgBody:
			opOnce.Do(loadOpCodes)
			return fillUnion(g, v, "msg.op", abi.KnownMsgInTypes, func(_ string, bt reflect.Type) (uint32, bool) {
				op, ok := msgOpCodes[strings.TrimSuffix(bt.Name(), "MsgBody")+"MsgOpCode"]
				return op, ok
			}, depth)
		}
		return false, nil
	}
}
