package c05

import (
	"fmt"
	"testing"

	"github.com/tonkeeper/tongo/boc"
	"github.com/tonkeeper/tongo/tlb"

	"verifharness/internal/core"
	"verifharness/internal/ref"
)

// c05/aug: augmented dictionaries (HashmapAug / HashmapAugE) are decode-only in the library. Valid ones,
// written by the reference encoder with drawn label forms, must decode to the mapping they represent. The
// cells reach the decoder through a bag of cells, so equal subtrees are one shared cell object.
var augCheck = &core.Check{Name: "c05/aug", Quick: 1500, Thorough: 120000, Fn: func(c *core.Ctx) error {
	n := 16
	wide := c.Bool("wide")
	if wide {
		n = 256
	}
	cells, data, model, rootHash, err := buildAug(c, n)
	if err != nil {
		return err
	}
	c.NonTrivial(rootHash)
	keys := make([]struct{}, len(model))
	var gotKeys []ref.Bits
	var gotVals []uint32
	if wide {
		var h tlb.HashmapAugE[tlb.Bits256, tlb.Uint32, tlb.Uint8]
		if err := tlb.Unmarshal(cells[0], &h); err != nil {
			return fmt.Errorf("a valid HashmapAugE 256 with %d entries does not decode: %v\nBOC %x", len(keys), err, data)
		}
		for i, k := range h.Keys() {
			gotKeys = append(gotKeys, ref.BitsFromBytes(k[:], 256))
			gotVals = append(gotVals, uint32(h.Values()[i]))
		}
		// the entry counter of block message descriptors walks the same tree without decoding the values
		for _, out := range []bool{false, true} {
			fresh, err := boc.DeserializeBoc(data)
			if err != nil {
				return fmt.Errorf("HARNESS: %v", err)
			}
			var extra tlb.BlockExtra
			var cnt int
			if out {
				extra.OutMsgDescrCell = *fresh[0]
				cnt, err = extra.OutMsgDescrLength()
			} else {
				extra.InMsgDescrCell = *fresh[0]
				cnt, err = extra.InMsgDescrLength()
			}
			if err != nil || cnt != len(model) {
				return fmt.Errorf("BlockExtra message-descriptor length (out=%v) of a valid HashmapAugE 256 = %d, %v; the dictionary holds %d entries\nBOC %x", out, cnt, err, len(model), data)
			}
		}
		c.Class("entry counter compared")
	} else {
		var h tlb.HashmapAugE[tlb.Uint16, tlb.Uint32, tlb.Uint8]
		if err := tlb.NewDecoder().Unmarshal(cells[0], &h); err != nil {
			return fmt.Errorf("a valid HashmapAugE 16 with %d entries does not decode: %v\nBOC %x", len(keys), err, data)
		}
		for i, k := range h.Keys() {
			gotKeys = append(gotKeys, ref.Bits{}.AppendUint(uint64(k), 16))
			gotVals = append(gotVals, uint32(h.Values()[i]))
		}
	}
	want := modelSortedPlain(model)
	if len(gotKeys) != len(want) {
		return fmt.Errorf("decoded %d entries, the dictionary holds %d\nBOC %x", len(gotKeys), len(want), data)
	}
	for i := range want {
		if !gotKeys[i].Equal(want[i].Key) || uint64(gotVals[i]) != want[i].Value.Bits.Uint(0, 32) {
			return fmt.Errorf("entry %d decodes as %s -> %d, the dictionary holds %s -> %d", i, gotKeys[i], gotVals[i], want[i].Key, want[i].Value.Bits.Uint(0, 32))
		}
	}
	return nil
}}

// buildAug draws a key set of n-bit keys with 32-bit values and 8-bit extras, writes it as a HashmapAugE with the
// reference encoder (drawn label forms or canonical) and parses the bag of cells with the library.
func buildAug(c *core.Ctx, n int) (cells []*boc.Cell, data []byte, model map[string]uint32, rootHash []byte, err error) {
	keys := drawKeys(c, n, core.Scale(16, 48), nil)
	if len(keys) == 0 {
		keys = []ref.Bits{make(ref.Bits, n)}
	}
	equalValues := c.Intn("equalvalues", 3) == 0 // equal leaves under one fork are one cell after parsing
	if equalValues {
		c.Class("all values equal")
	}
	model = map[string]uint32{}
	var entries []ref.DictEntry
	for _, k := range keys {
		v := uint32(c.U64("val"))
		if equalValues {
			v = 7
		}
		model[k.String()] = v
		entries = append(entries, ref.DictEntry{Key: k, Value: ref.DictValue{Bits: ref.Bits{}.AppendUint(uint64(v), 32)}})
	}
	leafExtra := func(e ref.DictEntry) ref.Bits { return ref.Bits{}.AppendUint(e.Value.Bits.Uint(0, 32)&0xff, 8) }
	if equalValues {
		leafExtra = func(ref.DictEntry) ref.Bits { return ref.Bits{}.AppendUint(1, 8) }
	}
	forkExtra := func(l, r ref.Bits) ref.Bits { return ref.Bits{}.AppendUint((l.Uint(0, 8)+r.Uint(0, 8))&0xff, 8) }
	if equalValues {
		forkExtra = func(l, r ref.Bits) ref.Bits { return ref.Bits{}.AppendUint(1, 8) } // keeps equal subtrees equal
	}
	var choose func(ref.Bits, int, []int) int
	if c.Bool("forms") {
		choose = func(s ref.Bits, m int, forms []int) int { return forms[c.Choose("form", len(forms))] }
	}
	root, rootExtra, err := ref.EncodeHashmapAug(entries, n, leafExtra, forkExtra, choose)
	if err != nil {
		return nil, nil, nil, rootHash, fmt.Errorf("HARNESS: %v", err)
	}
	// HashmapAugE: ahme_root$1 root:^(HashmapAug n X Y) extra:Y
	top := ref.NewRCell(append(ref.Bits{true}, rootExtra...), false, root)
	data = ref.SerializeBOC([]*ref.RCell{top}, ref.BocVariant{})
	cells, err = boc.DeserializeBoc(data)
	if err != nil {
		return nil, nil, nil, rootHash, fmt.Errorf("HARNESS: %v", err)
	}
	c.Note("keys", len(keys))
	c.Note("key_bits", n)
	return cells, data, model, root.ReprHash(), nil
}

func modelSortedPlain(model map[string]uint32) []ref.DictEntry {
	old := refValues
	refValues = false
	defer func() { refValues = old }()
	return modelSorted(model)
}

func TestAug(t *testing.T) { core.Run(t, augCheck) }

// c05/inline: a plain (Hashmap n X) stored inline shares its root cell with the fields around it: the root's
// label and, at a fork, its two branches lie in the enclosing cell between other bits and references.
type inlineHolder struct {
	Before tlb.Uint8
	P      tlb.Ref[tlb.Uint32]
	D      tlb.Hashmap[tlb.Uint16, tlb.Uint32]
	R      tlb.Ref[tlb.Uint32]
}

type inlineHolderTail struct {
	D     tlb.Hashmap[tlb.Uint16, tlb.Uint32]
	R     tlb.Ref[tlb.Uint32]
	After tlb.Uint8
}

var inlineCheck = &core.Check{Name: "c05/inline", Quick: 1000, Thorough: 80000, Fn: func(c *core.Ctx) error {
	keys := drawKeys(c, 16, 24, nil)
	if len(keys) == 0 {
		keys = []ref.Bits{make(ref.Bits, 16)}
	}
	model := map[string]uint32{}
	var entries []ref.DictEntry
	for _, k := range keys {
		v := uint32(c.U64("val"))
		model[k.String()] = v
		entries = append(entries, ref.DictEntry{Key: k, Value: ref.DictValue{Bits: ref.Bits{}.AppendUint(uint64(v), 32)}})
	}
	var choose func(ref.Bits, int, []int) int
	if c.Bool("forms") {
		choose = func(s ref.Bits, m int, forms []int) int { return forms[c.Choose("form", len(forms))] }
	}
	root, err := ref.EncodeHashmap(entries, 16, choose)
	if err != nil {
		return fmt.Errorf("HARNESS: %v", err)
	}
	before, after, p, r := uint8(c.U64("before")), uint8(c.U64("after")), uint32(c.U64("p")), uint32(c.U64("r"))
	leaf := func(v uint32) *ref.RCell { return ref.NewRCell(ref.Bits{}.AppendUint(uint64(v), 32), false) }
	withHead := c.Bool("head")
	var outer *ref.RCell
	if withHead {
		bits := append(ref.Bits{}.AppendUint(uint64(before), 8), root.Bits()...)
		outer = ref.NewRCell(bits, false, append(append([]*ref.RCell{leaf(p)}, root.Refs...), leaf(r))...)
	} else {
		bits := append(root.Bits().Clone(), ref.Bits{}.AppendUint(uint64(after), 8)...)
		outer = ref.NewRCell(bits, false, append(append([]*ref.RCell{}, root.Refs...), leaf(r))...)
	}
	if outer.BitLen > 1023 || len(outer.Refs) > 4 {
		c.Class("does not fit")
		return nil
	}
	if len(keys) >= 2 {
		c.NonTrivial(outer.ReprHash())
		c.Class("root fork shares its cell with other references")
	}
	cells, err := boc.DeserializeBoc(ref.SerializeBOC([]*ref.RCell{outer}, ref.BocVariant{}))
	if err != nil {
		return fmt.Errorf("HARNESS: %v", err)
	}
	var gotKeys []tlb.Uint16
	var gotVals []tlb.Uint32
	var again func(*boc.Cell) error
	if withHead {
		var h inlineHolder
		if err := tlb.Unmarshal(cells[0], &h); err != nil {
			return fmt.Errorf("a cell holding uint8, ^uint32, an inline Hashmap 16 with %d entries and ^uint32 does not decode: %v\ncell %s", len(keys), err, outer.Bits().FiftHex())
		}
		if uint8(h.Before) != before || uint32(h.P.Value) != p || uint32(h.R.Value) != r {
			return fmt.Errorf("fields around an inline Hashmap decode as %d, ^%d, ^%d; the cell holds %d, ^%d, ^%d", h.Before, h.P.Value, h.R.Value, before, p, r)
		}
		gotKeys, gotVals = h.D.Keys(), h.D.Values()
		again = func(cell *boc.Cell) error { return tlb.Unmarshal(cell, &h) }
	} else {
		var h inlineHolderTail
		if err := tlb.Unmarshal(cells[0], &h); err != nil {
			return fmt.Errorf("a cell holding an inline Hashmap 16 with %d entries, ^uint32 and uint8 does not decode: %v\ncell %s", len(keys), err, outer.Bits().FiftHex())
		}
		if uint8(h.After) != after || uint32(h.R.Value) != r {
			return fmt.Errorf("fields after an inline Hashmap decode as ^%d, %d; the cell holds ^%d, %d", h.R.Value, h.After, r, after)
		}
		gotKeys, gotVals = h.D.Keys(), h.D.Values()
		again = func(cell *boc.Cell) error { return tlb.Unmarshal(cell, &h) }
	}
	want := modelSortedPlain(model)
	if len(gotKeys) != len(want) {
		return fmt.Errorf("inline Hashmap decodes to %d entries, it holds %d", len(gotKeys), len(want))
	}
	for i := range want {
		if uint64(gotKeys[i]) != want[i].Key.Uint(0, 16) || uint64(gotVals[i]) != want[i].Value.Bits.Uint(0, 32) {
			return fmt.Errorf("inline Hashmap entry %d decodes as %d -> %d, it holds %d -> %d", i, gotKeys[i], gotVals[i], want[i].Key.Uint(0, 16), want[i].Value.Bits.Uint(0, 32))
		}
	}
	// the pairs a caller took from a decoded dictionary stay what was decoded, also when the same variable is
	// the destination of another decode afterwards (whatever that second decode leaves in the variable)
	if c.Bool("kept") {
		other := boc.NewCell()
		n2 := 1 + c.Intn("kept.n", 4)
		ks, vs := make([]tlb.Uint16, n2), make([]tlb.Uint32, n2)
		for i := range ks {
			ks[i], vs[i] = tlb.Uint16(0xff00+i), tlb.Uint32(0xdead0000+i)
		}
		var second inlineHolderTail
		second.D = tlb.NewHashmap(ks, vs)
		if withHead {
			if err := tlb.Marshal(other, inlineHolder{D: second.D}); err != nil {
				return fmt.Errorf("HARNESS: %v", err)
			}
		} else if err := tlb.Marshal(other, second); err != nil {
			return fmt.Errorf("HARNESS: %v", err)
		}
		_ = again(other) // judged elsewhere; here only what it does to the earlier result
		for i := range want {
			if uint64(gotKeys[i]) != want[i].Key.Uint(0, 16) || uint64(gotVals[i]) != want[i].Value.Bits.Uint(0, 32) {
				return fmt.Errorf("the pairs taken from a decoded dictionary changed when the variable was decoded into again: entry %d is now %d -> %d, it was decoded as %d -> %d", i, gotKeys[i], gotVals[i], want[i].Key.Uint(0, 16), want[i].Value.Bits.Uint(0, 32))
			}
		}
		c.Class("kept pairs checked after a second decode into the variable")
	}
	return nil
}}

func TestInline(t *testing.T) { core.Run(t, inlineCheck) }
