// C05 — dictionaries (Hashmap/HashmapE) preserve their key->value mapping (reference dictionary codec R4).
package c05

import (
	"bytes"
	"fmt"
	"sort"
	"testing"

	"github.com/tonkeeper/tongo/boc"
	"github.com/tonkeeper/tongo/tlb"

	"verifharness/internal/core"
	"verifharness/internal/gen"
	"verifharness/internal/ref"
)

func TestMain(m *testing.M) { core.Main(m, "C05") }

type keyT interface {
	comparable
	FixedSize() int
	Equal(other any) bool
	Compare(other any) (int, bool)
}

type keyKind struct {
	name string
	bits int
	new  func() dict
}

// dict is a HashmapE[K, Uint32] seen through key bits.
type dict interface {
	Put(k ref.Bits, v uint32)
	Get(k ref.Bits) (uint32, bool)
	Items() ([]ref.Bits, []uint32)
	Lists() (keys, values, items int)
	Marshal() (*boc.Cell, error)
	Unmarshal(c *boc.Cell) error
	UnmarshalUsed(c *boc.Cell) error // decodes into the dictionary value as it is, without starting from a fresh one
	Fresh() dict
	RefValues() bool
}

// gdict is a HashmapE[K, V] whose values carry one 32-bit number: V is tlb.Uint32 (value bits in the leaf)
// or tlb.Ref[tlb.Uint32] (value in a cell of its own behind a reference).
type gdict[K keyT, V any] struct {
	h        tlb.HashmapE[K, V]
	n        int
	fromBits func(ref.Bits) K
	toBits   func(K) ref.Bits
	toV      func(uint32) V
	fromV    func(V) uint32
	refVal   bool
}

func newDict[K keyT](n int, from func(ref.Bits) K, to func(K) ref.Bits) dict {
	return &gdict[K, tlb.Uint32]{n: n, fromBits: from, toBits: to,
		toV: func(v uint32) tlb.Uint32 { return tlb.Uint32(v) }, fromV: func(v tlb.Uint32) uint32 { return uint32(v) }}
}

func newRefDict[K keyT](n int, from func(ref.Bits) K, to func(K) ref.Bits) dict {
	return &gdict[K, tlb.Ref[tlb.Uint32]]{n: n, fromBits: from, toBits: to, refVal: true,
		toV:   func(v uint32) tlb.Ref[tlb.Uint32] { return tlb.Ref[tlb.Uint32]{Value: tlb.Uint32(v)} },
		fromV: func(v tlb.Ref[tlb.Uint32]) uint32 { return uint32(v.Value) }}
}

func (d *gdict[K, V]) Put(k ref.Bits, v uint32) { d.h.Put(d.fromBits(k), d.toV(v)) }
func (d *gdict[K, V]) Get(k ref.Bits) (uint32, bool) {
	v, ok := d.h.Get(d.fromBits(k))
	return d.fromV(v), ok
}
func (d *gdict[K, V]) Items() ([]ref.Bits, []uint32) {
	var ks []ref.Bits
	var vs []uint32
	for _, it := range d.h.Items() {
		ks = append(ks, d.toBits(it.Key))
		vs = append(vs, d.fromV(it.Value))
	}
	return ks, vs
}
func (d *gdict[K, V]) Lists() (int, int, int) {
	return len(d.h.Keys()), len(d.h.Values()), len(d.h.Items())
}
func (d *gdict[K, V]) Marshal() (*boc.Cell, error) {
	c := boc.NewCell()
	err := tlb.Marshal(c, d.h)
	return c, err
}
func (d *gdict[K, V]) Unmarshal(c *boc.Cell) error {
	var h tlb.HashmapE[K, V]
	if err := tlb.Unmarshal(c, &h); err != nil {
		return err
	}
	d.h = h
	return nil
}
func (d *gdict[K, V]) UnmarshalUsed(c *boc.Cell) error { return tlb.Unmarshal(c, &d.h) }
func (d *gdict[K, V]) Fresh() dict {
	return &gdict[K, V]{n: d.n, fromBits: d.fromBits, toBits: d.toBits, toV: d.toV, fromV: d.fromV, refVal: d.refVal}
}
func (d *gdict[K, V]) RefValues() bool { return d.refVal }

// ---------------------------------------------------------------------------------------------

func drawKeys(c *core.Ctx, n, maxKeys int, norm func(ref.Bits) ref.Bits) []ref.Bits {
	seen := map[string]bool{}
	var keys []ref.Bits
	add := func(k ref.Bits) {
		if norm != nil {
			k = norm(k.Clone())
		}
		if len(k) == n && !seen[k.String()] && len(keys) < maxKeys {
			seen[k.String()] = true
			keys = append(keys, k)
		}
	}
	constant := func(v bool) ref.Bits {
		k := make(ref.Bits, n)
		for i := range k {
			k[i] = v
		}
		return k
	}
	count := c.Range("nkeys", 0, maxKeys)
	shape := c.Choose("shape", 7)
	c.Class(fmt.Sprintf("key shape %d", shape))
	switch shape {
	case 0: // random keys
		for i := 0; i < count; i++ {
			add(ref.Bits(c.Bits("key", n)))
		}
	case 1: // min / max / single
		add(constant(false))
		if count > 1 {
			add(constant(true))
		}
		if count > 2 {
			k := constant(false)
			k[0] = true
			add(k) // most negative signed key / top bit
			k2 := constant(true)
			k2[0] = false
			add(k2) // largest positive signed key
		}
	case 2: // dense range around a drawn base
		base := ref.Bits(c.Bits("base", n))
		for i := 0; i < count; i++ {
			k := base.Clone()
			// add i in the low bits
			for b, v := n-1, i; b >= 0 && b > n-1-16; b-- {
				k[b] = base[b] != (v&1 == 1)
				v >>= 1
			}
			add(k)
		}
	case 3: // long common prefix, keys differ in the last bits only
		base := ref.Bits(c.Bits("base", n))
		for i := 0; i < count; i++ {
			k := base.Clone()
			for b := 0; b < 3 && b < n; b++ {
				k[n-1-b] = (i>>uint(b))&1 == 1
			}
			add(k)
		}
	case 4: // runs of equal bits of length >= 8 (same-bit labels), with one differing bit at a drawn position
		for i := 0; i < count; i++ {
			k := constant(c.Bool("run"))
			if n > 1 {
				p := c.Choose("flip", n)
				k[p] = !k[p]
			}
			add(k)
		}
	case 5: // common prefix lengths 6..9 (short/long label switch)
		base := ref.Bits(c.Bits("base", n))
		for i := 0; i < count; i++ {
			k := ref.Bits(c.Bits("key", n))
			pl := c.Range("prefix", 6, 9)
			for b := 0; b < pl && b < n; b++ {
				k[b] = base[b]
			}
			add(k)
		}
	case 6: // signed keys of both signs near zero
		for i := 0; i < count; i++ {
			v := int64(c.Range("small", -5, 5))
			if n >= 4 {
				add(ref.Bits{}.AppendInt(v, n))
			} else {
				add(ref.Bits(c.Bits("key", n)))
			}
		}
	}
	return keys
}

var refValues bool // set per case: values live behind a reference

func valueOf(v uint32) ref.DictValue {
	if refValues {
		return ref.DictValue{Refs: []*ref.RCell{ref.NewRCell(ref.Bits{}.AppendUint(uint64(v), 32), false)}}
	}
	return ref.DictValue{Bits: ref.Bits{}.AppendUint(uint64(v), 32)}
}

func numberOf(v ref.DictValue) (uint64, bool) {
	if refValues {
		if len(v.Bits) != 0 || len(v.Refs) != 1 || v.Refs[0].BitLen != 32 || len(v.Refs[0].Refs) != 0 {
			return 0, false
		}
		return v.Refs[0].Bits().Uint(0, 32), true
	}
	if len(v.Bits) != 32 || len(v.Refs) != 0 {
		return 0, false
	}
	return v.Bits.Uint(0, 32), true
}

func modelSorted(model map[string]uint32) []ref.DictEntry {
	var ks []string
	for k := range model {
		ks = append(ks, k)
	}
	sort.Strings(ks) // '0' < '1': ascending key-bit order
	var out []ref.DictEntry
	for _, k := range ks {
		b := make(ref.Bits, len(k))
		for i := range k {
			b[i] = k[i] == '1'
		}
		out = append(out, ref.DictEntry{Key: b, Value: valueOf(model[k])})
	}
	return out
}

func compareWithModel(d dict, model map[string]uint32, what string) error {
	ks, vs := d.Items()
	want := modelSorted(model)
	if len(ks) != len(want) {
		return fmt.Errorf("%s: %d entries, model has %d", what, len(ks), len(want))
	}
	a, b, it := d.Lists()
	if a != len(ks) || b != len(ks) || it != len(ks) {
		return fmt.Errorf("%s: Keys/Values/Items have %d/%d/%d elements", what, a, b, it)
	}
	for i := range want {
		if !ks[i].Equal(want[i].Key) {
			return fmt.Errorf("%s: entry %d has key %s, model (ascending key bits) has %s", what, i, ks[i], want[i].Key)
		}
		if wv, _ := numberOf(want[i].Value); uint64(vs[i]) != wv {
			return fmt.Errorf("%s: key %s -> %d, model %d", what, ks[i], vs[i], wv)
		}
	}
	return nil
}

// decodeWithRef images tongo's HashmapE encoding and decodes it with the reference decoder.
func decodeWithRef(cell *boc.Cell, n int) ([]ref.DictEntry, error) {
	r, err := gen.FromTongo(cell, 1<<20)
	if err != nil {
		return nil, err
	}
	b := r.Bits()
	if len(b) != 1 {
		return nil, fmt.Errorf("HashmapE field occupies %d bits, want 1", len(b))
	}
	if !b[0] {
		if len(r.Refs) != 0 {
			return nil, fmt.Errorf("empty HashmapE with %d refs", len(r.Refs))
		}
		return nil, nil
	}
	if len(r.Refs) != 1 {
		return nil, fmt.Errorf("non-empty HashmapE with %d refs", len(r.Refs))
	}
	return ref.DecodeHashmap(r.Refs[0], n)
}

var dictCheck = &core.Check{Name: "c05/dict", Quick: 3000, Thorough: 250000, Fn: func(c *core.Ctx) error {
	kind := keyKinds[c.Choose("keytype", len(keyKinds))]
	n := kind.bits
	c.Note("key_type", kind.name)
	maxKeys := core.Scale(24, 64)
	if c.Intn("big", 40) == 0 {
		maxKeys = core.Scale(300, 2000)
	}
	var norm func(ref.Bits) ref.Bits
	if kind.name == "AddressWithWorkchain" {
		// the Go type holds the workchain as int8: the 32-bit field of a representable key is a sign extension
		norm = func(k ref.Bits) ref.Bits {
			for i := 0; i < 24; i++ {
				k[i] = k[24]
			}
			return k
		}
	}
	keys := drawKeys(c, n, maxKeys, norm)
	model := map[string]uint32{}
	d := kind.new()
	refValues = d.RefValues()
	if refValues {
		c.Class("values behind a reference")
	}
	// insertion in drawn order, with updates of existing keys and lookups in between
	order := make([]int, len(keys))
	for i := range order {
		order[i] = i
	}
	sm := core.NewSplitMix(c.U64("perm"))
	for i := len(order) - 1; i > 0; i-- {
		j := sm.Intn(i + 1)
		order[i], order[j] = order[j], order[i]
	}
	equalValues := c.Intn("equalvalues", 5) == 0 // equal sibling leaves are one shared cell after parsing
	if equalValues {
		c.Class("all values equal")
	}
	for step, i := range order {
		v := uint32(c.U64("val"))
		if equalValues {
			v = 42
		}
		d.Put(keys[i], v)
		model[keys[i].String()] = v
		if step%3 == 2 { // update an existing key
			j := order[sm.Intn(step+1)]
			v2 := uint32(sm.Next())
			if equalValues {
				v2 = 42
			}
			d.Put(keys[j], v2)
			model[keys[j].String()] = v2
		}
	}
	for _, k := range keys {
		got, ok := d.Get(k)
		if !ok || got != model[k.String()] {
			return fmt.Errorf("%s: Get(%s) = %d,%v, model %d", kind.name, k, got, ok, model[k.String()])
		}
	}
	absent := ref.Bits(c.Bits("absent", n))
	if norm != nil {
		absent = norm(absent)
	}
	if _, in := model[absent.String()]; !in {
		if _, ok := d.Get(absent); ok {
			return fmt.Errorf("%s: Get of an absent key %s succeeded", kind.name, absent)
		}
	}
	if err := compareWithModel(d, model, kind.name+" after Put"); err != nil {
		// Put keeps keys in Compare order; ascending key-bit order is promised for decoded dictionaries,
		// so only the set is compared here
		ks, vs := d.Items()
		if len(ks) != len(model) {
			return err
		}
		for i, k := range ks {
			if mv, ok := model[k.String()]; !ok || mv != vs[i] {
				return err
			}
		}
	}
	ks0, vs0 := d.Items()
	cell, err := d.Marshal()
	if err != nil {
		return fmt.Errorf("%s with %d keys: Marshal: %v", kind.name, len(model), err)
	}
	h1 := cellHash(cell)
	// encoding does not change the dictionary it encodes: lookups and listings still agree with the model
	// and a second encoding gives the same cell
	if ks1, vs1 := d.Items(); len(ks1) != len(ks0) {
		return fmt.Errorf("%s: the dictionary lists %d entries after it was encoded, %d before", kind.name, len(ks1), len(ks0))
	} else {
		for i := range ks0 {
			if !ks0[i].Equal(ks1[i]) || vs0[i] != vs1[i] {
				return fmt.Errorf("%s: entry %d of the dictionary is %s -> %d after it was encoded, %s -> %d before", kind.name, i, ks1[i], vs1[i], ks0[i], vs0[i])
			}
		}
	}
	for k, v := range model {
		if got, ok := d.Get(bitsFromString(k)); !ok || got != v {
			return fmt.Errorf("%s: Get(%s) after the dictionary was encoded = %d,%v; model %d", kind.name, k, got, ok, v)
		}
	}
	if cell2, err := d.Marshal(); err != nil || cellHash(cell2) != h1 {
		return fmt.Errorf("%s with %d keys: a second Marshal of the same dictionary gives another cell (%v)", kind.name, len(model), err)
	}
	// (a) tongo decodes its own encoding: same pairs, ascending key-bit order
	back := d.Fresh()
	cell.ResetCounters()
	if err := back.Unmarshal(cell); err != nil {
		return fmt.Errorf("%s with %d keys: own encoding does not decode: %v", kind.name, len(model), err)
	}
	if err := compareWithModel(back, model, kind.name+" decoded from own encoding"); err != nil {
		return err
	}
	// a dictionary variable that already holds entries is used as the destination of another decode: first the
	// empty dictionary (hme_empty$0), then the original again
	if len(model) > 0 {
		empty := boc.NewCell()
		empty.WriteBit(false)
		if err := back.UnmarshalUsed(empty); err != nil {
			return fmt.Errorf("%s: the empty dictionary does not decode into a used variable: %v", kind.name, err)
		}
		if err := compareWithModel(back, map[string]uint32{}, kind.name+" after decoding the empty dictionary into a variable that held "+fmt.Sprint(len(model))+" entries"); err != nil {
			return err
		}
		cell.ResetCounters()
		if err := back.UnmarshalUsed(cell); err != nil {
			return fmt.Errorf("%s: own encoding does not decode into a used variable: %v", kind.name, err)
		}
		if err := compareWithModel(back, model, kind.name+" decoded into a used variable"); err != nil {
			return err
		}
		cell.ResetCounters()
		c.Class("decoded into a used variable")
	}
	// (b) the reference decoder reads tongo's encoding
	got, err := decodeWithRef(cell, n)
	if err != nil {
		return fmt.Errorf("%s with %d keys: reference decoder rejects tongo's encoding: %v", kind.name, len(model), err)
	}
	want := modelSorted(model)
	if len(got) != len(want) {
		return fmt.Errorf("%s: reference decoder reads %d entries from tongo's encoding, model has %d", kind.name, len(got), len(want))
	}
	for i := range want {
		gv, okv := numberOf(got[i].Value)
		wv, _ := numberOf(want[i].Value)
		if !got[i].Key.Equal(want[i].Key) || !okv || gv != wv {
			return fmt.Errorf("%s: reference decoder reads entry %d as %s -> %d (well-formed value: %v), model %s -> %d", kind.name, i, got[i].Key, gv, okv, want[i].Key, wv)
		}
	}
	// (c) insertion order does not matter
	for _, ord := range [][]ref.DictEntry{want, reversed(want), permuted(want, sm)} {
		d2 := kind.new()
		for _, e := range ord {
			ev, _ := numberOf(e.Value)
			d2.Put(e.Key, uint32(ev))
		}
		c2, err := d2.Marshal()
		if err != nil {
			return fmt.Errorf("%s with %d keys inserted in another order: Marshal: %v", kind.name, len(ord), err)
		}
		if h2 := cellHash(c2); h2 != h1 {
			return fmt.Errorf("%s with %d keys: encoding depends on insertion order (%s vs %s)", kind.name, len(model), h1, h2)
		}
	}
	// (d) foreign encodings with drawn label forms decode to the model, and Get/Put work on the result
	if len(want) > 0 {
		usedForms := map[int]bool{}
		choose := func(s ref.Bits, m int, forms []int) int {
			f := forms[c.Choose("form", len(forms))]
			usedForms[f] = true
			return f
		}
		if c.Intn("canonical", 4) == 0 {
			choose = nil
		}
		bitsE, refsE, err := ref.EncodeHashmapE(want, n, choose)
		if err != nil {
			return fmt.Errorf("HARNESS: reference encoder: %v", err)
		}
		data := ref.SerializeBOC([]*ref.RCell{ref.NewRCell(bitsE, false, refsE...)}, ref.BocVariant{})
		cells, err := boc.DeserializeBoc(data)
		if err != nil {
			return fmt.Errorf("HARNESS: %v", err)
		}
		f := d.Fresh()
		if err := f.Unmarshal(cells[0]); err != nil {
			return fmt.Errorf("%s with %d keys: a valid dictionary written by another implementation (label forms %v) does not decode: %v\nBOC %x", kind.name, len(want), usedForms, err, data)
		}
		if err := compareWithModel(f, model, kind.name+" decoded from a foreign encoding"); err != nil {
			return fmt.Errorf("%v\nBOC %x", err, data)
		}
		for _, k := range keys {
			got, ok := f.Get(k)
			if !ok || got != model[k.String()] {
				return fmt.Errorf("%s: Get(%s) on a decoded foreign dictionary = %d,%v, model %d", kind.name, k, got, ok, model[k.String()])
			}
		}
		// update and insert on the decoded dictionary, then encode/decode again
		m2 := map[string]uint32{}
		for k, v := range model {
			m2[k] = v
		}
		nk := ref.Bits(c.Bits("newkey", n))
		if norm != nil {
			nk = norm(nk)
		}
		f.Put(nk, 7)
		m2[nk.String()] = 7
		f.Put(keys[0], 9)
		m2[keys[0].String()] = 9
		// lookups on the updated dictionary itself agree with the mapping (an insertion in the middle moves
		// every later pair)
		for _, k := range append(append([]ref.Bits{}, keys...), nk) {
			got, ok := f.Get(k)
			if !ok || got != m2[k.String()] {
				return fmt.Errorf("%s: Get(%s) = %d,%v after inserting %s into a decoded dictionary of %d keys and updating %s; the mapping has %d", kind.name, k, got, ok, nk, len(keys), keys[0], m2[k.String()])
			}
		}
		// (the order in which the updated dictionary lists its pairs before it is encoded again is not judged: Put
		// inserts by Compare, which is numeric for signed keys, while a decoded dictionary lists in key-bit order)
		c3, err := f.Marshal()
		if err != nil {
			return fmt.Errorf("%s: dictionary decoded from a foreign encoding and updated: Marshal: %v", kind.name, err)
		}
		f2 := d.Fresh()
		c3.ResetCounters()
		if err := f2.Unmarshal(c3); err != nil {
			return fmt.Errorf("%s: dictionary decoded from a foreign encoding, updated and re-encoded does not decode: %v", kind.name, err)
		}
		if err := compareWithModel(f2, m2, kind.name+" foreign+updates"); err != nil {
			return err
		}
		for f := range usedForms {
			c.Class([]string{"label short", "label long", "label same"}[f])
		}
	}
	// classes and non-triviality
	longLabel, both := false, false
	if len(want) >= 2 {
		neg, pos := false, false
		for _, e := range want {
			if e.Key[0] {
				neg = true
			} else {
				pos = true
			}
		}
		both = neg && pos
	}
	for i := 1; i < len(want); i++ {
		l := 0
		for l < n && want[i].Key[l] == want[i-1].Key[l] {
			l++
		}
		if l >= 8 {
			longLabel = true
		}
	}
	if n >= 9 && len(want) == 1 {
		longLabel = true
	}
	if len(want) >= 2 || longLabel || both {
		var kb bytes.Buffer
		for _, e := range want {
			kb.WriteString(e.Key.String())
			kb.WriteByte(',')
		}
		c.NonTrivial(kind.name, kb.String())
	}
	c.Note("keys", len(want))
	return nil
}}

func reversed(es []ref.DictEntry) []ref.DictEntry {
	out := make([]ref.DictEntry, len(es))
	for i := range es {
		out[len(es)-1-i] = es[i]
	}
	return out
}

func permuted(es []ref.DictEntry, sm *core.SplitMix) []ref.DictEntry {
	out := append([]ref.DictEntry{}, es...)
	for i := len(out) - 1; i > 0; i-- {
		j := sm.Intn(i + 1)
		out[i], out[j] = out[j], out[i]
	}
	return out
}

func cellHash(c *boc.Cell) string {
	r, err := gen.FromTongo(c, 1<<20)
	if err != nil {
		return "error " + err.Error()
	}
	return fmt.Sprintf("%x", r.ReprHash())
}

func pseudoTape(seed uint64, first ...uint64) []uint64 {
	sm := core.NewSplitMix(seed)
	tape := append([]uint64{}, first...)
	for i := 0; i < 900; i++ {
		tape = append(tape, sm.Next())
	}
	return tape
}

func TestProp(t *testing.T) { t.Run("dict", func(t *testing.T) { core.Run(t, dictCheck) }) }

func TestEnum(t *testing.T) {
	per := core.Scale(6, 150)
	core.RunEnum(t, dictCheck, fmt.Sprintf("every key type (%d: Uint1..64, Int1..64, Bits80..512, AddressWithWorkchain) x %d pseudo-random dictionaries", len(keyKinds), per), func(yield func(...uint64) bool) {
		for ki := range keyKinds {
			for k := 0; k < per; k++ {
				if !yield(pseudoTape(core.Seed()*104729+uint64(ki)*613+uint64(k), uint64(ki))...) {
					return
				}
			}
		}
	})
}

func TestReplay(t *testing.T) { core.Replay(t, dictCheck, augCheck, inlineCheck, subsetCheck, bigvalCheck, bigvalFixedCheck, augSignedCheck, nestedCheck, blockDescrCheck) }

func bitsFromString(s string) ref.Bits {
	b := make(ref.Bits, len(s))
	for i := range s {
		b[i] = s[i] == '1'
	}
	return b
}
