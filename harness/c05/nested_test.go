package c05

import (
	"fmt"
	"sort"
	"testing"

	"github.com/tonkeeper/tongo/boc"
	"github.com/tonkeeper/tongo/tlb"

	"verifharness/internal/core"
)

// c05/nested: dictionaries whose values are dictionaries of the same key width (a map of maps). The walk of
// the outer dictionary is interrupted by complete walks of inner ones; each must come out with its own keys.
// Keys of one dictionary share a long prefix (so the root edge has a label), the prefixes of outer and inner
// dictionaries differ; single-entry dictionaries included. Decoded with tlb.Unmarshal and with one Decoder
// used for the whole value (and a second time).
var nestedCheck = &core.Check{Name: "c05/nested", Quick: 600, Thorough: 60000, Fn: func(c *core.Ctx) error {
	type inner = tlb.HashmapE[tlb.Uint32, tlb.Uint32]
	type outer = tlb.HashmapE[tlb.Uint32, inner]
	drawKeys := func(label string, max int) []uint32 {
		base := uint32(c.U64(label + ".base"))
		spread := uint(c.OneOf(label+".spread", 2, 4, 8, 32))
		n := 1 + c.Intn(label+".n", max)
		set := map[uint32]bool{}
		for i := 0; i < n; i++ {
			k := base
			if spread < 32 {
				k = base&^(1<<spread-1) | uint32(c.U64(label+".low"))&(1<<spread-1)
			} else {
				k = uint32(c.U64(label + ".any"))
			}
			set[k] = true
		}
		var ks []uint32
		for k := range set {
			ks = append(ks, k)
		}
		sort.Slice(ks, func(i, j int) bool { return ks[i] < ks[j] })
		return ks
	}
	model := map[uint32]map[uint32]uint32{}
	var oks []tlb.Uint32
	var ovs []inner
	for _, ok := range drawKeys("outer", 6) {
		m := map[uint32]uint32{}
		var iks, ivs []tlb.Uint32
		if c.Intn("inner.empty", 6) != 0 {
			for _, ik := range drawKeys("inner", 5) {
				v := uint32(c.U64("val"))
				m[ik] = v
				iks, ivs = append(iks, tlb.Uint32(ik)), append(ivs, tlb.Uint32(v))
			}
		}
		model[ok] = m
		oks, ovs = append(oks, tlb.Uint32(ok)), append(ovs, tlb.NewHashmapE(iks, ivs))
	}
	cell := boc.NewCell()
	if err := tlb.Marshal(cell, tlb.NewHashmapE(oks, ovs)); err != nil {
		return fmt.Errorf("Marshal of a dictionary of %d dictionaries: %v", len(oks), err)
	}
	c.NonTrivial(fmt.Sprint(model))
	dec := tlb.NewDecoder()
	for round, how := range []string{"tlb.Unmarshal", "one Decoder", "the same Decoder again"} {
		var got outer
		cell.ResetCounters()
		var err error
		if round == 0 {
			err = tlb.Unmarshal(cell, &got)
		} else {
			err = dec.Unmarshal(cell, &got)
		}
		if err != nil {
			return fmt.Errorf("%s: a dictionary of %d dictionaries (32-bit keys both) does not decode: %v", how, len(oks), err)
		}
		items := got.Items()
		if len(items) != len(model) {
			return fmt.Errorf("%s: the outer dictionary decodes to %d pairs, it holds %d", how, len(items), len(model))
		}
		for i, it := range items {
			want, ok := model[uint32(it.Key)]
			if !ok || uint32(it.Key) != uint32(oks[i]) {
				return fmt.Errorf("%s: outer pair %d decodes with key %08x, the dictionary holds %08x there (outer keys %08x)", how, i, uint32(it.Key), uint32(oks[i]), oks)
			}
			in := it.Value.Items()
			if len(in) != len(want) {
				return fmt.Errorf("%s: the inner dictionary under %08x decodes to %d pairs, it holds %d", how, uint32(it.Key), len(in), len(want))
			}
			for _, p := range in {
				if v, ok := want[uint32(p.Key)]; !ok || v != uint32(p.Value) {
					return fmt.Errorf("%s: the inner dictionary under %08x decodes with the pair %08x -> %d, it holds %v", how, uint32(it.Key), uint32(p.Key), uint32(p.Value), want)
				}
			}
			if _, ok := got.Get(it.Key); !ok {
				return fmt.Errorf("%s: Get(%08x) on the decoded outer dictionary finds nothing", how, uint32(it.Key))
			}
		}
	}
	return nil
}}

func TestNested(t *testing.T) { core.Run(t, nestedCheck) }
