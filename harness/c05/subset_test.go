package c05

import (
	"fmt"
	"sort"
	"testing"

	"github.com/tonkeeper/tongo/boc"
	"github.com/tonkeeper/tongo/tlb"

	"verifharness/internal/core"
)

// c05/subset: the library's one dictionary-to-dictionary operation, ConfigParams.CloneKeepingSubsetOfKeys
// (tlb/proof.go). The result is a dictionary again: exactly the wanted pairs that exist, ascending, each once,
// it encodes, and the encoding decodes to those pairs - for wanted lists in any order, with ids that are
// missing and with ids named more than once. The original is left as it was.
var subsetCheck = &core.Check{Name: "c05/subset", Quick: 800, Thorough: 60000, Fn: func(c *core.Ctx) error {
	pool := []uint32{0, 1, 2, 7, 8, 15, 16, 17, 31, 32, 34, 71, 255, 256, 0x7fffffff, 0x80000000, 0xfffffffe, 0xffffffff}
	for i := 0; i < 6; i++ {
		pool = append(pool, uint32(c.U64("pool")))
	}
	model := map[uint32]uint64{}
	var params tlb.ConfigParams
	for i, n := 0, c.Intn("n", 14); i < n; i++ {
		k := pool[c.Choose("key", len(pool))]
		if _, dup := model[k]; dup {
			continue
		}
		v := c.U64("val")
		model[k] = v
		cell := boc.NewCell()
		_ = cell.WriteUint(v, 64)
		params.Config.Put(tlb.Uint32(k), tlb.Ref[boc.Cell]{Value: *cell})
	}
	var wanted []uint32
	repeated, missing := false, false
	seen := map[uint32]bool{}
	for i, n := 0, c.Intn("wanted", 12); i < n; i++ {
		k := pool[c.Choose("want", len(pool))]
		_, ok := model[k]
		repeated = repeated || (seen[k] && ok)
		missing = missing || !ok
		seen[k] = true
		wanted = append(wanted, k)
	}
	c.Note("ids", fmt.Sprint(model))
	c.Note("wanted", fmt.Sprint(wanted))
	var want []uint32
	for k := range seen {
		if _, ok := model[k]; ok {
			want = append(want, k)
		}
	}
	sort.Slice(want, func(i, j int) bool { return want[i] < want[j] })
	sub := params.CloneKeepingSubsetOfKeys(wanted)
	check := func(d tlb.Hashmap[tlb.Uint32, tlb.Ref[boc.Cell]], what string) error {
		items := d.Items()
		if len(items) != len(want) {
			return fmt.Errorf("%s lists %d pairs, the wanted ids %v select %d of %v", what, len(items), wanted, len(want), model)
		}
		for i, it := range items {
			v := it.Value.Value
			v.ResetCounters()
			got, err := v.ReadUint(64)
			if uint32(it.Key) != want[i] || err != nil || got != model[want[i]] {
				return fmt.Errorf("%s: pair %d is %d -> %x (%v), want %d -> %x", what, i, it.Key, got, err, want[i], model[want[i]])
			}
			if _, ok := d.Get(it.Key); !ok {
				return fmt.Errorf("%s: Get(%d) finds nothing although the pair is listed", what, it.Key)
			}
		}
		return nil
	}
	if err := check(sub.Config, "the subset"); err != nil {
		return err
	}
	if len(want) > 0 { // a plain Hashmap has no empty form
		cell := boc.NewCell()
		if err := tlb.Marshal(cell, sub.Config); err != nil {
			return fmt.Errorf("the subset for wanted ids %v of %v does not encode: %v", wanted, model, err)
		}
		var back tlb.Hashmap[tlb.Uint32, tlb.Ref[boc.Cell]]
		if err := tlb.Unmarshal(cell, &back); err != nil {
			return fmt.Errorf("the encoded subset does not decode: %v", err)
		}
		if err := check(back, "the subset after encode and decode"); err != nil {
			return err
		}
	}
	if got := len(params.Config.Items()); got != len(model) {
		return fmt.Errorf("the original dictionary has %d pairs after taking a subset, it had %d", got, len(model))
	}
	if repeated {
		c.Class("an existing id wanted more than once")
	}
	if missing {
		c.Class("a missing id wanted")
	}
	if len(want) >= 2 {
		c.NonTrivial(fmt.Sprint(want), fmt.Sprint(wanted))
	}
	return nil
}}

func TestSubset(t *testing.T) { core.Run(t, subsetCheck) }
