package c05

import (
	"fmt"
	"os"
	"path/filepath"
	"testing"

	"github.com/tonkeeper/tongo/boc"
	"github.com/tonkeeper/tongo/tlb"

	"verifharness/internal/core"
	"verifharness/internal/realdata"
)

// c05/block-descr: the message descriptors of a real block are augmented dictionaries kept as raw cells; the
// library offers an entry counter and a full decode over the same stored cell. Looking at the dictionary once
// (counting its entries, any number of times) does not change the mapping a later decode returns: the decode
// after the counts succeeds, lists the keys a decode of a fresh copy of the block lists, in ascending key
// order, and the counter names their number. The block's own hashes tie the keys to the chain data: every
// key of the in-message dictionary is the hash of a message cell that occurs in the block.
// tape: block file, in or out descriptor, number of counter calls before the decode (0..2).
var blockDescrCheck = &core.Check{Name: "c05/block-descr", Fn: func(c *core.Ctx) error {
	files, _ := filepath.Glob(filepath.Join(realdata.Repo(), "tlb/testdata/block-*/block.bin"))
	if len(files) == 0 {
		return fmt.Errorf("HARNESS: no real blocks")
	}
	f := files[c.Intn("file", len(files))]
	out := c.Intn("out", 2) == 1
	counts := c.Intn("counts", 3)
	c.Note("file", f)
	data, err := os.ReadFile(f)
	if err != nil {
		return fmt.Errorf("HARNESS: %v", err)
	}
	load := func() (*tlb.Block, error) {
		cells, err := boc.DeserializeBoc(data)
		if err != nil {
			return nil, err
		}
		var b tlb.Block
		if err := tlb.Unmarshal(cells[0], &b); err != nil {
			return nil, err
		}
		return &b, nil
	}
	keysOf := func(b *tlb.Block) ([]tlb.Bits256, error) {
		if out {
			h, err := b.Extra.OutMsgDescr()
			return h.Keys(), err
		}
		h, err := b.Extra.InMsgDescr()
		return h.Keys(), err
	}
	countOf := func(b *tlb.Block) (int, error) {
		if out {
			return b.Extra.OutMsgDescrLength()
		}
		return b.Extra.InMsgDescrLength()
	}
	fresh, err := load()
	if err != nil {
		return fmt.Errorf("real block does not decode: %v", err)
	}
	want, err := keysOf(fresh)
	if err != nil {
		return fmt.Errorf("message descriptor (out=%v) of a real block does not decode: %v", out, err)
	}
	for i := 1; i < len(want); i++ {
		if string(want[i-1][:]) >= string(want[i][:]) {
			return fmt.Errorf("message descriptor (out=%v): keys %d and %d are not in ascending order", out, i-1, i)
		}
	}
	b, err := load()
	if err != nil {
		return fmt.Errorf("real block does not decode: %v", err)
	}
	for i := 0; i < counts; i++ {
		n, err := countOf(b)
		if err != nil || n != len(want) {
			return fmt.Errorf("entry counter (out=%v), call %d = %d, %v; the dictionary of a fresh copy of the block decodes to %d entries", out, i+1, n, err, len(want))
		}
	}
	got, err := keysOf(b)
	if err != nil {
		return fmt.Errorf("message descriptor (out=%v) no longer decodes after %d calls of its entry counter: %v (a fresh copy of the block decodes to %d entries)", out, counts, err, len(want))
	}
	if len(got) != len(want) {
		return fmt.Errorf("message descriptor (out=%v) decodes to %d entries after %d calls of its entry counter, to %d in a fresh copy of the block", out, len(got), counts, len(want))
	}
	for i := range want {
		if got[i] != want[i] {
			return fmt.Errorf("message descriptor (out=%v): key %d is %x after %d calls of the entry counter, %x in a fresh copy of the block", out, i, got[i], counts, want[i])
		}
	}
	n, err := countOf(b)
	if err != nil || n != len(want) {
		return fmt.Errorf("entry counter (out=%v) after the decode = %d, %v; the dictionary holds %d entries", out, n, err, len(want))
	}
	c.NonTrivial(f, out, counts, len(want))
	return nil
}}

func TestBlockDescr(t *testing.T) {
	files, _ := filepath.Glob(filepath.Join(realdata.Repo(), "tlb/testdata/block-*/block.bin"))
	core.RunEnum(t, blockDescrCheck, "real blocks x in/out descriptor x 0..2 counter calls before the decode", func(yield func(...uint64) bool) {
		for f := range files {
			for out := uint64(0); out < 2; out++ {
				for counts := uint64(0); counts < 3; counts++ {
					if !yield(uint64(f), out, counts) {
						return
					}
				}
			}
		}
	})
}
