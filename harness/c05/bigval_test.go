package c05

import (
	"bytes"
	"fmt"
	"math/bits"
	"sort"
	"testing"

	"github.com/tonkeeper/tongo/boc"
	"github.com/tonkeeper/tongo/tlb"

	"verifharness/internal/core"
	"verifharness/internal/gen"
	"verifharness/internal/ref"
)

// c05/bigval: dictionaries whose values are large (up to a full cell). Whether a leaf fits into its cell depends on
// the label form the encoder picks, so the library may refuse such a dictionary. What the property rules out is a
// "successful" encode whose tree decodes to something else: an encode either returns an error or yields a tree
// that decodes (by the library and by the reference decoder) to exactly the pairs. A dictionary every leaf of
// which fits under any label form has to encode.

// anyDict is a HashmapE[K, tlb.Any] seen through key bits; a value is the bits and references of a cell.
type anyDict interface {
	Put(k ref.Bits, v ref.DictValue) error
	Entries() ([]ref.DictEntry, error)
	Marshal() (*boc.Cell, error)
	Unmarshal(c *boc.Cell) error
	Fresh() anyDict
}

type ganyDict[K keyT] struct {
	h        tlb.HashmapE[K, tlb.Any]
	fromBits func(ref.Bits) K
	toBits   func(K) ref.Bits
}

func valueCell(v ref.DictValue) (*boc.Cell, error) {
	return gen.ToTongo(ref.NewRCell(v.Bits, false, v.Refs...), false, 1<<16)
}

func (d *ganyDict[K]) Put(k ref.Bits, v ref.DictValue) error {
	cell, err := valueCell(v)
	if err != nil {
		return err
	}
	d.h.Put(d.fromBits(k), tlb.Any(*cell))
	return nil
}

func (d *ganyDict[K]) Entries() ([]ref.DictEntry, error) {
	ks, vs := d.h.Keys(), d.h.Values()
	if len(ks) != len(vs) {
		return nil, fmt.Errorf("%d keys and %d values", len(ks), len(vs))
	}
	var out []ref.DictEntry
	for i := range ks {
		cell := boc.Cell(vs[i])
		r, err := gen.FromTongo(&cell, 1<<16)
		if err != nil {
			return nil, err
		}
		out = append(out, ref.DictEntry{Key: d.toBits(ks[i]), Value: ref.DictValue{Bits: r.Bits(), Refs: r.Refs}})
	}
	return out, nil
}

func (d *ganyDict[K]) Marshal() (*boc.Cell, error) {
	c := boc.NewCell()
	err := tlb.Marshal(c, d.h)
	return c, err
}

func (d *ganyDict[K]) Unmarshal(c *boc.Cell) error {
	var h tlb.HashmapE[K, tlb.Any]
	if err := tlb.Unmarshal(c, &h); err != nil {
		return err
	}
	d.h = h
	return nil
}

func (d *ganyDict[K]) Fresh() anyDict { return &ganyDict[K]{fromBits: d.fromBits, toBits: d.toBits} }

type anyKind struct {
	name string
	bits int
	new  func() anyDict
}

var anyKinds = []anyKind{
	{"Bits256", 256, func() anyDict {
		return &ganyDict[tlb.Bits256]{fromBits: func(b ref.Bits) tlb.Bits256 { var k tlb.Bits256; copy(k[:], b.Packed()); return k }, toBits: func(k tlb.Bits256) ref.Bits { return ref.BitsFromBytes(k[:], 256) }}
	}},
	{"Bits128", 128, func() anyDict {
		return &ganyDict[tlb.Bits128]{fromBits: func(b ref.Bits) tlb.Bits128 { var k tlb.Bits128; copy(k[:], b.Packed()); return k }, toBits: func(k tlb.Bits128) ref.Bits { return ref.BitsFromBytes(k[:], 128) }}
	}},
	{"Uint64", 64, func() anyDict {
		return &ganyDict[tlb.Uint64]{fromBits: func(b ref.Bits) tlb.Uint64 { return tlb.Uint64(b.Uint(0, 64)) }, toBits: func(k tlb.Uint64) ref.Bits { return ref.Bits{}.AppendUint(uint64(k), 64) }}
	}},
	{"Int16", 16, func() anyDict {
		return &ganyDict[tlb.Int16]{fromBits: func(b ref.Bits) tlb.Int16 { return tlb.Int16(b.Int(0, 16)) }, toBits: func(k tlb.Int16) ref.Bits { return ref.Bits{}.AppendInt(int64(k), 16) }}
	}},
	{"Uint8", 8, func() anyDict {
		return &ganyDict[tlb.Uint8]{fromBits: func(b ref.Bits) tlb.Uint8 { return tlb.Uint8(b.Uint(0, 8)) }, toBits: func(k tlb.Uint8) ref.Bits { return ref.Bits{}.AppendUint(uint64(k), 8) }}
	}},
}

// leafLabelLens gives, for sorted distinct keys of n bits, the number of key bits each leaf carries in its label:
// all n for a single key, else what is left after the deepest fork the key takes part in.
func leafLabelLens(keys []ref.Bits, n int) []int {
	lcp := func(a, b ref.Bits) int {
		l := 0
		for l < n && a[l] == b[l] {
			l++
		}
		return l
	}
	out := make([]int, len(keys))
	for i := range keys {
		deepest := -1
		if i > 0 {
			deepest = lcp(keys[i-1], keys[i])
		}
		if i+1 < len(keys) {
			if l := lcp(keys[i], keys[i+1]); l > deepest {
				deepest = l
			}
		}
		out[i] = n - (deepest + 1) // deepest = -1 for a single key
	}
	return out
}

// labelBitsRange: the fewest and the most bits a label of l bits (which are all the remaining key bits) can take
// among the short and long forms (the same form is never longer than the long form).
func labelBitsRange(l int, allEqual bool) (min, max int) {
	short, long := 2*l+2, 2+bits.Len(uint(l))+l
	min, max = short, long
	if long < short {
		min, max = long, short
	}
	if same := 3 + bits.Len(uint(l)); allEqual && same < min {
		min = same
	}
	return
}

// takesZeroBranch: does the path from the root to the leaf of keys[i] leave some fork through its 0-branch?
func takesZeroBranch(keys []ref.Bits, i, n int) bool {
	for j := range keys {
		if j == i {
			continue
		}
		p := 0
		for p < n && keys[i][p] == keys[j][p] {
			p++
		}
		if p < n && !keys[i][p] { // a fork at bit p, keys[i] goes left
			return true
		}
	}
	return false
}

func sameValue(a, b ref.DictValue) bool {
	if !a.Bits.Equal(b.Bits) || len(a.Refs) != len(b.Refs) {
		return false
	}
	for i := range a.Refs {
		if !bytes.Equal(a.Refs[i].ReprHash(), b.Refs[i].ReprHash()) {
			return false
		}
	}
	return true
}

func compareEntries(got []ref.DictEntry, want []ref.DictEntry, what string) error {
	if len(got) != len(want) {
		return fmt.Errorf("%s: %d entries, the dictionary holds %d", what, len(got), len(want))
	}
	for i := range want {
		if !got[i].Key.Equal(want[i].Key) {
			return fmt.Errorf("%s: entry %d has key %s, the dictionary (ascending key bits) has %s", what, i, got[i].Key, want[i].Key)
		}
		if !sameValue(got[i].Value, want[i].Value) {
			return fmt.Errorf("%s: key %s maps to a value of %d bits and %d references (%s), the dictionary holds %d bits and %d references (%s)", what, want[i].Key,
				len(got[i].Value.Bits), len(got[i].Value.Refs), short(got[i].Value.Bits), len(want[i].Value.Bits), len(want[i].Value.Refs), short(want[i].Value.Bits))
		}
	}
	return nil
}

func short(b ref.Bits) string {
	s := b.FiftHex()
	if len(s) > 40 {
		return s[:16] + ".." + s[len(s)-16:]
	}
	return s
}

var bigvalCheck = &core.Check{Name: "c05/bigval", Quick: 1200, Thorough: 100000, Fn: func(c *core.Ctx) error {
	kind := anyKinds[c.Choose("keytype", len(anyKinds))]
	n := kind.bits
	c.Note("key_type", kind.name)
	keys := drawKeys(c, n, 8, nil)
	if len(keys) == 0 {
		keys = []ref.Bits{ref.Bits(c.Bits("onlykey", n))}
	}
	sort.Slice(keys, func(i, j int) bool { return keys[i].String() < keys[j].String() })
	lens := leafLabelLens(keys, n)
	// value sizes: small, large, or right at the edge of what fits beside the leaf's label in the form the library
	// is known to write (short below 8 label bits, long from 8) and in the shortest form
	model := map[string]ref.DictValue{}
	sm := core.NewSplitMix(c.U64("content"))
	drawValue := func(label string, l int, allEqual bool) ref.DictValue {
		var nb int
		lo, _ := labelBitsRange(l, allEqual)
		switch c.Weighted(label+".size", 3, 2, 3, 2) {
		case 0:
			nb = c.Range(label+".small", 0, 64)
		case 1:
			nb = c.Range(label+".large", 600, 1023)
		case 2:
			lib := 2*l + 2
			if l >= 8 {
				lib = 2 + bits.Len(uint(l)) + l
			}
			nb = 1023 - lib + c.OneOf(label+".delta", -3, -1, 0, 1, 2, 40, 142)
		case 3:
			nb = 1023 - lo + c.OneOf(label+".delta", -1, 0, 1, 30)
		}
		if nb < 0 {
			nb = 0
		}
		if nb > 1023 {
			nb = 1023
		}
		v := ref.DictValue{Bits: make(ref.Bits, nb)}
		for i := range v.Bits {
			v.Bits[i] = sm.Next()&1 == 1
		}
		for i, nr := 0, []int{0, 1, 4}[c.Weighted(label+".refs", 6, 1, 1)]; i < nr; i++ {
			v.Refs = append(v.Refs, ref.NewRCell(ref.Bits{}.AppendUint(sm.Next(), 32), false))
		}
		return v
	}
	allEqual := func(b ref.Bits) bool {
		for _, x := range b {
			if x != b[0] {
				return false
			}
		}
		return true
	}
	var entries []ref.DictEntry
	for i, k := range keys {
		v := drawValue("val", lens[i], allEqual(k[n-lens[i]:]))
		model[k.String()] = v
		entries = append(entries, ref.DictEntry{Key: k, Value: v})
	}
	// route: built with Put in a drawn order, or decoded from what another implementation wrote (shortest label
	// forms, incl. hml_same for a long run of equal key bits, or drawn forms) and then updated in one place
	d := kind.new()
	decoded := false
	if c.Bool("decoded") {
		var choose func(ref.Bits, int, []int) int
		if c.Intn("forms", 3) == 0 {
			choose = func(s ref.Bits, m int, forms []int) int { return forms[c.Choose("form", len(forms))] }
		}
		if bitsE, refsE, err := ref.EncodeHashmapE(entries, n, choose); err == nil {
			data := ref.SerializeBOC([]*ref.RCell{ref.NewRCell(bitsE, false, refsE...)}, ref.BocVariant{})
			cells, err := boc.DeserializeBoc(data)
			if err != nil {
				return fmt.Errorf("HARNESS: %v", err)
			}
			if err := d.Unmarshal(cells[0]); err != nil {
				return fmt.Errorf("%s: a valid dictionary with %d keys and values of up to 1023 bits does not decode: %v\nBOC %x", kind.name, len(keys), err, data)
			}
			got, err := d.Entries()
			if err != nil {
				return fmt.Errorf("HARNESS: %v", err)
			}
			if err := compareEntries(got, entries, kind.name+" decoded from a foreign encoding"); err != nil {
				return fmt.Errorf("%v\nBOC %x", err, data)
			}
			decoded = true
			c.Class("decoded from a foreign encoding, then updated")
			if c.Intn("update", 4) != 0 {
				j := c.Choose("update.key", len(keys))
				v := drawValue("update", lens[j], allEqual(keys[j][n-lens[j]:]))
				if c.Bool("update.small") {
					v = ref.DictValue{Bits: ref.Bits{}.AppendUint(sm.Next(), 24)}
				}
				if err := d.Put(keys[j], v); err != nil {
					return fmt.Errorf("HARNESS: %v", err)
				}
				model[keys[j].String()] = v
				entries[j].Value = v
			}
		} else {
			c.Class("no label form leaves room for a leaf: built with Put instead")
		}
	}
	if !decoded {
		order := make([]int, len(keys))
		for i := range order {
			order[i] = i
		}
		for i := len(order) - 1; i > 0; i-- {
			j := sm.Intn(i + 1)
			order[i], order[j] = order[j], order[i]
		}
		for _, i := range order {
			if err := d.Put(keys[i], entries[i].Value); err != nil {
				return fmt.Errorf("HARNESS: %v", err)
			}
		}
		c.Class("built with Put")
	}
	// which leaves can fail to fit
	mustFit, oversized := true, -1
	zero, one, root := false, false, false
	for i, e := range entries {
		_, hi := labelBitsRange(lens[i], allEqual(e.Key[n-lens[i]:]))
		if hi+len(e.Value.Bits) > 1023 {
			mustFit = false
		}
		lib := 2*lens[i] + 2
		if lens[i] >= 8 {
			lib = 2 + bits.Len(uint(lens[i])) + lens[i]
		}
		if lib+len(e.Value.Bits) > 1023 {
			oversized = i
			switch {
			case len(keys) == 1:
				root = true
			case takesZeroBranch(keys, i, n):
				zero = true
			default:
				one = true
			}
		}
	}
	switch {
	case root:
		c.Class("a leaf that is too large for a short/long label: the root")
	case zero && one:
		c.Class("leaves that are too large for a short/long label: below a 0-branch and on the all-1 path")
	case zero:
		c.Class("a leaf that is too large for a short/long label: below a 0-branch")
	case one:
		c.Class("a leaf that is too large for a short/long label: on the all-1 path")
	}
	cell, err := d.Marshal()
	if err != nil {
		if mustFit {
			return fmt.Errorf("%s with %d keys: every leaf fits into its cell under any label form, but Marshal fails: %v", kind.name, len(keys), err)
		}
		c.Class("encoder refused a dictionary with a leaf that may not fit")
		if oversized >= 0 {
			c.NonTrivial(kind.name, "refused", keys[oversized].String(), len(entries[oversized].Value.Bits), zero, one)
		}
		return nil
	}
	c.Class("encoded")
	if oversized >= 0 {
		c.Class("encoded although a leaf is too large for a short/long label")
	}
	sizes := ""
	for _, e := range entries {
		sizes += fmt.Sprintf(" %s..:%d", short(e.Key), len(e.Value.Bits))
	}
	what := fmt.Sprintf("%s with %d keys (key:value bits%s): Marshal reported success, but ", kind.name, len(keys), sizes)
	back := d.Fresh()
	if err := back.Unmarshal(cell); err != nil {
		return fmt.Errorf("%sits result does not decode: %v", what, err)
	}
	got, err := back.Entries()
	if err != nil {
		return fmt.Errorf("%sits result holds a value that is not a cell: %v", what, err)
	}
	if err := compareEntries(got, entries, what+"its result decoded by the library"); err != nil {
		return err
	}
	cell.ResetCounters()
	rgot, err := decodeWithRef(cell, n)
	if err != nil {
		return fmt.Errorf("%sthe reference decoder rejects its result: %v", what, err)
	}
	if err := compareEntries(rgot, entries, what+"its result decoded by the reference decoder"); err != nil {
		return err
	}
	big := 0
	for _, e := range entries {
		if len(e.Value.Bits) >= 600 {
			big++
		}
	}
	if big > 0 {
		var kb bytes.Buffer
		for _, e := range entries {
			fmt.Fprintf(&kb, "%s:%d,", e.Key, len(e.Value.Bits))
		}
		c.NonTrivial(kind.name, kb.String())
	}
	return nil
}}

func TestBigval(t *testing.T) { core.Run(t, bigvalCheck) }

// the shape the reviewers' example has, for every key type of c05/bigval: two keys that fork at the first bit,
// a 900-bit value on one side (all-zero / all-one key tail), decoded from the canonical encoding, the other key
// updated; plus the single-key dictionary.
func TestBigvalEnum(t *testing.T) {
	core.RunEnum(t, bigvalFixedCheck, "key types x {large value below the 0-branch, below the 1-branch, both, single key} x value sizes around the fit limit", func(yield func(...uint64) bool) {
		for ki := range anyKinds {
			for shape := 0; shape < 4; shape++ {
				for _, delta := range []uint64{0, 1, 2, 3, 4, 5} {
					for upd := uint64(0); upd < 2; upd++ {
						if !yield(uint64(ki), uint64(shape), delta, upd) {
							return
						}
					}
				}
			}
		}
	})
}

var bigvalFixedCheck = &core.Check{Name: "c05/bigval-fixed", Quick: 0, Thorough: 0, Fn: func(c *core.Ctx) error {
	kind := anyKinds[c.Choose("keytype", len(anyKinds))]
	shape := c.Choose("shape", 4)
	delta := []int{-300, -1, 0, 1, 8, 123}[c.Choose("delta", 6)]
	update := c.Bool("update")
	n := kind.bits
	c.Note("key_type", kind.name)
	zeroKey, oneKey := make(ref.Bits, n), make(ref.Bits, n)
	for i := range oneKey {
		oneKey[i] = true
	}
	keys := []ref.Bits{zeroKey, oneKey}
	if shape == 3 {
		keys = keys[:1]
	}
	l := n - 1
	if len(keys) == 1 {
		l = n
	}
	lib := 2*l + 2
	if l >= 8 {
		lib = 2 + bits.Len(uint(l)) + l
	}
	bigBits := 1023 - lib + delta
	if most := 1023 - (3 + bits.Len(uint(l))); bigBits > most { // what fits beside the hml_same label
		bigBits = most
	}
	sm := core.NewSplitMix(uint64(n)*31 + uint64(shape))
	mk := func(nb int) ref.DictValue {
		v := ref.DictValue{Bits: make(ref.Bits, nb)}
		for i := range v.Bits {
			v.Bits[i] = sm.Next()&1 == 1
		}
		return v
	}
	var entries []ref.DictEntry
	for i, k := range keys {
		nb := 16
		if shape == 2 || shape == 3 || shape == i {
			nb = bigBits
		}
		entries = append(entries, ref.DictEntry{Key: k, Value: mk(nb)})
	}
	bitsE, refsE, err := ref.EncodeHashmapE(entries, n, nil) // hml_same labels: every leaf fits
	if err != nil {
		return fmt.Errorf("HARNESS: %v", err)
	}
	data := ref.SerializeBOC([]*ref.RCell{ref.NewRCell(bitsE, false, refsE...)}, ref.BocVariant{})
	cells, err := boc.DeserializeBoc(data)
	if err != nil {
		return fmt.Errorf("HARNESS: %v", err)
	}
	d := kind.new()
	if err := d.Unmarshal(cells[0]); err != nil {
		return fmt.Errorf("%s: a valid dictionary with a %d-bit value does not decode: %v\nBOC %x", kind.name, bigBits, err, data)
	}
	if update {
		j := len(keys) - 1
		if shape == 1 {
			j = 0
		}
		nb := 24
		if shape >= 2 {
			nb = bigBits
		}
		entries[j].Value = mk(nb)
		if err := d.Put(keys[j], entries[j].Value); err != nil {
			return fmt.Errorf("HARNESS: %v", err)
		}
	}
	c.NonTrivial(kind.name, shape, delta, update)
	c.Class([]string{"large value below the 0-branch", "large value below the 1-branch", "large values below both branches", "single key"}[shape])
	cell, err := d.Marshal()
	if err != nil {
		if _, hi := labelBitsRange(l, true); hi+bigBits <= 1023 {
			return fmt.Errorf("%s, %d key(s), value of %d bits beside a label of %d key bits: the leaf fits under every label form, but Marshal fails: %v", kind.name, len(keys), bigBits, l, err)
		}
		c.Class("refused")
		return nil
	}
	c.Class("encoded")
	what := fmt.Sprintf("%s, %d key(s), value of %d bits beside a label of %d key bits (shape %d): Marshal reported success, but ", kind.name, len(keys), bigBits, l, shape)
	back := d.Fresh()
	if err := back.Unmarshal(cell); err != nil {
		return fmt.Errorf("%sits result does not decode: %v", what, err)
	}
	got, err := back.Entries()
	if err != nil {
		return fmt.Errorf("%sits result holds a value that is not a cell: %v", what, err)
	}
	if err := compareEntries(got, entries, what+"its result decoded by the library"); err != nil {
		return err
	}
	cell.ResetCounters()
	rgot, err := decodeWithRef(cell, n)
	if err != nil {
		return fmt.Errorf("%sthe reference decoder rejects its result: %v", what, err)
	}
	return compareEntries(rgot, entries, what+"its result decoded by the reference decoder")
}}

// c05/augsigned: augmented dictionaries over signed key types. A dictionary lists its keys in ascending order of
// their bits, so the non-negative keys come before the negative ones.
type augKind struct {
	name   string
	bits   int
	decode func(cell *boc.Cell) ([]ref.Bits, []uint32, error)
}

func augDecoder[K keyT](n int, toInt func(K) int64) func(cell *boc.Cell) ([]ref.Bits, []uint32, error) {
	return func(cell *boc.Cell) ([]ref.Bits, []uint32, error) {
		var h tlb.HashmapAugE[K, tlb.Uint32, tlb.Uint8]
		if err := tlb.Unmarshal(cell, &h); err != nil {
			return nil, nil, err
		}
		ks, vs := h.Keys(), h.Values()
		if len(ks) != len(vs) {
			return nil, nil, fmt.Errorf("%d keys and %d values", len(ks), len(vs))
		}
		var gk []ref.Bits
		var gv []uint32
		for i := range ks {
			gk = append(gk, ref.Bits{}.AppendInt(toInt(ks[i]), n))
			gv = append(gv, uint32(vs[i]))
		}
		return gk, gv, nil
	}
}

var augKinds = []augKind{
	{"Int5", 5, augDecoder(5, func(k tlb.Int5) int64 { return int64(k) })},
	{"Int8", 8, augDecoder(8, func(k tlb.Int8) int64 { return int64(k) })},
	{"Int16", 16, augDecoder(16, func(k tlb.Int16) int64 { return int64(k) })},
	{"Int32", 32, augDecoder(32, func(k tlb.Int32) int64 { return int64(k) })},
	{"Int33", 33, augDecoder(33, func(k tlb.Int33) int64 { return int64(k) })},
	{"Int64", 64, augDecoder(64, func(k tlb.Int64) int64 { return int64(k) })},
}

var augSignedCheck = &core.Check{Name: "c05/augsigned", Quick: 800, Thorough: 60000, Fn: func(c *core.Ctx) error {
	kind := augKinds[c.Choose("keytype", len(augKinds))]
	c.Note("key_type", kind.name)
	cells, data, model, rootHash, err := buildAug(c, kind.bits)
	if err != nil {
		return err
	}
	want := modelSortedPlain(model)
	neg, pos := false, false
	for _, e := range want {
		if e.Key[0] {
			neg = true
		} else {
			pos = true
		}
	}
	if neg && pos {
		c.Class("keys of both signs")
		c.NonTrivial(kind.name, rootHash)
	}
	gotKeys, gotVals, err := kind.decode(cells[0])
	if err != nil {
		return fmt.Errorf("a valid HashmapAugE with %d %s keys (both signs: %v) does not decode: %v\nBOC %x", len(want), kind.name, neg && pos, err, data)
	}
	if len(gotKeys) != len(want) {
		return fmt.Errorf("%s: decoded %d entries, the dictionary holds %d\nBOC %x", kind.name, len(gotKeys), len(want), data)
	}
	for i := range want {
		if !gotKeys[i].Equal(want[i].Key) || uint64(gotVals[i]) != want[i].Value.Bits.Uint(0, 32) {
			return fmt.Errorf("%s: entry %d decodes as %s -> %d, the dictionary (ascending key bits) holds %s -> %d\nBOC %x", kind.name, i, gotKeys[i], gotVals[i], want[i].Key, want[i].Value.Bits.Uint(0, 32), data)
		}
	}
	return nil
}}

func TestAugSigned(t *testing.T) { core.Run(t, augSignedCheck) }
