#!/usr/bin/env python3
"""Confirms a seeded change and runs the checks against it.

  seedtest.py <src-dir> <property> <name> [--tier quick|thorough] [--also C02,C07]

<src-dir> holds patch.diff, demo_test.go (first comment names the package directory), meta.json as written
by the independent sub-agent. The script
  1. creates a scratch worktree of /repo HEAD under /tmp, applies the patch there,
  2. runs the pinned baseline (232 tests) on it,
  3. runs the demonstration with the patch (must fail) and on a clean worktree (must pass),
  4. runs check.py <property> (and the --also list) with VERIF_REPO pointing at the patched worktree,
  5. writes /verif/seeded/<name>/{patch.diff, demo_test.go, meta.json} with everything observed,
  6. removes the worktrees.
"""
import argparse, json, os, re, shutil, subprocess, sys, time

VERIF = os.path.dirname(os.path.abspath(__file__))
ENV = dict(os.environ, GOFLAGS="-mod=mod", GOPROXY="off", GOSUMDB="off", GOTOOLCHAIN="local")


def sh(cmd, cwd=None, env=None, timeout=3600):
    p = subprocess.run(cmd, cwd=cwd, env=env or ENV, stdout=subprocess.PIPE, stderr=subprocess.STDOUT, text=True, timeout=timeout, shell=isinstance(cmd, str))
    return p.returncode, p.stdout


def demo_pkg(demo_src):
    m = re.search(r"(?:placed?|package directory|directory|in)\W+`?([a-z][a-z0-9_/]*)/?`?", demo_src[:1500])
    pk = re.search(r"^package\s+(\w+)", demo_src, re.M).group(1)
    return pk


def main():
    ap = argparse.ArgumentParser()
    ap.add_argument("src")
    ap.add_argument("prop")
    ap.add_argument("name")
    ap.add_argument("--tier", default="quick")
    ap.add_argument("--also", default="")
    ap.add_argument("--pkgdir", default="", help="package directory of the demo inside the repo (default: guessed from the package clause)")
    a = ap.parse_args()
    src = a.src
    patch = os.path.join(src, "patch.diff")
    demo = open(os.path.join(src, "demo_test.go")).read()
    pkgname = re.search(r"^package\s+(\w+)", demo, re.M).group(1)
    pkgdir = a.pkgdir or {"boc": "boc", "tlb": "tlb", "tl": "tl", "wallet": "wallet", "liteclient": "liteclient", "ton": "ton", "abi": "abi", "tonconnect": "tonconnect",
                          "pool": "liteapi/pool", "liteapi": "liteapi", "code": "code", "parser": "tl/parser", "tongo": "."}.get(pkgname.replace("_test", ""), pkgname.replace("_test", ""))
    res = {"property": a.prop, "name": a.name, "source_meta": json.load(open(os.path.join(src, "meta.json"))), "ran": {}}
    wt_mut, wt_clean = "/tmp/conf-%s-mut" % a.name, "/tmp/conf-%s-clean" % a.name
    for wt in (wt_mut, wt_clean):
        sh(["git", "-C", "/repo", "worktree", "remove", "--force", wt])
        shutil.rmtree(wt, ignore_errors=True)
        rc, out = sh(["git", "-C", "/repo", "worktree", "add", "-q", wt, "HEAD"])
        if rc != 0:
            print(out)
            sys.exit(2)
    try:
        rc, out = sh(["git", "-C", wt_mut, "apply", os.path.abspath(patch)])
        res["ran"]["patch_applies"] = rc == 0
        if rc != 0:
            print("patch does not apply:", out)
        rc, out = sh([os.path.join(VERIF, "baseline.sh"), wt_mut])
        res["ran"]["baseline_with_patch"] = out.strip().splitlines()[0] if out.strip() else ""
        for wt, key in ((wt_mut, "demo_with_patch"), (wt_clean, "demo_without_patch")):
            dst = os.path.join(wt, pkgdir, "zz_seed_demo_test.go")
            shutil.copy(os.path.join(src, "demo_test.go"), dst)
            rc, out = sh(["go", "test", "-vet=off", "-count=1", "-run", "Seed|Demo|demo|seed|C[0-9][0-9]", "./" + pkgdir], cwd=wt, timeout=900)
            tail = [l for l in out.strip().splitlines() if l.startswith(("ok", "FAIL", "---", "panic"))][:4]
            res["ran"][key] = {"exit": rc, "summary": tail}
            os.remove(dst)
            sh(["git", "-C", wt, "checkout", "--", "go.mod", "go.sum"])
        checks = [a.prop] + [x for x in a.also.split(",") if x]
        res["ran"]["checks"] = {}
        for pid in checks:
            t0 = time.time()
            env = dict(ENV, VERIF_REPO=wt_mut)
            rc, out = sh(["python3", os.path.join(VERIF, "check.py"), pid, "--tier", a.tier], env=env, timeout=7200)
            viol = [l for l in out.splitlines() if l.startswith("VIOLATION")]
            first = ""
            m = re.search(r"---- failing case[^\n]*\n(.*?)(?:\nVIOLATION|\Z)", out, re.S)
            if m:
                first = m.group(1).strip()[:600]
            res["ran"]["checks"][pid] = {"exit": rc, "violations": len(viol), "wall_s": round(time.time() - t0, 1), "first_failure": first,
                                         "tail": out.strip().splitlines()[-1][:300] if out.strip() else ""}
            # failing replays of a mutant run are not findings of the real tree
            for l in viol:
                p = l.split("replay=")[-1].strip()
                if os.path.exists(p):
                    os.remove(p)
        confirmed = (res["ran"]["patch_applies"] and "232 of 232" in res["ran"]["baseline_with_patch"] and res["ran"]["demo_with_patch"]["exit"] != 0
                     and res["ran"]["demo_without_patch"]["exit"] == 0)
        res["confirmed_breaks_property_and_passes_suite"] = confirmed
        res["caught_by"] = [p for p, r in res["ran"]["checks"].items() if r["exit"] == 1]
        out_dir = os.path.join(VERIF, "seeded", a.name)
        os.makedirs(out_dir, exist_ok=True)
        shutil.copy(patch, os.path.join(out_dir, "patch.diff"))
        shutil.copy(os.path.join(src, "demo_test.go"), os.path.join(out_dir, "demo_test.go"))
        res["what_it_needs"] = res["source_meta"].get("needs", "")
        res["how_run"] = "seedtest.py: patch applied to a scratch worktree of /repo HEAD (%s); baseline.sh; demo with/without patch in %s/; check.py with VERIF_REPO" % (
            subprocess.run(["git", "-C", "/repo", "rev-parse", "--short", "HEAD"], capture_output=True, text=True).stdout.strip(), pkgdir)
        json.dump(res, open(os.path.join(out_dir, "meta.json"), "w"), indent=1)
        print(json.dumps({k: res[k] for k in ("name", "confirmed_breaks_property_and_passes_suite", "caught_by")}))
        for p, r in res["ran"]["checks"].items():
            print(" ", p, "exit", r["exit"], "wall", r["wall_s"], "|", r["first_failure"][:200].replace("\n", " "))
        print("  demo with patch:", res["ran"]["demo_with_patch"], " without:", res["ran"]["demo_without_patch"]["exit"], " baseline:", res["ran"]["baseline_with_patch"])
    finally:
        for wt in (wt_mut, wt_clean):
            sh(["git", "-C", "/repo", "worktree", "remove", "--force", wt])
            shutil.rmtree(wt, ignore_errors=True)
        import hashlib
        tag = hashlib.sha1(wt_mut.encode()).hexdigest()
        for f in (".alt-%s.mod" % tag[:10], ".alt-%s.sum" % tag[:10]):  # only this run's own files: others may be running
            try:
                os.remove(os.path.join(VERIF, "harness", f))
            except OSError:
                pass
        for f in os.listdir(os.path.join(VERIF, ".build")):
            if f.startswith("%s-%s" % (a.prop, tag[:6])):
                try:
                    os.remove(os.path.join(VERIF, ".build", f))
                except OSError:
                    pass


if __name__ == "__main__":
    main()
