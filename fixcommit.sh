#!/bin/bash
# usage: fixcommit.sh <message-file> : runs the pinned baseline on /repo's working tree, commits only if all 232 pass
set -e
/verif/baseline.sh /repo
git -C /repo commit -qa -F "$1"
git -C /repo log --oneline | head -1
